I = "src/image.rs"

KD_DIST_OLD = ("            let [r0, g0, b0] = rgb;\n            let [r1, g1, b1] = node.color;\n            (r0 as i32 - r1 as i32).pow(2)\n"
               "                + (g0 as i32 - g1 as i32).pow(2)\n                + (b0 as i32 - b1 as i32).pow(2)\n")
ARGMIN_OLD = ("            tree.children\n                .iter()\n                .enumerate()\n                .filter_map(|(index, node)| Some((index, node.info().min_color_count?)))\n"
              "                .min_by_key(|(_, min_tail_tree)| *min_tail_tree)\n                .map(|(index, _)| index)\n")
BLEND_Q = "                if color.to_rgba()[3] < 255 {\n                    color = bg.blend_over(color);\n                }\n"
SWAP_OLD = '                for col in 0..ewidth {\n                    errors[col] = errors[col + ewidth];\n                    errors[col + ewidth] = ColorError::new();\n                }\n'
NEAR_OLD = ("            let (guess, guess_dist) = match next {\n                None => (node, node_dist),\n                Some(next_index) => {\n"
            "                    let (guess, guess_dist) = find_rec(nodes, next_index, target);\n                    if guess_dist >= node_dist {\n"
            "                        (node, node_dist)\n                    } else {\n                        (guess, guess_dist)\n                    }\n                }\n            };\n")
FAR_OLD = ("            match other {\n                None => (guess, guess_dist),\n                Some(other_index) => {\n"
           "                    let (other, other_dist) = find_rec(nodes, other_index, target);\n                    if other_dist < guess_dist {\n"
           "                        (other, other_dist)\n                    } else {\n                        (guess, guess_dist)\n                    }\n                }\n            }\n")
BLEND_FN_OLD = ("        fn blend(bg: RGBA, color: RGBA) -> RGBA {\n            if color.to_rgba()[3] < 255 {\n                bg.blend_over(color)\n            } else {\n"
                "                color\n            }\n        }\n\n")
SPREAD_OLD = ("                    errors[col + 2] += error * 0.4375; // 7/16\n                    errors[col + ewidth] += error * 0.1875; // 3/16\n"
              "                    errors[col + ewidth + 1] += error * 0.3125; // 5/16\n                    errors[col + ewidth + 2] += error * 0.0625; // 1/16\n")
KDNODE_GENERAL = "            nodes.push(KDNode {\n                color,\n                color_index,\n                dim,\n                left,\n                right,\n            });"

PALETTE_REC_OLD = ("        fn palette_rec(node: &mut OcTreeNode, palette: &mut Vec<RGBA>) {\n            use OcTreeNode::*;\n            match node {\n                Empty => {}\n                Leaf(leaf) => {\n"
                   "                    leaf.index = palette.len();\n                    palette.push(leaf.to_rgba());\n                }\n                Tree(tree) => {\n"
                   "                    for child in tree.children.iter_mut() {\n                        palette_rec(child, palette)\n                    }\n                }\n            }\n        }\n\n"
                   "        let mut palette = Vec::new();\n        for child in self.children.iter_mut() {\n            palette_rec(child, &mut palette);\n        }\n")
ERRORS_OLD = ("        let mut errors: Vec<ColorError> = Vec::new();\n        let ewidth = self.width() + 2; // to avoid check for the first and the last pixels\n"
              "        if dither {\n            errors.resize_with(ewidth * 2, ColorError::new);\n        }\n")
SUBSAMPLE_OLD = ("            let mut octree = OcTree::new();\n            let mut rnd = Rnd::new();\n            let mut colors = img.iter().copied();\n"
                 "            while let Some(color) = colors.nth((rnd.next_u32() % sample) as usize) {\n                octree.insert(blend(bg, color));\n            }\n            octree\n")

MUTANTS = [
    # ---- SAME-SIZE -------------------------------------------------------------------------------------------------------------
    {"id": "C13-size-swapped", "prop": "C13", "expect": "SAME-SIZE",
     "edits": [(I, "let mut qimg = SurfaceOwned::new(self.size());", "let mut qimg = SurfaceOwned::new(Size::new(self.width(), self.height()));")]},
    {"id": "C13-set-at-transposed-pos", "prop": "C13", "expect": "SAME-SIZE",
     "edits": [(I, "qimg.set(pos, qindex);", "qimg.set(Position::new(col, row), qindex);")]},
    {"id": "C13-odd-columns-skipped", "prop": "C13", "expect": "SAME-SIZE",
     "edits": [(I, "                let (qindex, qcolor) = palette.find(color);\n", "                if col % 2 == 1 {\n                    continue;\n                }\n                let (qindex, qcolor) = palette.find(color);\n")]},
    {"id": "C13-rows-start-at-one", "prop": "C13", "expect": "SAME-SIZE",
     "edits": [(I, "        for row in 0..self.height() {\n            if dither {", "        for row in 1..self.height() {\n            if dither {")]},
    {"id": "C13-row-loop-left-early", "prop": "C13", "expect": "SAME-SIZE",
     "edits": [(I, "        for row in 0..self.height() {\n            if dither {", "        for row in 0..self.height() {\n            if row >= 4096 {\n                break;\n            }\n            if dither {")]},
    # ---- INDEX-VALID -----------------------------------------------------------------------------------------------------------
    {"id": "C13-index-from-second-palette", "prop": "C13", "expect": "INDEX-VALID",
     "edits": [(I, "        let palette = ColorPalette::from_image(self, palette_size, bg)?;\n", "        let palette = ColorPalette::from_image(self, palette_size, bg)?;\n        let wide = ColorPalette::from_image(self, palette_size * 2, bg)?;\n"),
               (I, "let (qindex, qcolor) = palette.find(color);", "let (qindex, qcolor) = wide.find(color);")]},
    {"id": "C13-enumerate-plus-one", "prop": "C13", "expect": "INDEX-VALID",
     "edits": [(I, "colors.iter().map(|c| c.to_rgb()).enumerate().collect();", "colors.iter().map(|c| c.to_rgb()).enumerate().map(|(i, c)| (i + 1, c)).collect();")]},
    {"id": "C13-find-returns-shifted-index", "prop": "C13", "expect": "INDEX-VALID",
     "edits": [(I, "        (node.color_index, RGBA::new(r, g, b, 255))", "        (node.color_index + node.dim, RGBA::new(r, g, b, 255))")]},
    {"id": "C13-palette-new-accepts-empty", "prop": "C13", "expect": "INDEX-VALID",
     "edits": [(I, "        if colors.is_empty() {\n            None\n        } else {\n            let kdtree", "        if colors.len() > 512 {\n            None\n        } else {\n            let kdtree")]},
    {"id": "C13-palette-stores-sorted-copy", "prop": "C13", "expect": "INDEX-VALID",
     "edits": [(I, "            let kdtree = KDTree::new(&colors);\n            Some(Self { colors, kdtree })", "            let kdtree = KDTree::new(&colors);\n            let mut colors = colors;\n            colors.reverse();\n            Some(Self { colors, kdtree })")]},
    {"id": "C13-kd-colours-truncated-after-numbering", "prop": "C13", "expect": "INDEX-VALID",
     "edits": [(I, "        build_rec(0, &mut nodes, &mut colors);\n        Self { nodes }", "        colors.truncate(256);\n        build_rec(0, &mut nodes, &mut colors);\n        Self { nodes }")]},
    # ---- BLEND-AGREE -----------------------------------------------------------------------------------------------------------
    {"id": "C13-blend-only-in-extraction", "prop": "C13", "expect": "BLEND-AGREE",
     "edits": [(I, BLEND_Q, "")]},
    {"id": "C13-blend-threshold-differs", "prop": "C13", "expect": "BLEND-AGREE",
     "edits": [(I, BLEND_Q, BLEND_Q.replace("< 255", "< 254"))]},
    {"id": "C13-extraction-blend-threshold", "prop": "C13", "expect": "BLEND-AGREE",
     "edits": [(I, "            if color.to_rgba()[3] < 255 {\n                bg.blend_over(color)", "            if color.to_rgba()[3] < 128 {\n                bg.blend_over(color)")]},
    {"id": "C13-default-bg-white", "prop": "C13", "expect": "BLEND-AGREE",
     "edits": [(I, "let bg = bg.unwrap_or_else(|| RGBA::new(0, 0, 0, 255));", "let bg = bg.unwrap_or_else(|| RGBA::new(255, 255, 255, 255));")]},
    {"id": "C13-extraction-over-black", "prop": "C13", "expect": "BLEND-AGREE",
     "edits": [(I, "let palette = ColorPalette::from_image(self, palette_size, bg)?;", "let palette = ColorPalette::from_image(self, palette_size, RGBA::new(0, 0, 0, 255))?;")]},
    {"id": "C13-sampled-colours-unblended", "prop": "C13", "expect": "BLEND-AGREE",
     "edits": [(I, "                octree.insert(blend(bg, color));", "                octree.insert(color);")]},
    # ---- DITHER-GUARD ----------------------------------------------------------------------------------------------------------
    {"id": "C13-error-added-outside-dither", "prop": "C13", "expect": "DITHER-GUARD",
     "edits": [(I, "                if dither {\n                    color = errors[col + 1].add(color); // account for error\n                }\n", "                color = errors[col + 1].add(color); // account for error\n")]},
    {"id": "C13-colour-rounded-without-dither", "prop": "C13", "expect": "DITHER-GUARD",
     "edits": [(I, "                let (qindex, qcolor) = palette.find(color);\n", "                if !dither {\n                    color = ColorError::new().add(color);\n                }\n                let (qindex, qcolor) = palette.find(color);\n")]},
    # ---- NEAREST-SHAPE ---------------------------------------------------------------------------------------------------------
    {"id": "C13-metric-drops-blue", "prop": "C13", "expect": "NEAREST-SHAPE",
     "edits": [(I, KD_DIST_OLD, "            let [r0, g0, _] = rgb;\n            let [r1, g1, _] = node.color;\n            (r0 as i32 - r1 as i32).pow(2) + (g0 as i32 - g1 as i32).pow(2)\n")]},
    {"id": "C13-far-prune-weakened", "prop": "C13", "expect": "NEAREST-SHAPE/image::KDTree::find::find_rec/far-prune",
     "edits": [(I, "            if other_dist >= guess_dist {", "            if other_dist * 2 >= guess_dist {")]},
    {"id": "C13-far-side-never-explored", "prop": "C13", "expect": "NEAREST-SHAPE/image::KDTree::find::find_rec/far-prune",
     "edits": [(I, "            if other_dist >= guess_dist {", "            if other_dist >= 0 {")]},
    {"id": "C13-plane-wrong-dim", "prop": "C13", "expect": "NEAREST-SHAPE/image::KDTree::find::find_rec/plane-dim",
     "edits": [(I, "let other_dist = (target[node.dim] as i32 - node.color[node.dim] as i32).pow(2);", "let other_dist = (target[0] as i32 - node.color[0] as i32).pow(2);")]},
    {"id": "C13-side-wrong-dim", "prop": "C13", "expect": "NEAREST-SHAPE/image::KDTree::find::find_rec/side-dim",
     "edits": [(I, "let (next, other) = if target[node.dim] < node.color[node.dim] {", "let (next, other) = if target[0] < node.color[0] {")]},
    {"id": "C13-near-far-swapped", "prop": "C13", "expect": "NEAREST-SHAPE/image::KDTree::find::find_rec/near-side",
     "edits": [(I, "                (node.left, node.right)\n            } else {\n                (node.right, node.left)\n            };", "                (node.right, node.left)\n            } else {\n                (node.left, node.right)\n            };")]},
    {"id": "C13-best-update-inverted", "prop": "C13", "expect": "NEAREST-SHAPE/image::KDTree::find::find_rec/best-update",
     "edits": [(I, "                    if guess_dist >= node_dist {", "                    if guess_dist <= node_dist {")]},
    {"id": "C13-far-result-always-taken", "prop": "C13", "expect": "NEAREST-SHAPE/image::KDTree::find::find_rec/best-update",
     "edits": [(I, "                    if other_dist < guess_dist {\n                        (other, other_dist)", "                    if other_dist < guess_dist * 2 {\n                        (other, other_dist)")]},
    {"id": "C13-node-dim-is-next-dim", "prop": "C13", "expect": "NEAREST-SHAPE/image::KDTree::new::build_rec/build-dim",
     "edits": [(I, KDNODE_GENERAL, KDNODE_GENERAL.replace("                dim,\n", "                dim: dim_next,\n"))]},
    {"id": "C13-halves-swapped", "prop": "C13", "expect": "NEAREST-SHAPE/image::KDTree::new::build_rec/build-partition",
     "edits": [(I, "            let left = build_rec(dim_next, nodes, &mut colors[..index]);\n            let right = build_rec(dim_next, nodes, &mut colors[(index + 1)..]);",
                "            let right = build_rec(dim_next, nodes, &mut colors[..index]);\n            let left = build_rec(dim_next, nodes, &mut colors[(index + 1)..]);")]},
    {"id": "C13-sorted-on-next-dim", "prop": "C13", "expect": "NEAREST-SHAPE/image::KDTree::new::build_rec/build-dim",
     "edits": [(I, "            colors.sort_by_key(|(_, c)| c[dim]);\n            let index = colors.len() / 2;\n            let dim_next = (dim + 1) % 3;",
                "            let dim_next = (dim + 1) % 3;\n            colors.sort_by_key(|(_, c)| c[dim_next]);\n            let index = colors.len() / 2;")]},
    {"id": "C13-search-starts-at-first-node", "prop": "C13", "expect": "NEAREST-SHAPE/image::KDTree::find/root",
     "edits": [(I, "let node = find_rec(&self.nodes, self.nodes.len() - 1, color.to_rgb()).0;", "let node = find_rec(&self.nodes, 0, color.to_rgb()).0;")]},
    # ---- PALETTE-BOUND ---------------------------------------------------------------------------------------------------------
    {"id": "C13-prune-loop-ge", "prop": "C13", "expect": "PALETTE-BOUND",
     "edits": [(I, "while self.info.leaf_count > prune_count {", "while self.info.leaf_count >= prune_count {")]},
    {"id": "C13-leaf-index-off-by-one", "prop": "C13", "expect": "PALETTE-BOUND",
     "edits": [(I, "leaf.index = palette.len();", "leaf.index = palette.len() + 1;")]},
    {"id": "C13-leaf-index-after-push", "prop": "C13", "expect": "PALETTE-BOUND",
     "edits": [(I, "                    leaf.index = palette.len();\n                    palette.push(leaf.to_rgba());", "                    palette.push(leaf.to_rgba());\n                    leaf.index = palette.len();")]},
    {"id": "C13-no-prune", "prop": "C13", "expect": "PALETTE-BOUND",
     "edits": [(I, "        octree.prune_until(palette_size);\n", "")]},
    {"id": "C13-prune-to-double-size", "prop": "C13", "expect": "PALETTE-BOUND",
     "edits": [(I, "        octree.prune_until(palette_size);\n", "        octree.prune_until(palette_size * 2);\n")]},
    {"id": "C13-first-child-not-emitted", "prop": "C13", "expect": "PALETTE-BOUND",
     "edits": [(I, "        for child in self.children.iter_mut() {\n            palette_rec(child, &mut palette);", "        for child in self.children.iter_mut().skip(1) {\n            palette_rec(child, &mut palette);")]},
    # ---- TOTAL and its lemmas --------------------------------------------------------------------------------------------------
    {"id": "C13-error-rows-half-size", "prop": "C13", "expect": "ERR-ROWS",
     "edits": [(I, "errors.resize_with(ewidth * 2, ColorError::new);", "errors.resize_with(ewidth, ColorError::new);")]},
    {"id": "C13-ewidth-plus-one", "prop": "C13", "expect": "TOTAL",
     "edits": [(I, "let ewidth = self.width() + 2;", "let ewidth = self.width() + 1;")]},
    {"id": "C13-error-index-plus-three", "prop": "C13", "expect": "TOTAL/image::Image::quantize/BOUNDSCALL",
     "edits": [(I, "errors[col + ewidth + 2] += error * 0.0625;", "errors[col + ewidth + 3] += error * 0.0625;")]},
    {"id": "C13-dim-next-mod-four", "prop": "C13", "expect": "KD-INV",
     "edits": [(I, "let dim_next = (dim + 1) % 3;", "let dim_next = (dim + 1) % 4;")]},
    {"id": "C13-sample-zero-remainder", "prop": "C13", "expect": "TOTAL/image::ColorPalette::from_image/DIV0",
     "edits": [(I, "let mut octree: OcTree = if sample < 2 {", "let mut octree: OcTree = if sample == 1 {")]},
    {"id": "C13-octree-index-four-bits", "prop": "C13", "expect": "OCTREE-INV",
     "edits": [(I, "let value = ((bits >> 21) | (bits >> 14) | (bits >> 7)) & 0b111;", "let value = ((bits >> 21) | (bits >> 14) | (bits >> 7)) & 0b1111;")]},
    {"id": "C13-median-index-len", "prop": "C13", "expect": "TOTAL/image::KDTree::new::build_rec",
     "edits": [(I, "            let index = colors.len() / 2;", "            let index = colors.len();")]},
    {"id": "C13-metric-u32-wraps", "prop": "C13", "expect": "TOTAL/image::KDTree::find::find_rec",
     "edits": [(I, "let other_dist = (target[node.dim] as i32 - node.color[node.dim] as i32).pow(2);", "let other_dist = (target[node.dim] as i32 - node.color[node.dim] as i32).pow(2) * 40000;")]},

    {"id": "C13-accumulator-jumps", "prop": "C13", "expect": "TOTAL",
     "edits": [(I, "        self.color_count += 1;\n    }\n}\n\nimpl AddAssign<OcTreeLeaf> for OcTreeLeaf", "        self.color_count += usize::MAX / 2;\n    }\n}\n\nimpl AddAssign<OcTreeLeaf> for OcTreeLeaf")]},
    {"id": "C13-sample-divisor-cubed", "prop": "C13", "expect": "TOTAL/image::ColorPalette::from_image/OVF",
     "edits": [(I, "(img.height() * img.width() / (palette_size * 100)) as u32;", "(img.height() * img.width() * img.height() / (palette_size * 100)) as u32;")]},
    # ---- benign edits -------------------------------------------------------------------------------------------------------------
    {"id": "C13-benign-rename-locals", "prop": "C13", "benign": True,
     "edits": [(I, "                let (qindex, qcolor) = palette.find(color);\n                qimg.set(pos, qindex);", "                let (slot, nearest) = palette.find(color);\n                let qcolor = nearest;\n                qimg.set(pos, slot);")]},
    {"id": "C13-benign-flipped-comparisons", "prop": "C13", "benign": True,
     "edits": [(I, "let (next, other) = if target[node.dim] < node.color[node.dim] {", "let (next, other) = if node.color[node.dim] > target[node.dim] {"),
               (I, "            if other_dist >= guess_dist {", "            if guess_dist <= other_dist {"),
               (I, "                    if other_dist < guess_dist {\n                        (other, other_dist)", "                    if guess_dist > other_dist {\n                        (other, other_dist)")]},
    {"id": "C13-benign-reordered-statements", "prop": "C13", "benign": True,
     "edits": [(I, "        let mut qimg = SurfaceOwned::new(self.size());\n\n        // quantize and dither\n        let mut errors: Vec<ColorError> = Vec::new();\n        let ewidth = self.width() + 2; // to avoid check for the first and the last pixels\n",
                "        // quantize and dither\n        let ewidth = self.width() + 2; // to avoid check for the first and the last pixels\n        let mut errors: Vec<ColorError> = Vec::new();\n        let mut qimg = SurfaceOwned::new(self.size());\n")]},
    {"id": "C13-benign-blend-flipped", "prop": "C13", "benign": True,
     "edits": [(I, "            if color.to_rgba()[3] < 255 {\n                bg.blend_over(color)", "            if 255 > color.to_rgba()[3] {\n                bg.blend_over(color)"),
               (I, BLEND_Q, "                let alpha = color.to_rgba()[3];\n                if alpha <= 254 {\n                    color = bg.blend_over(color);\n                }\n")]},
    {"id": "C13-benign-square-by-multiplication", "prop": "C13", "benign": True,
     "edits": [(I, KD_DIST_OLD, "            let [r0, g0, b0] = rgb;\n            let [r1, g1, b1] = node.color;\n            let dr = r0 as i32 - r1 as i32;\n            let dg = g1 as i32 - g0 as i32;\n"
                                "            let db = b0 as i32 - b1 as i32;\n            db * db + dr * dr + dg * dg\n")]},
    {"id": "C13-benign-leaf-colour-first", "prop": "C13", "benign": True,
     "edits": [(I, "                    leaf.index = palette.len();\n                    palette.push(leaf.to_rgba());", "                    let rgba = leaf.to_rgba();\n                    leaf.index = palette.len();\n                    palette.push(rgba);")]},
    {"id": "C13-benign-prune-loop-flipped", "prop": "C13", "benign": True,
     "edits": [(I, "while self.info.leaf_count > prune_count {", "while prune_count < self.info.leaf_count {")]},
    {"id": "C13-benign-hoisted-dim", "prop": "C13", "benign": True,
     "edits": [(I, "            let node_dist = dist(target, &node);\n            let (next, other) = if target[node.dim] < node.color[node.dim] {",
                "            let node_dist = dist(target, &node);\n            let axis = node.dim;\n            let (next, other) = if target[axis] < node.color[axis] {"),
               (I, "let other_dist = (target[node.dim] as i32 - node.color[node.dim] as i32).pow(2);", "let plane = node.color[axis] as i32 - target[axis] as i32;\n            let other_dist = plane * plane;")]},
    {"id": "C13-benign-size-from-components", "prop": "C13", "benign": True,
     "edits": [(I, "let mut qimg = SurfaceOwned::new(self.size());", "let mut qimg = SurfaceOwned::new(Size::new(self.height(), self.width()));")]},
    # ---- behaviour-preserving refactorings (seeded/benign/C13-A..C and the same kinds) ---------------------------------------------------------
    {"id": "C13-benign-plane-dist-helper", "prop": "C13", "benign": True,
     "edits": [(I, "        fn find_rec(nodes: &[KDNode], index: usize, target: [u8; 3]) -> (KDNode, i32) {\n",
                "        fn plane_dist(target: [u8; 3], node: &KDNode) -> i32 {\n            (target[node.dim] as i32 - node.color[node.dim] as i32).pow(2)\n        }\n\n"
                "        fn find_rec(nodes: &[KDNode], index: usize, target: [u8; 3]) -> (KDNode, i32) {\n"),
               (I, "            let other_dist = (target[node.dim] as i32 - node.color[node.dim] as i32).pow(2);\n            if other_dist >= guess_dist {",
                "            if plane_dist(target, &node) >= guess_dist {")]},
    {"id": "C13-benign-side-helper-and-arms", "prop": "C13", "benign": True,
     "edits": [(I, "        fn find_rec(nodes: &[KDNode], index: usize, target: [u8; 3]) -> (KDNode, i32) {\n",
                "        fn children(target: [u8; 3], node: &KDNode) -> (Option<usize>, Option<usize>) {\n            if target[node.dim] >= node.color[node.dim] {\n                (node.right, node.left)\n"
                "            } else {\n                (node.left, node.right)\n            }\n        }\n\n"
                "        fn find_rec(nodes: &[KDNode], index: usize, target: [u8; 3]) -> (KDNode, i32) {\n"),
               (I, "            let (next, other) = if target[node.dim] < node.color[node.dim] {\n                (node.left, node.right)\n            } else {\n                (node.right, node.left)\n            };\n",
                "            let (next, other) = children(target, &node);\n")]},
    {"id": "C13-benign-prune-bound-if-const", "prop": "C13", "benign": True,
     "edits": [(I, "        let prune_count = color_count.max(8);\n        while self.info.leaf_count > prune_count {",
                "        const MIN_LEAF_COUNT: usize = 8;\n        let prune_count = if color_count < MIN_LEAF_COUNT {\n            MIN_LEAF_COUNT\n        } else {\n            color_count\n        };\n"
                "        while prune_count < self.info.leaf_count {")]},
    {"id": "C13-benign-prune-bound-match-le", "prop": "C13", "benign": True,
     "edits": [(I, "        let prune_count = color_count.max(8);\n        while self.info.leaf_count > prune_count {\n            self.prune();\n        }\n",
                "        let prune_count = if color_count <= 8 { 8 } else { color_count };\n        loop {\n            if self.info.leaf_count <= prune_count {\n                break;\n            }\n            self.prune();\n        }\n")]},
    {"id": "C13-benign-exact-match-fast-path", "prop": "C13", "benign": True,
     "edits": [(I, "            let node_dist = dist(target, &node);\n            let (next, other)",
                "            let node_dist = dist(target, &node);\n            if node_dist == 0 {\n                return (node, node_dist);\n            }\n            let (next, other)")]},
    {"id": "C13-benign-hoisted-dims-debug-assert", "prop": "C13", "benign": True,
     "edits": [(I, "        let ewidth = self.width() + 2; // to avoid check for the first and the last pixels\n",
                "        let (height, width) = (self.height(), self.width());\n        let ewidth = width + 2;\n"),
               (I, "        for row in 0..self.height() {\n            if dither {", "        for row in 0..height {\n            if dither {"),
               (I, "            for col in 0..self.width() {\n                let pos = Position::new(row, col);", "            for col in 0..width {\n                let pos = Position::new(row, col);"),
               (I, "                qimg.set(pos, qindex);\n", "                debug_assert!(qindex < palette.size());\n                qimg.set(pos, qindex);\n"),
               (I, "        let mut nodes = Vec::new();\n        let mut colors: Vec<_> = colors.iter()", "        let mut nodes = Vec::with_capacity(colors.len());\n        let mut colors: Vec<_> = colors.iter()")]},
    {"id": "C13-benign-composite-helper", "prop": "C13", "benign": True,
     "edits": [(I, "        let bg = bg.unwrap_or_else(|| RGBA::new(0, 0, 0, 255));\n        let palette = ColorPalette::from_image(self, palette_size, bg)?;",
                "        fn composite(bg: RGBA, color: RGBA) -> RGBA {\n            if color.to_rgba()[3] < 255 {\n                bg.blend_over(color)\n            } else {\n                color\n            }\n        }\n"
                "        let bg = bg.unwrap_or_else(|| RGBA::new(0, 0, 0, 255));\n        let palette = ColorPalette::from_image(self, palette_size, bg)?;"),
               (I, BLEND_Q, "                color = composite(bg, color);\n")]},
    {"id": "C13-benign-spread-helper", "prop": "C13", "benign": True,
     "edits": [(I, "        let bg = bg.unwrap_or_else(|| RGBA::new(0, 0, 0, 255));\n        let palette = ColorPalette::from_image(self, palette_size, bg)?;",
                "        #[allow(clippy::ptr_arg)]\n        fn spread(errors: &mut Vec<ColorError>, col: usize, ewidth: usize, error: ColorError) {\n"
                "            errors[col + 2] += error * 0.4375; // 7/16\n            errors[col + ewidth] += error * 0.1875; // 3/16\n"
                "            errors[col + ewidth + 1] += error * 0.3125; // 5/16\n            errors[col + ewidth + 2] += error * 0.0625; // 1/16\n        }\n"
                "        let bg = bg.unwrap_or_else(|| RGBA::new(0, 0, 0, 255));\n        let palette = ColorPalette::from_image(self, palette_size, bg)?;"),
               (I, "                    errors[col + 2] += error * 0.4375; // 7/16\n                    errors[col + ewidth] += error * 0.1875; // 3/16\n"
                   "                    errors[col + ewidth + 1] += error * 0.3125; // 5/16\n                    errors[col + ewidth + 2] += error * 0.0625; // 1/16\n",
                "                    spread(&mut errors, col, ewidth, error);\n")]},
    {"id": "C13-benign-negated-dither-tests", "prop": "C13", "benign": True,
     "edits": [(I, "                if dither {\n                    color = errors[col + 1].add(color); // account for error\n                }\n",
                "                if !dither {\n                } else {\n                    color = errors[col + 1].add(color); // account for error\n                }\n"),
               (I, "        if dither {\n            errors.resize_with(ewidth * 2, ColorError::new);\n        }\n",
                "        match dither {\n            false => {}\n            true => errors.resize_with(ewidth * 2, ColorError::new),\n        }\n")]},
    {"id": "C13-benign-debug-asserts-in-kd", "prop": "C13", "benign": True,
     "edits": [(I, "            let node = nodes[index];\n            let node_dist = dist(target, &node);\n",
                "            debug_assert!(index < nodes.len());\n            let node = nodes[index];\n            debug_assert!(node.dim < 3 && node.left.is_none() | node.left.is_some());\n            let node_dist = dist(target, &node);\n"),
               (I, "            colors.sort_by_key(|(_, c)| c[dim]);\n", "            debug_assert!(!colors.is_empty() && dim < 3);\n            colors.sort_by_key(|(_, c)| c[dim]);\n"),
               (I, "            nodes.push(KDNode {\n                color,\n                color_index,\n                dim,\n                left,\n                right,\n            });\n            Some(nodes.len() - 1)",
                "            debug_assert!(nodes.len() < usize::MAX);\n            nodes.push(KDNode {\n                color,\n                color_index,\n                dim,\n                left,\n                right,\n            });\n"
                "            debug_assert!(!nodes.is_empty());\n            Some(nodes.len() - 1)")]},
    {"id": "C13-benign-palette-for-each", "prop": "C13", "benign": True,
     "edits": [(I, "                    for child in tree.children.iter_mut() {\n                        palette_rec(child, palette)\n                    }\n",
                "                    tree.children.iter_mut().for_each(|child| palette_rec(child, palette));\n"),
               (I, "        for child in self.children.iter_mut() {\n            palette_rec(child, &mut palette);\n        }\n",
                "        self.children\n            .iter_mut()\n            .for_each(|child| palette_rec(child, &mut palette));\n")]},
    {"id": "C13-benign-root-hoisted-arms-reordered", "prop": "C13", "benign": True,
     "edits": [(I, "        let node = find_rec(&self.nodes, self.nodes.len() - 1, color.to_rgb()).0;", "        let root = self.nodes.len() - 1;\n        let rgb = color.to_rgb();\n        let node = find_rec(&self.nodes, root, rgb).0;"),
               (I, "            match other {\n                None => (guess, guess_dist),\n                Some(other_index) => {\n                    let (other, other_dist) = find_rec(nodes, other_index, target);\n"
                   "                    if other_dist < guess_dist {\n                        (other, other_dist)\n                    } else {\n                        (guess, guess_dist)\n                    }\n                }\n            }",
                "            if let Some(other_index) = other {\n                let (other, other_dist) = find_rec(nodes, other_index, target);\n"
                "                if !(other_dist < guess_dist) {\n                    (guess, guess_dist)\n                } else {\n                    (other, other_dist)\n                }\n            } else {\n                (guess, guess_dist)\n            }")]},
    {"id": "C13-benign-dist-written-out", "prop": "C13", "benign": True,
     "edits": [(I, "        fn dist(rgb: [u8; 3], node: &KDNode) -> i32 {\n" + KD_DIST_OLD + "        }\n\n", ""),
               (I, "            let node_dist = dist(target, &node);\n",
                "            let node_dist = {\n                let [r0, g0, b0] = target;\n                let [r1, g1, b1] = node.color;\n"
                "                (r0 as i32 - r1 as i32).pow(2) + (g0 as i32 - g1 as i32).pow(2) + (b0 as i32 - b1 as i32).pow(2)\n            };\n")]},
    {"id": "C13-dist-written-out-drops-blue", "prop": "C13", "expect": "NEAREST-SHAPE/image::KDTree::find::find_rec",
     "edits": [(I, "        fn dist(rgb: [u8; 3], node: &KDNode) -> i32 {\n" + KD_DIST_OLD + "        }\n\n", ""),
               (I, "            let node_dist = dist(target, &node);\n",
                "            let node_dist = {\n                let [r0, g0, _] = target;\n                let [r1, g1, _] = node.color;\n"
                "                (r0 as i32 - r1 as i32).pow(2) + (g0 as i32 - g1 as i32).pow(2)\n            };\n")]},
    {"id": "C13-benign-leaf-node-helper", "prop": "C13", "benign": True,
     "edits": [(I, "        fn build_rec(\n", "        fn leaf_node(dim: usize, color_index: usize, color: [u8; 3]) -> KDNode {\n            KDNode {\n                color,\n                color_index,\n                dim,\n"
                   "                left: None,\n                right: None,\n            }\n        }\n\n        fn build_rec(\n"),
               (I, "                    nodes.push(KDNode {\n                        color: *color,\n                        color_index: *color_index,\n                        dim,\n                        left: None,\n                        right: None,\n                    });\n",
                "                    nodes.push(leaf_node(dim, *color_index, *color));\n")]},
    {"id": "C13-leaf-node-helper-swaps-index", "prop": "C13", "expect": "INDEX-VALID",
     "edits": [(I, "        fn build_rec(\n", "        fn leaf_node(dim: usize, color_index: usize, color: [u8; 3]) -> KDNode {\n            KDNode {\n                color,\n                color_index: color_index + dim,\n                dim,\n"
                   "                left: None,\n                right: None,\n            }\n        }\n\n        fn build_rec(\n"),
               (I, "                    nodes.push(KDNode {\n                        color: *color,\n                        color_index: *color_index,\n                        dim,\n                        left: None,\n                        right: None,\n                    });\n",
                "                    nodes.push(leaf_node(dim, *color_index, *color));\n")]},
    {"id": "C13-benign-dim-next-if", "prop": "C13", "benign": True,
     "edits": [(I, "let dim_next = (dim + 1) % 3;", "let dim_next = if dim == 2 { 0 } else { dim + 1 };")]},
    {"id": "C13-benign-shift-median-presized-errors", "prop": "C13", "benign": True,
     "edits": [(I, "            let index = colors.len() / 2;", "            let index = colors.len() >> 1;"),
               (I, "        let mut errors: Vec<ColorError> = Vec::new();\n        let ewidth = self.width() + 2; // to avoid check for the first and the last pixels\n",
                "        let ewidth = self.width() + 2; // to avoid check for the first and the last pixels\n        let mut errors: Vec<ColorError> = Vec::with_capacity(if dither { ewidth * 2 } else { 0 });\n")]},
    {"id": "C13-benign-best-pair-carried", "prop": "C13", "benign": True,
     "edits": [(I, "            let (guess, guess_dist) = match next {\n                None => (node, node_dist),\n                Some(next_index) => {\n                    let (guess, guess_dist) = find_rec(nodes, next_index, target);\n"
                   "                    if guess_dist >= node_dist {\n                        (node, node_dist)\n                    } else {\n                        (guess, guess_dist)\n                    }\n                }\n            };\n",
                "            let mut best = (node, node_dist);\n            if let Some(next_index) = next {\n                let near_best = find_rec(nodes, next_index, target);\n                if near_best.1 < node_dist {\n"
                "                    best = near_best;\n                }\n            }\n            let guess_dist = best.1;\n"),
               (I, "            if other_dist >= guess_dist {\n                return (guess, guess_dist);\n            }\n            match other {\n                None => (guess, guess_dist),\n                Some(other_index) => {\n"
                   "                    let (other, other_dist) = find_rec(nodes, other_index, target);\n                    if other_dist < guess_dist {\n                        (other, other_dist)\n                    } else {\n"
                   "                        (guess, guess_dist)\n                    }\n                }\n            }\n",
                "            if other_dist >= guess_dist {\n                return best;\n            }\n            let Some(other_index) = other else {\n                return best;\n            };\n"
                "            let far_best = find_rec(nodes, other_index, target);\n            if far_best.1 < best.1 {\n                far_best\n            } else {\n                best\n            }\n")]},
    {"id": "C13-benign-rows-swapped-as-slices", "prop": "C13", "benign": True,
     "edits": [(I, SWAP_OLD, "                let (current, next) = errors.split_at_mut(ewidth);\n                current.copy_from_slice(next);\n                next.fill(ColorError::new());\n"),
               (I, "errors[col + 2] += error * 0.4375; // 7/16", "errors[col + 2] += error * (7.0 / 16.0);"),
               (I, "let mut octree: OcTree = if sample < 2 {", "let mut octree: OcTree = if sample <= 1 {")]},
    {"id": "C13-benign-metric-zip-sum", "prop": "C13", "benign": True,
     "edits": [(I, KD_DIST_OLD, "            rgb.iter()\n                .zip(node.color.iter())\n                .map(|(c0, c1)| {\n                    let diff = i32::from(*c0) - i32::from(*c1);\n                    diff * diff\n                })\n                .sum()\n")]},
    # ---- breaking counterparts of the generalised rules ---------------------------------------------------------------------------------------
    {"id": "C13-fast-path-on-small-distance", "prop": "C13", "expect": "NEAREST-SHAPE/image::KDTree::find::find_rec",
     "edits": [(I, "            let node_dist = dist(target, &node);\n            let (next, other)",
                "            let node_dist = dist(target, &node);\n            if node_dist <= 3 {\n                return (node, node_dist);\n            }\n            let (next, other)")]},
    {"id": "C13-prune-bound-if-not-max", "prop": "C13", "expect": "PALETTE-BOUND/image::OcTree::prune_until/loop-cond",
     "edits": [(I, "        let prune_count = color_count.max(8);\n", "        let prune_count = if color_count < 8 { 16 } else { color_count };\n")]},
    {"id": "C13-prune-bound-constant", "prop": "C13", "expect": "PALETTE-BOUND/image::OcTree::prune_until/loop-cond",
     "edits": [(I, "        let prune_count = color_count.max(8);\n", "        let prune_count = if color_count > 300 { 256 } else { color_count.max(8) };\n")]},
    {"id": "C13-plane-helper-wrong-dim", "prop": "C13", "expect": "NEAREST-SHAPE/image::KDTree::find::find_rec/plane-dim",
     "edits": [(I, "        fn find_rec(nodes: &[KDNode], index: usize, target: [u8; 3]) -> (KDNode, i32) {\n",
                "        fn plane_dist(target: [u8; 3], node: &KDNode) -> i32 {\n            (target[0] as i32 - node.color[0] as i32).pow(2)\n        }\n\n"
                "        fn find_rec(nodes: &[KDNode], index: usize, target: [u8; 3]) -> (KDNode, i32) {\n"),
               (I, "            let other_dist = (target[node.dim] as i32 - node.color[node.dim] as i32).pow(2);\n            if other_dist >= guess_dist {",
                "            if plane_dist(target, &node) >= guess_dist {")]},
    {"id": "C13-spread-helper-index-plus-three", "prop": "C13", "expect": "TOTAL/image::Image::quantize::spread/BOUNDSCALL",
     "edits": [(I, "        let bg = bg.unwrap_or_else(|| RGBA::new(0, 0, 0, 255));\n        let palette = ColorPalette::from_image(self, palette_size, bg)?;",
                "        #[allow(clippy::ptr_arg)]\n        fn spread(errors: &mut Vec<ColorError>, col: usize, ewidth: usize, error: ColorError) {\n"
                "            errors[col + 2] += error * 0.4375; // 7/16\n            errors[col + ewidth] += error * 0.1875; // 3/16\n"
                "            errors[col + ewidth + 1] += error * 0.3125; // 5/16\n            errors[col + ewidth + 3] += error * 0.0625; // 1/16\n        }\n"
                "        let bg = bg.unwrap_or_else(|| RGBA::new(0, 0, 0, 255));\n        let palette = ColorPalette::from_image(self, palette_size, bg)?;"),
               (I, "                    errors[col + 2] += error * 0.4375; // 7/16\n                    errors[col + ewidth] += error * 0.1875; // 3/16\n"
                   "                    errors[col + ewidth + 1] += error * 0.3125; // 5/16\n                    errors[col + ewidth + 2] += error * 0.0625; // 1/16\n",
                "                    spread(&mut errors, col, ewidth, error);\n")]},
    {"id": "C13-leaf-index-before-any-push", "prop": "C13", "expect": "len-after-push",
     "edits": [(I, "                    nodes.push(KDNode {\n                        color: *color,\n                        color_index: *color_index,\n                        dim,\n                        left: None,\n                        right: None,\n                    });\n"
                   "                    return Some(nodes.len() - 1);",
                "                    let at = nodes.len() - 1;\n                    nodes.push(KDNode {\n                        color: *color,\n                        color_index: *color_index,\n                        dim,\n                        left: None,\n                        right: None,\n                    });\n"
                "                    return Some(at + 1);")]},
    {"id": "C13-palette-for-each-skips-first", "prop": "C13", "expect": "PALETTE-BOUND",
     "edits": [(I, "        for child in self.children.iter_mut() {\n            palette_rec(child, &mut palette);\n        }\n",
                "        self.children\n            .iter_mut()\n            .skip(1)\n            .for_each(|child| palette_rec(child, &mut palette));\n")]},
    {"id": "C13-dim-next-if-wraps-late", "prop": "C13", "expect": "KD-INV",
     "edits": [(I, "let dim_next = (dim + 1) % 3;", "let dim_next = if dim == 3 { 0 } else { dim + 1 };")]},
    {"id": "C13-rows-split-off-by-one", "prop": "C13", "expect": "TOTAL/image::Image::quantize/LIBPRE",
     "edits": [(I, SWAP_OLD, "                let (current, next) = errors.split_at_mut(ewidth + 1);\n                current[..ewidth - 1].copy_from_slice(next);\n                next.fill(ColorError::new());\n")]},
    {"id": "C13-metric-zip-sum-two-channels", "prop": "C13", "expect": "NEAREST-SHAPE/image::KDTree::find::dist/metric",
     "edits": [(I, KD_DIST_OLD, "            rgb.iter()\n                .zip(node.color.iter())\n                .take(2)\n                .map(|(c0, c1)| {\n                    let diff = i32::from(*c0) - i32::from(*c1);\n                    diff * diff\n                })\n                .sum()\n")]},
    {"id": "C13-metric-zip-sum-unsigned", "prop": "C13", "expect": "C13/",
     "edits": [(I, KD_DIST_OLD, "            rgb.iter()\n                .zip(node.color.iter())\n                .map(|(c0, c1)| {\n                    let diff = (*c0 - *c1) as i32;\n                    diff * diff\n                })\n                .sum()\n")]},
    # ---- refactoring shapes of seeded/benign/C13-G..I (and their breaking counterparts) --------------------------------------------------------
    {"id": "C13-benign-near-branch-combinators", "prop": "C13", "benign": True,
     "edits": [(I, NEAR_OLD, "            let (guess, guess_dist) = next\n                .map(|next_index| find_rec(nodes, next_index, target))\n"
                             "                .filter(|(_, guess_dist)| *guess_dist < node_dist)\n                .unwrap_or((node, node_dist));\n"),
               (I, "            let other_dist = (target[node.dim] as i32 - node.color[node.dim] as i32).pow(2);\n            if other_dist >= guess_dist {",
                "            let plane_delta = i32::from(target[node.dim]) - i32::from(node.color[node.dim]);\n            if plane_delta * plane_delta >= guess_dist {")]},
    {"id": "C13-benign-far-branch-map-or", "prop": "C13", "benign": True,
     "edits": [(I, FAR_OLD, "            other.map_or((guess, guess_dist), |other_index| {\n                let (other, other_dist) = find_rec(nodes, other_index, target);\n"
                            "                if other_dist < guess_dist {\n                    (other, other_dist)\n                } else {\n                    (guess, guess_dist)\n                }\n            })\n")]},
    {"id": "C13-benign-near-branch-and-then-then-some", "prop": "C13", "benign": True,
     "edits": [(I, NEAR_OLD, "            let (guess, guess_dist) = next\n                .and_then(|next_index| {\n                    let found = find_rec(nodes, next_index, target);\n"
                             "                    (found.1 < node_dist).then_some(found)\n                })\n                .unwrap_or_else(|| (node, node_dist));\n")]},
    {"id": "C13-near-branch-filter-inverted", "prop": "C13", "expect": "NEAREST-SHAPE/image::KDTree::find::find_rec/best-update",
     "edits": [(I, NEAR_OLD, "            let (guess, guess_dist) = next\n                .map(|next_index| find_rec(nodes, next_index, target))\n"
                             "                .filter(|(_, guess_dist)| *guess_dist > node_dist)\n                .unwrap_or((node, node_dist));\n")]},
    {"id": "C13-near-branch-node-not-compared", "prop": "C13", "expect": "NEAREST-SHAPE/image::KDTree::find::find_rec/best-update",
     "edits": [(I, NEAR_OLD, "            let (guess, guess_dist) = next\n                .map(|next_index| find_rec(nodes, next_index, target))\n                .unwrap_or((node, node_dist));\n")]},
    {"id": "C13-near-branch-combinator-wrong-child", "prop": "C13", "expect": "NEAREST-SHAPE/image::KDTree::find::find_rec/",
     "edits": [(I, NEAR_OLD, "            let (guess, guess_dist) = next\n                .map(|next_index| find_rec(nodes, next_index.saturating_sub(1), target))\n"
                             "                .filter(|(_, guess_dist)| *guess_dist < node_dist)\n                .unwrap_or((node, node_dist));\n")]},
    {"id": "C13-benign-blend-hoisted-and-shared", "prop": "C13", "benign": True,
     "edits": [(I, BLEND_FN_OLD, ""), (I, "img.iter().map(|c| blend(bg, *c)).collect()", "img.iter().map(|c| blend_with_background(bg, *c)).collect()"),
               (I, "octree.insert(blend(bg, color));", "octree.insert(blend_with_background(bg, color));"),
               (I, "                let mut color = *self.get(pos)?;\n" + BLEND_Q, "                let mut color = blend_with_background(bg, *self.get(pos)?);\n"),
               (I, "impl ColorError {\n    fn new() -> Self {", "fn blend_with_background(bg: RGBA, color: RGBA) -> RGBA {\n    if color.to_rgba()[3] < 255 {\n        bg.blend_over(color)\n    } else {\n        color\n    }\n}\n\n"
                   "impl ColorError {\n    fn new() -> Self {")]},
    {"id": "C13-hoisted-blend-threshold-128", "prop": "C13", "expect": "BLEND-AGREE",
     "edits": [(I, BLEND_FN_OLD, ""), (I, "img.iter().map(|c| blend(bg, *c)).collect()", "img.iter().map(|c| blend_with_background(bg, *c)).collect()"),
               (I, "octree.insert(blend(bg, color));", "octree.insert(blend_with_background(bg, color));"),
               (I, "                let mut color = *self.get(pos)?;\n" + BLEND_Q, "                let mut color = blend_with_background(bg, *self.get(pos)?);\n"),
               (I, "impl ColorError {\n    fn new() -> Self {", "fn blend_with_background(bg: RGBA, color: RGBA) -> RGBA {\n    if color.to_rgba()[3] < 128 {\n        bg.blend_over(color)\n    } else {\n        color\n    }\n}\n\n"
                   "impl ColorError {\n    fn new() -> Self {")]},
    {"id": "C13-hoisted-blend-arguments-swapped-in-quantize", "prop": "C13", "expect": "BLEND-AGREE/image::Image::quantize/quantize-site",
     "edits": [(I, BLEND_FN_OLD, ""), (I, "img.iter().map(|c| blend(bg, *c)).collect()", "img.iter().map(|c| blend_with_background(bg, *c)).collect()"),
               (I, "octree.insert(blend(bg, color));", "octree.insert(blend_with_background(bg, color));"),
               (I, "                let mut color = *self.get(pos)?;\n" + BLEND_Q, "                let mut color = blend_with_background(*self.get(pos)?, bg);\n"),
               (I, "impl ColorError {\n    fn new() -> Self {", "fn blend_with_background(bg: RGBA, color: RGBA) -> RGBA {\n    if color.to_rgba()[3] < 255 {\n        bg.blend_over(color)\n    } else {\n        color\n    }\n}\n\n"
                   "impl ColorError {\n    fn new() -> Self {")]},
    {"id": "C13-benign-spread-method-over-slice", "prop": "C13", "benign": True,
     "edits": [(I, SPREAD_OLD, "                    error.spread(&mut errors, col, ewidth);\n"),
               (I, "impl ColorError {\n    fn new() -> Self {", "impl ColorError {\n    fn spread(self, errors: &mut [ColorError], col: usize, stride: usize) {\n        errors[col + 2] += self * 0.4375;\n"
                   "        errors[col + stride] += self * 0.1875;\n        errors[col + stride + 1] += self * 0.3125;\n        errors[col + stride + 2] += self * 0.0625;\n    }\n\n    fn new() -> Self {")]},
    {"id": "C13-spread-method-over-slice-plus-three", "prop": "C13", "expect": "TOTAL/image::ColorError::spread/BOUNDS",
     "edits": [(I, SPREAD_OLD, "                    error.spread(&mut errors, col, ewidth);\n"),
               (I, "impl ColorError {\n    fn new() -> Self {", "impl ColorError {\n    fn spread(self, errors: &mut [ColorError], col: usize, stride: usize) {\n        errors[col + 2] += self * 0.4375;\n"
                   "        errors[col + stride] += self * 0.1875;\n        errors[col + stride + 1] += self * 0.3125;\n        errors[col + stride + 3] += self * 0.0625;\n    }\n\n    fn new() -> Self {")]},
    {"id": "C13-benign-rows-copy-within-fill", "prop": "C13", "benign": True,
     "edits": [(I, SWAP_OLD, "                debug_assert_eq!(errors.len(), ewidth * 2);\n                errors.copy_within(ewidth.., 0);\n                errors[ewidth..].fill(ColorError::new());\n")]},
    {"id": "C13-benign-rows-copy-within-bounded-range", "prop": "C13", "benign": True,
     "edits": [(I, SWAP_OLD, "                let filled = errors.len();\n                debug_assert!(filled >= ewidth);\n                errors.copy_within(ewidth.., 0);\n                errors[ewidth..].fill_with(ColorError::new);\n")]},
    {"id": "C13-rows-copy-within-past-the-end", "prop": "C13", "expect": "TOTAL/image::Image::quantize/LIBPRE",
     "edits": [(I, SWAP_OLD, "                errors.copy_within(..ewidth, ewidth + 1);\n                errors[ewidth..].fill(ColorError::new());\n")]},
    {"id": "C13-rows-fill-range-past-the-end", "prop": "C13", "expect": "TOTAL/image::Image::quantize/RANGEIDX",
     "edits": [(I, SWAP_OLD, "                errors.copy_within(ewidth.., 0);\n                errors[ewidth * 2 + 1..].fill(ColorError::new());\n")]},
    {"id": "C13-rows-truncated-before-use", "prop": "C13", "expect": "ERR-ROWS",
     "edits": [(I, SWAP_OLD, "                errors.copy_within(ewidth.., 0);\n                errors.truncate(ewidth);\n                errors.resize_with(ewidth * 2 - 1, ColorError::new);\n")]},
    # ---- refactoring shapes of seeded/benign/C12-J, C12-K, C13-J, C13-L (and their breaking counterparts) ----------------------------------------
    {"id": "C13-benign-path-next-checked-sub", "prop": "C13", "benign": True,
     "edits": [(I, "        if self.length == 0 {\n            return None;\n        }\n        self.length -= 1;\n", "        self.length = self.length.checked_sub(1)?;\n")]},
    {"id": "C13-benign-path-next-let-else", "prop": "C13", "benign": True,
     "edits": [(I, "        if self.length == 0 {\n            return None;\n        }\n        self.length -= 1;\n",
                "        let Some(rest) = self.length.checked_sub(1) else {\n            return None;\n        };\n        self.length = rest;\n")]},
    {"id": "C13-benign-path-next-lt-one", "prop": "C13", "benign": True,
     "edits": [(I, "        if self.length == 0 {\n            return None;\n        }\n        self.length -= 1;\n", "        if self.length < 1 {\n            return None;\n        }\n        self.length -= 1;\n")]},
    {"id": "C13-path-next-checked-sub-two", "prop": "C13", "expect": "OCTREE-INV",
     "edits": [(I, "        if self.length == 0 {\n            return None;\n        }\n        self.length -= 1;\n", "        self.length = self.length.checked_sub(2)?;\n")]},
    {"id": "C13-benign-collect-leafs-tree-visitor", "prop": "C13", "benign": True,
     "edits": [(I, PALETTE_REC_OLD, "        fn collect_leafs(tree: &mut OcTree, palette: &mut Vec<RGBA>) {\n            use OcTreeNode::*;\n            for child in tree.children.iter_mut() {\n                match child {\n"
                   "                    Tree(subtree) => collect_leafs(subtree, palette),\n                    Leaf(leaf) => {\n                        leaf.index = palette.len();\n                        palette.push(leaf.to_rgba());\n"
                   "                    }\n                    Empty => {}\n                }\n            }\n        }\n\n        let mut palette = Vec::new();\n        collect_leafs(self, &mut palette);\n")]},
    {"id": "C13-collect-leafs-skips-subtrees", "prop": "C13", "expect": "PALETTE-BOUND",
     "edits": [(I, PALETTE_REC_OLD, "        fn collect_leafs(tree: &mut OcTree, palette: &mut Vec<RGBA>) {\n            use OcTreeNode::*;\n            for child in tree.children.iter_mut() {\n                match child {\n"
                   "                    Leaf(leaf) => {\n                        leaf.index = palette.len();\n                        palette.push(leaf.to_rgba());\n"
                   "                    }\n                    _ => {}\n                }\n            }\n        }\n\n        let mut palette = Vec::new();\n        collect_leafs(self, &mut palette);\n")]},
    {"id": "C13-collect-leafs-revisits-same-tree", "prop": "C13", "expect": "PALETTE-BOUND",
     "edits": [(I, PALETTE_REC_OLD, "        fn collect_leafs(tree: &mut OcTree, palette: &mut Vec<RGBA>) {\n            use OcTreeNode::*;\n            for child in tree.children.iter_mut().take(7) {\n                match child {\n"
                   "                    Tree(subtree) => collect_leafs(subtree, palette),\n                    Leaf(leaf) => {\n                        leaf.index = palette.len();\n                        palette.push(leaf.to_rgba());\n"
                   "                    }\n                    Empty => {}\n                }\n            }\n        }\n\n        let mut palette = Vec::new();\n        collect_leafs(self, &mut palette);\n")]},
    {"id": "C13-collect-leafs-fresh-palette-per-subtree", "prop": "C13", "expect": "PALETTE-BOUND",
     "edits": [(I, PALETTE_REC_OLD, "        fn collect_leafs(tree: &mut OcTree, palette: &mut Vec<RGBA>) {\n            use OcTreeNode::*;\n            for child in tree.children.iter_mut() {\n                match child {\n"
                   "                    Tree(subtree) => collect_leafs(subtree, &mut Vec::new()),\n                    Leaf(leaf) => {\n                        leaf.index = palette.len();\n                        palette.push(leaf.to_rgba());\n"
                   "                    }\n                    Empty => {}\n                }\n            }\n        }\n\n        let mut palette = Vec::new();\n        collect_leafs(self, &mut palette);\n")]},
    {"id": "C13-benign-palette-rec-renamed-arms-reordered", "prop": "C13", "benign": True,
     "edits": [(I, PALETTE_REC_OLD, "        fn emit(node: &mut OcTreeNode, out: &mut Vec<RGBA>) {\n            match node {\n                OcTreeNode::Tree(tree) => {\n                    for child in tree.children.iter_mut() {\n"
                   "                        emit(child, out)\n                    }\n                }\n                OcTreeNode::Leaf(leaf) => {\n                    leaf.index = out.len();\n                    out.push(leaf.to_rgba());\n"
                   "                }\n                OcTreeNode::Empty => {}\n            }\n        }\n\n        let mut palette = Vec::with_capacity(self.info.leaf_count);\n        for child in self.children.iter_mut() {\n            emit(child, &mut palette);\n        }\n")]},
    {"id": "C13-palette-cleared-between-children", "prop": "C13", "expect": "PALETTE-BOUND",
     "edits": [(I, "        for child in self.children.iter_mut() {\n            palette_rec(child, &mut palette);\n        }\n",
                "        for child in self.children.iter_mut() {\n            palette.truncate(255);\n            palette_rec(child, &mut palette);\n        }\n")]},
    {"id": "C13-benign-blend-match-alpha-255", "prop": "C13", "benign": True,
     "edits": [(I, BLEND_FN_OLD, "        fn blend(bg: RGBA, color: RGBA) -> RGBA {\n            match color.to_rgba() {\n                [_, _, _, 255] => color,\n                _ => bg.blend_over(color),\n            }\n        }\n\n")]},
    {"id": "C13-benign-blend-quantize-ne-255", "prop": "C13", "benign": True,
     "edits": [(I, BLEND_Q, "                if color.to_rgba()[3] != u8::MAX {\n                    color = bg.blend_over(color);\n                }\n")]},
    {"id": "C13-blend-match-alpha-zero", "prop": "C13", "expect": "BLEND-AGREE",
     "edits": [(I, BLEND_FN_OLD, "        fn blend(bg: RGBA, color: RGBA) -> RGBA {\n            match color.to_rgba() {\n                [_, _, _, 0] => color,\n                _ => bg.blend_over(color),\n            }\n        }\n\n")]},
    {"id": "C13-blend-match-arms-swapped", "prop": "C13", "expect": "BLEND-AGREE",
     "edits": [(I, BLEND_FN_OLD, "        fn blend(bg: RGBA, color: RGBA) -> RGBA {\n            match color.to_rgba() {\n                [_, _, _, 255] => bg.blend_over(color),\n                _ => color,\n            }\n        }\n\n")]},
    {"id": "C13-benign-error-rows-vec-macro-if-else", "prop": "C13", "benign": True,
     "edits": [(I, ERRORS_OLD, "        let ewidth = self.width() + 2;\n        let mut errors: Vec<ColorError> = if dither {\n            vec![ColorError::new(); ewidth * 2]\n        } else {\n            Vec::new()\n        };\n")]},
    {"id": "C13-benign-error-rows-match-dither", "prop": "C13", "benign": True,
     "edits": [(I, ERRORS_OLD, "        let ewidth = self.width() + 2;\n        let mut errors: Vec<ColorError> = match dither {\n            false => Vec::new(),\n            true => vec![ColorError::new(); 2 * ewidth],\n        };\n")]},
    {"id": "C13-error-rows-vec-macro-one-row", "prop": "C13", "expect": "ERR-ROWS",
     "edits": [(I, ERRORS_OLD, "        let ewidth = self.width() + 2;\n        let mut errors: Vec<ColorError> = if dither {\n            vec![ColorError::new(); ewidth]\n        } else {\n            Vec::new()\n        };\n")]},
    {"id": "C13-error-rows-vec-macro-under-not-dither", "prop": "C13", "expect": "C13/",
     "edits": [(I, ERRORS_OLD, "        let ewidth = self.width() + 2;\n        let mut errors: Vec<ColorError> = if !dither {\n            vec![ColorError::new(); ewidth * 2]\n        } else {\n            Vec::new()\n        };\n")]},
    {"id": "C13-error-rows-emptied-after-sizing", "prop": "C13", "expect": "C13/",
     "edits": [(I, ERRORS_OLD, "        let ewidth = self.width() + 2;\n        let mut errors: Vec<ColorError> = if dither {\n            vec![ColorError::new(); ewidth * 2]\n        } else {\n            Vec::new()\n        };\n"
                   "        if palette_size > 4096 {\n            errors = Vec::new();\n        }\n")]},
    {"id": "C13-benign-from-image-subsample-helper", "prop": "C13", "benign": True,
     "edits": [(I, SUBSAMPLE_OLD, "            Self::octree_subsampled(&img, sample, bg)\n"),
               (I, "    // Number of color in the palette\n", "    fn octree_subsampled(img: &impl Surface<Item = RGBA>, stride: u32, bg: RGBA) -> OcTree {\n        let mut octree = OcTree::new();\n        let mut rnd = Rnd::new();\n"
                   "        let mut pixels = img.iter().copied();\n        while let Some(pixel) = pixels.nth((rnd.next_u32() % stride) as usize) {\n            octree.insert(flatten_over(bg, pixel));\n        }\n        octree\n    }\n\n"
                   "    // Number of color in the palette\n"),
               (I, BLEND_FN_OLD, ""),
               (I, "img.iter().map(|c| blend(bg, *c)).collect()", "img.iter().map(|c| flatten_over(bg, *c)).collect()"),
               (I, "/// Color palette which implements fast NNS with euclidean distance.\n", "fn flatten_over(bg: RGBA, color: RGBA) -> RGBA {\n    if color.to_rgba()[3] < 255 {\n        bg.blend_over(color)\n    } else {\n        color\n    }\n}\n\n"
                   "/// Color palette which implements fast NNS with euclidean distance.\n")]},
    {"id": "C13-from-image-subsample-helper-result-dropped", "prop": "C13", "expect": "PALETTE-BOUND",
     "edits": [(I, SUBSAMPLE_OLD, "            let _ = Self::octree_subsampled(&img, sample, bg);\n            OcTree::new()\n"),
               (I, "    // Number of color in the palette\n", "    fn octree_subsampled(img: &impl Surface<Item = RGBA>, stride: u32, bg: RGBA) -> OcTree {\n        let mut octree = OcTree::new();\n        let mut rnd = Rnd::new();\n"
                   "        let mut pixels = img.iter().copied();\n        while let Some(pixel) = pixels.nth((rnd.next_u32() % stride) as usize) {\n            octree.insert(flatten_over(bg, pixel));\n        }\n        octree\n    }\n\n"
                   "    // Number of color in the palette\n"),
               (I, BLEND_FN_OLD, ""),
               (I, "img.iter().map(|c| blend(bg, *c)).collect()", "img.iter().map(|c| flatten_over(bg, *c)).collect()"),
               (I, "/// Color palette which implements fast NNS with euclidean distance.\n", "fn flatten_over(bg: RGBA, color: RGBA) -> RGBA {\n    if color.to_rgba()[3] < 255 {\n        bg.blend_over(color)\n    } else {\n        color\n    }\n}\n\n"
                   "/// Color palette which implements fast NNS with euclidean distance.\n")]},
    # ---- robustness round L2: default background as a match / if-let / map_or, argmin as a loop, 3-bit mask distributed, find's pair rebuilt ----------------
    {"id": "C13-benign-default-bg-match-const", "prop": "C13", "benign": True,
     "edits": [(I, "let bg = bg.unwrap_or_else(|| RGBA::new(0, 0, 0, 255));",
                "const OPAQUE: u8 = 255;\n        let bg = match bg {\n            Some(bg) => bg,\n            None => RGBA::new(0, 0, 0, OPAQUE),\n        };")]},
    {"id": "C13-benign-default-bg-if-let", "prop": "C13", "benign": True,
     "edits": [(I, "let bg = bg.unwrap_or_else(|| RGBA::new(0, 0, 0, 255));",
                "let bg = if let Some(given) = bg { given } else { RGBA::new(0, 0, 0, u8::MAX) };")]},
    {"id": "C13-benign-default-bg-map-or", "prop": "C13", "benign": True,
     "edits": [(I, "let bg = bg.unwrap_or_else(|| RGBA::new(0, 0, 0, 255));", "let bg = bg.map_or(RGBA::new(0, 0, 0, 255), |given| given);")]},
    {"id": "C13-default-bg-match-white", "prop": "C13", "expect": "BLEND-AGREE/image::Image::quantize/default-bg",
     "edits": [(I, "let bg = bg.unwrap_or_else(|| RGBA::new(0, 0, 0, 255));",
                "let bg = match bg {\n            Some(bg) => bg,\n            None => RGBA::new(255, 255, 255, 255),\n        };")]},
    {"id": "C13-default-bg-match-ignores-given", "prop": "C13", "expect": "BLEND-AGREE/image::Image::quantize/default-bg",
     "edits": [(I, "let bg = bg.unwrap_or_else(|| RGBA::new(0, 0, 0, 255));",
                "let bg = match bg {\n            Some(_) => RGBA::new(0, 0, 0, 255),\n            None => RGBA::new(0, 0, 0, 255),\n        };")]},
    {"id": "C13-default-bg-match-transparent", "prop": "C13", "expect": "BLEND-AGREE/image::Image::quantize/default-bg",
     "edits": [(I, "let bg = bg.unwrap_or_else(|| RGBA::new(0, 0, 0, 255));",
                "let bg = match bg {\n            Some(bg) => bg,\n            None => RGBA::new(0, 0, 0, 0),\n        };")]},
    {"id": "C13-benign-argmin-loop", "prop": "C13", "benign": True,
     "edits": [(I, ARGMIN_OLD,
                "            let mut best: Option<(usize, usize)> = None;\n            for (index, node) in tree.children.iter().enumerate() {\n"
                "                let Some(min_tail_tree) = node.info().min_color_count else {\n                    continue;\n                };\n"
                "                match best {\n                    Some((_, best_count)) if best_count <= min_tail_tree => {}\n"
                "                    _ => best = Some((index, min_tail_tree)),\n                }\n            }\n            best.map(|(index, _)| index)\n")]},
    {"id": "C13-benign-argmin-loop-index-only", "prop": "C13", "benign": True,
     "edits": [(I, ARGMIN_OLD,
                "            let mut best_index = None;\n            let mut best_count = usize::MAX;\n            for (index, node) in tree.children.iter().enumerate() {\n"
                "                if let Some(count) = node.info().min_color_count {\n                    if best_index.is_none() || count < best_count {\n"
                "                        best_index = Some(index);\n                        best_count = count;\n                    }\n                }\n            }\n            best_index\n")]},
    {"id": "C13-argmin-loop-counts-empty-children", "prop": "C13", "expect": "OCTREE-INV",
     "edits": [(I, ARGMIN_OLD,
                "            let mut best: Option<(usize, usize)> = None;\n            for (index, node) in tree.children.iter().enumerate() {\n"
                "                let min_tail_tree = node.info().min_color_count.unwrap_or(0);\n"
                "                match best {\n                    Some((_, best_count)) if best_count <= min_tail_tree => {}\n"
                "                    _ => best = Some((index, min_tail_tree)),\n                }\n            }\n            best.map(|(index, _)| index)\n")]},
    {"id": "C13-argmin-loop-returns-count", "prop": "C13", "expect": "OCTREE-INV",
     "edits": [(I, ARGMIN_OLD,
                "            let mut best: Option<(usize, usize)> = None;\n            for (index, node) in tree.children.iter().enumerate() {\n"
                "                let Some(min_tail_tree) = node.info().min_color_count else {\n                    continue;\n                };\n"
                "                match best {\n                    Some((_, best_count)) if best_count <= min_tail_tree => {}\n"
                "                    _ => best = Some((index, min_tail_tree)),\n                }\n            }\n            best.map(|(_, count)| count)\n")]},
    {"id": "C13-argmin-chain-returns-count", "prop": "C13", "expect": "OCTREE-INV",
     "edits": [(I, "                .map(|(index, _)| index)\n        }\n\n        // recursive prune helper", "                .map(|(_, count)| count)\n        }\n\n        // recursive prune helper")]},
    {"id": "C13-benign-octree-index-mask-distributed", "prop": "C13", "benign": True,
     "edits": [(I, "let value = ((bits >> 21) | (bits >> 14) | (bits >> 7)) & 0b111;", "let value = ((bits >> 21) & 0b100) | ((bits >> 14) & 0b010) | ((bits >> 7) & 0b001);")]},
    {"id": "C13-benign-octree-index-rem-eight", "prop": "C13", "benign": True,
     "edits": [(I, "let value = ((bits >> 21) | (bits >> 14) | (bits >> 7)) & 0b111;", "let value = ((bits >> 21) | (bits >> 14) | (bits >> 7)) % 8;")]},
    {"id": "C13-octree-index-mask-distributed-wide", "prop": "C13", "expect": "OCTREE-INV",
     "edits": [(I, "let value = ((bits >> 21) | (bits >> 14) | (bits >> 7)) & 0b111;", "let value = ((bits >> 21) & 0b100) | ((bits >> 14) & 0b1010) | ((bits >> 7) & 0b001);")]},
    {"id": "C13-benign-palette-find-debug-assert", "prop": "C13", "benign": True,
     "edits": [(I, "        self.kdtree.find(color)\n    }\n", "        let (index, found) = self.kdtree.find(color);\n        debug_assert!(index < self.colors.len());\n        (index, found)\n    }\n")]},
    {"id": "C13-palette-find-pair-shifted", "prop": "C13", "expect": "INDEX-VALID/image::ColorPalette::find/delegate",
     "edits": [(I, "        self.kdtree.find(color)\n    }\n", "        let (index, found) = self.kdtree.find(color);\n        (index + 1, found)\n    }\n")]},
]

# ---- refactoring shapes of seeded/benign/C12-Q, C13-P (and their breaking counterparts) -------------------------------------------------------
PAL_NEW_OLD = ("        if colors.is_empty() {\n            None\n        } else {\n            let kdtree = KDTree::new(&colors);\n"
               "            Some(Self { colors, kdtree })\n        }\n")
_OPAQUE = lambda test: "        fn is_opaque(color: RGBA) -> bool {\n            " + test + "\n        }\n\n"
_FLATTEN = ("        fn blend(bg: RGBA, color: RGBA) -> RGBA {\n            if is_opaque(color) {\n                return color;\n            }\n"
            "            bg.blend_over(color)\n        }\n\n")

MUTANTS += [
    {"id": "C13-benign-palette-new-bool-then", "prop": "C13", "benign": True,
     "edits": [(I, PAL_NEW_OLD, "        (!colors.is_empty()).then(|| {\n            let kdtree = KDTree::new(&colors);\n            Self { colors, kdtree }\n        })\n")]},
    {"id": "C13-benign-palette-new-early-return", "prop": "C13", "benign": True,
     "edits": [(I, PAL_NEW_OLD, "        if colors.is_empty() {\n            return None;\n        }\n        let kdtree = KDTree::new(&colors);\n        Some(Self { colors, kdtree })\n")]},
    {"id": "C13-palette-new-then-not-guarded-by-emptiness", "prop": "C13", "expect": "palette-new",
     "edits": [(I, PAL_NEW_OLD, "        (colors.capacity() > 0).then(|| {\n            let kdtree = KDTree::new(&colors);\n            Self { colors, kdtree }\n        })\n")]},
    {"id": "C13-benign-blend-fn-opaque-helper-early-return", "prop": "C13", "benign": True,
     "edits": [(I, BLEND_FN_OLD, _OPAQUE("color.to_rgba()[3] >= 255") + _FLATTEN)]},
    {"id": "C13-benign-blend-fn-opaque-helper-eq-max", "prop": "C13", "benign": True,
     "edits": [(I, BLEND_FN_OLD, _OPAQUE("color.to_rgba()[3] == u8::MAX") + _FLATTEN)]},
    {"id": "C13-benign-blend-fn-match-alpha", "prop": "C13", "benign": True,
     "edits": [(I, BLEND_FN_OLD, "        fn blend(bg: RGBA, color: RGBA) -> RGBA {\n            match color.to_rgba()[3] {\n                u8::MAX => color,\n"
                                 "                _ => bg.blend_over(color),\n            }\n        }\n\n")]},
    {"id": "C13-blend-fn-opaque-helper-threshold-254", "prop": "C13", "expect": "BLEND-AGREE",
     "edits": [(I, BLEND_FN_OLD, _OPAQUE("color.to_rgba()[3] >= 254") + _FLATTEN)]},
    {"id": "C13-blend-fn-opaque-helper-tests-red", "prop": "C13", "expect": "BLEND-AGREE",
     "edits": [(I, BLEND_FN_OLD, _OPAQUE("color.to_rgba()[0] >= 255") + _FLATTEN)]},
]
