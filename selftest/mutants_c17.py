"""C17 — behaviour-preserving refactorings that must stay silent (handlers extracted into private helpers, equivalent spellings of
the `read != 0` test, reordered match arms, restore helper) and the breaking counterparts of the spellings that were made acceptable."""

U = "src/unix.rs"

DROP_IMPL = "impl std::ops::Drop for UnixTerminal {\n"
WAKER_MATCH = """            match rustix::io::write(&waker_write, WAKE) {
                Ok(_) | Err(rustix::io::Errno::INTR | rustix::io::Errno::AGAIN) => Ok(()),
                Err(error) => Err(error.into()),
            }
"""
WAKER_CLOSURE = """        let waker = TerminalWaker::new(move || {
            const WAKE: &[u8] = b"\\x00";
            // use write syscall instead of locking so it would be safe to use in a signal handler
""" + WAKER_MATCH + """        });
"""
WAKER_HELPER = """fn waker_notify(waker_write: &UnixStream) -> Result<(), Error> {
    const WAKE: &[u8] = b"\\x00";
    match rustix::io::write(waker_write, WAKE) {
        Ok(_) | Err(rustix::io::Errno::INTR | rustix::io::Errno::AGAIN) => Ok(()),
        Err(error) => Err(error.into()),
    }
}

"""
WAKER_IF = "                if guard_io(self.waker_read.read(&mut buf), 0)? != 0 {\n"
WAKER_BLOCK = """                let mut buf = [0u8; 1024];
                if guard_io(self.waker_read.read(&mut buf), 0)? != 0 {
                    self.events_queue.push_back(TerminalEvent::Wake);
                }
"""
SIGNAL_BLOCK = """                for signal in self.signal_delivery.pending() {
                    match signal {
                        SIGWINCH => {
                            if self.size.is_none() {
                                self.events_queue
                                    .push_back(TerminalEvent::Resize(self.size()?));
                            } else {
                                self.write_all(GET_TERM_SIZE)?;
                            }
                        }
                        SIGTERM | SIGINT | SIGQUIT => {
                            return Err(Error::Quit);
                        }
                        _ => {}
                    }
                }
"""
RESTORE = """        rustix::termios::tcsetattr(
            &self.tty,
            rustix::termios::OptionalActions::Flush,
            &self.termios_saved,
        )?;

        Ok(())
"""
GIVE_BACK = """                    for event in queue.into_iter().rev() {
                        self.events_queue.push_front(event);
                    }
"""


def waker_variant(mid, new_block, **kw):
    m = {"id": mid, "prop": "C17", "edits": [(U, WAKER_BLOCK, new_block)]}
    m.update(kw)
    return m


MUTANTS = [
    # ---- handlers extracted into private helpers ------------------------------------------------------------------------
    {"id": "C17-benign-waker-drain-helper", "prop": "C17", "benign": True, "edits": [
        (U, WAKER_BLOCK, "                self.waker_drain()?;\n"),
        (U, DROP_IMPL, """impl UnixTerminal {
    fn waker_drain(&mut self) -> Result<(), Error> {
        let mut buf = [0u8; 1024];
        if guard_io(self.waker_read.read(&mut buf), 0)? != 0 {
            self.events_queue.push_back(TerminalEvent::Wake);
        }
        Ok(())
    }
}

""" + DROP_IMPL)]},
    {"id": "C17-benign-signals-helper", "prop": "C17", "benign": True, "edits": [
        (U, SIGNAL_BLOCK, "                self.signals_handle()?;\n"),
        (U, DROP_IMPL, """impl UnixTerminal {
    fn signals_handle(&mut self) -> Result<(), Error> {
        for signal in self.signal_delivery.pending() {
            match signal {
                SIGTERM | SIGINT | SIGQUIT => {
                    return Err(Error::Quit);
                }
                SIGWINCH => match self.size {
                    Some(_) => self.write_all(GET_TERM_SIZE)?,
                    None => {
                        let size = self.size()?;
                        self.events_queue.push_back(TerminalEvent::Resize(size));
                    }
                },
                _ => {}
            }
        }
        Ok(())
    }
}

""" + DROP_IMPL)]},
    {"id": "C17-benign-signal-arms-reordered", "prop": "C17", "benign": True, "edits": [
        (U, SIGNAL_BLOCK, """                for signal in self.signal_delivery.pending() {
                    match signal {
                        SIGTERM | SIGINT | SIGQUIT => return Err(Error::Quit),
                        SIGWINCH => match self.size {
                            Some(_) => self.write_all(GET_TERM_SIZE)?,
                            None => {
                                let size = self.size()?;
                                self.events_queue.push_back(TerminalEvent::Resize(size));
                            }
                        },
                        _ => {}
                    }
                }
""")]},
    {"id": "C17-benign-restore-helper", "prop": "C17", "benign": True, "edits": [
        (U, RESTORE, "        self.termios_restore()\n"),
        (U, DROP_IMPL, """impl UnixTerminal {
    fn termios_restore(&mut self) -> Result<(), Error> {
        rustix::termios::tcsetattr(
            &self.tty,
            rustix::termios::OptionalActions::Flush,
            &self.termios_saved,
        )?;
        Ok(())
    }
}

""" + DROP_IMPL)]},
    {"id": "C17-benign-transmit-helper", "prop": "C17", "benign": True, "edits": [
        (U, """                let tee = self.tee.as_mut();
                let send = self.write_queue.consume_with(|slice| {
                    let size = guard_io(self.tty.write(slice), 0)?;
                    tee.map(|tee| tee.write(&slice[..size])).transpose()?;
                    Ok::<_, Error>(size)
                })?;
                self.stats.send += send;
""", "                self.transmit_pending()?;\n"),
        (U, DROP_IMPL, """impl UnixTerminal {
    fn transmit_pending(&mut self) -> Result<(), Error> {
        let tee = self.tee.as_mut();
        let sent = self.write_queue.consume_with(|pending| {
            let accepted = guard_io(self.tty.write(pending), 0)?;
            tee.map(|tee| tee.write(&pending[..accepted])).transpose()?;
            Ok::<_, Error>(accepted)
        })?;
        self.stats.send += sent;
        Ok(())
    }
}

""" + DROP_IMPL)]},
    {"id": "C17-benign-give-back-helper", "prop": "C17", "benign": True, "edits": [
        (U, GIVE_BACK, "                    self.events_give_back(queue);\n"),
        (U, DROP_IMPL, """impl UnixTerminal {
    fn events_give_back(&mut self, queue: Vec<TerminalEvent>) {
        for event in queue.into_iter().rev() {
            self.events_queue.push_front(event);
        }
    }
}

""" + DROP_IMPL)]},
    {"id": "C17-benign-drop-let-underscore", "prop": "C17", "benign": True, "edits": [
        (U, "        self.dispose().unwrap_or(())\n", "        let _ = self.dispose();\n")]},
    {"id": "C17-benign-epilogue-hoisted-array", "prop": "C17", "benign": True, "edits": [
        (U, "        self.execute_many([\n            TerminalCommand::Face(Default::default()),", "        let epilogue = [\n            TerminalCommand::Face(Default::default()),"),
        (U, "            TerminalCommand::DeviceAttrs,\n        ])\n        .unwrap_or(()); // ignore write errors", "            TerminalCommand::DeviceAttrs,\n        ];\n        self.execute_many(epilogue).unwrap_or(()); // ignore write errors")]},
    # ---- equivalent spellings of `read != 0` ----------------------------------------------------------------------------------
    waker_variant("C17-benign-waker-gt-zero", WAKER_BLOCK.replace("? != 0 {", "? > 0 {"), benign=True),
    waker_variant("C17-benign-waker-ge-one", WAKER_BLOCK.replace("? != 0 {", "? >= 1 {"), benign=True),
    waker_variant("C17-benign-waker-zero-lt", WAKER_BLOCK.replace("if guard_io(self.waker_read.read(&mut buf), 0)? != 0 {", "if 0 < guard_io(self.waker_read.read(&mut buf), 0)? {"), benign=True),
    waker_variant("C17-benign-waker-hoisted-bool", """                let mut buf = [0u8; 1024];
                let woken = guard_io(self.waker_read.read(&mut buf), 0)? != 0;
                if woken {
                    self.events_queue.push_back(TerminalEvent::Wake);
                }
""", benign=True),
    waker_variant("C17-benign-waker-hoisted-count", """                let mut buf = [0u8; 1024];
                let count = guard_io(self.waker_read.read(&mut buf), 0)?;
                if !(count == 0) {
                    self.events_queue.push_back(TerminalEvent::Wake);
                }
""", benign=True),
    waker_variant("C17-benign-waker-eq-zero-else", """                let mut buf = [0u8; 1024];
                if guard_io(self.waker_read.read(&mut buf), 0)? == 0 {
                    // spurious readiness
                } else {
                    self.events_queue.push_back(TerminalEvent::Wake);
                }
""", benign=True),
    waker_variant("C17-benign-waker-match-zero", """                let mut buf = [0u8; 1024];
                match guard_io(self.waker_read.read(&mut buf), 0)? {
                    0 => {}
                    _ => self.events_queue.push_back(TerminalEvent::Wake),
                }
""", benign=True),
    # ---- breaking counterparts -----------------------------------------------------------------------------------------------
    waker_variant("C17-waker-gt-one", WAKER_BLOCK.replace("? != 0 {", "? > 1 {"), expect="WAKER"),
    waker_variant("C17-waker-eq-zero-pushes", WAKER_BLOCK.replace("? != 0 {", "? == 0 {"), expect="WAKER"),
    waker_variant("C17-waker-hoisted-bool-and-queue-empty", """                let mut buf = [0u8; 1024];
                let woken = guard_io(self.waker_read.read(&mut buf), 0)? != 0;
                if woken && self.events_queue.is_empty() {
                    self.events_queue.push_back(TerminalEvent::Wake);
                }
""", expect="WAKER/<unix::UnixTerminalasterminal::Terminal>::poll/wake-dropped"),
    {"id": "C17-waker-drain-helper-drops-wake", "prop": "C17", "expect": "WAKER", "edits": [
        (U, WAKER_BLOCK, "                self.waker_drain()?;\n"),
        (U, DROP_IMPL, """impl UnixTerminal {
    fn waker_drain(&mut self) -> Result<(), Error> {
        let mut buf = [0u8; 1024];
        if guard_io(self.waker_read.read(&mut buf), 0)? != 0 && self.events_queue.is_empty() {
            self.events_queue.push_back(TerminalEvent::Wake);
        }
        Ok(())
    }
}

""" + DROP_IMPL)]},
    {"id": "C17-restore-helper-skipped-on-error", "prop": "C17", "expect": "RESTORE", "edits": [
        (U, "        self.signal_delivery.handle().close();\n", "        self.signal_delivery.handle().close();\n        if self.write_queue.len() > 0 {\n            return Ok(());\n        }\n"),
        (U, RESTORE, "        self.termios_restore()\n"),
        (U, DROP_IMPL, """impl UnixTerminal {
    fn termios_restore(&mut self) -> Result<(), Error> {
        rustix::termios::tcsetattr(
            &self.tty,
            rustix::termios::OptionalActions::Flush,
            &self.termios_saved,
        )?;
        Ok(())
    }
}

""" + DROP_IMPL)]},
    {"id": "C17-signals-helper-skips-sigint", "prop": "C17", "expect": "SIGNALS", "edits": [
        (U, SIGNAL_BLOCK, "                self.signals_handle()?;\n"),
        (U, DROP_IMPL, """impl UnixTerminal {
    fn signals_handle(&mut self) -> Result<(), Error> {
        for signal in self.signal_delivery.pending() {
            match signal {
                SIGTERM | SIGQUIT => {
                    return Err(Error::Quit);
                }
                SIGWINCH => match self.size {
                    Some(_) => self.write_all(GET_TERM_SIZE)?,
                    None => {
                        let size = self.size()?;
                        self.events_queue.push_back(TerminalEvent::Resize(size));
                    }
                },
                _ => {}
            }
        }
        Ok(())
    }
}

""" + DROP_IMPL)]},
    {"id": "C17-give-back-helper-forward", "prop": "C17", "expect": "EVENT-ORDER", "edits": [
        (U, GIVE_BACK, "                    self.events_give_back(queue);\n"),
        (U, DROP_IMPL, """impl UnixTerminal {
    fn events_give_back(&mut self, queue: Vec<TerminalEvent>) {
        for event in queue {
            self.events_queue.push_front(event);
        }
    }
}

""" + DROP_IMPL)]},

    {"id": "C17-benign-signals-if-chain", "prop": "C17", "benign": True, "edits": [
        (U, SIGNAL_BLOCK, """                for signal in self.signal_delivery.pending() {
                    if signal == SIGWINCH {
                        if self.size.is_none() {
                            self.events_queue
                                .push_back(TerminalEvent::Resize(self.size()?));
                        } else {
                            self.write_all(GET_TERM_SIZE)?;
                        }
                    } else if signal == SIGTERM || SIGINT == signal || signal == SIGQUIT {
                        return Err(Error::Quit);
                    }
                }
""")]},
    {"id": "C17-benign-signals-if-matches", "prop": "C17", "benign": True, "edits": [
        (U, SIGNAL_BLOCK, """                for signal in self.signal_delivery.pending() {
                    if matches!(signal, SIGTERM | SIGINT | SIGQUIT) {
                        return Err(Error::Quit);
                    }
                    if signal == SIGWINCH {
                        if self.size.is_none() {
                            self.events_queue
                                .push_back(TerminalEvent::Resize(self.size()?));
                        } else {
                            self.write_all(GET_TERM_SIZE)?;
                        }
                    }
                }
""")]},
    {"id": "C17-signals-if-chain-skips-sigint", "prop": "C17", "expect": "SIGNALS", "edits": [
        (U, SIGNAL_BLOCK, """                for signal in self.signal_delivery.pending() {
                    if signal == SIGWINCH {
                        if self.size.is_none() {
                            self.events_queue
                                .push_back(TerminalEvent::Resize(self.size()?));
                        } else {
                            self.write_all(GET_TERM_SIZE)?;
                        }
                    } else if signal == SIGTERM || signal == SIGQUIT {
                        return Err(Error::Quit);
                    }
                }
""")]},

    {"id": "C17-benign-give-back-drain-rev", "prop": "C17", "benign": True, "edits": [
        (U, "                    for event in queue.into_iter().rev() {\n", "                    for event in queue.drain(..).rev() {\n")]},
    {"id": "C17-give-back-drain-forward", "prop": "C17", "expect": "EVENT-ORDER", "edits": [
        (U, "                    for event in queue.into_iter().rev() {\n", "                    for event in queue.drain(..) {\n")]},
    # ---- waker body moved into a private helper / equivalent spellings of the errno mapping; capacity-only queue operations ----------
    {"id": "C17-benign-waker-notify-helper", "prop": "C17", "benign": True, "edits": [
        (U, WAKER_CLOSURE, "        let waker = TerminalWaker::new(move || waker_notify(&waker_write));\n"),
        (U, DROP_IMPL, WAKER_HELPER + DROP_IMPL)]},
    {"id": "C17-waker-notify-helper-again-is-error", "prop": "C17", "expect": "WAKER", "edits": [
        (U, WAKER_CLOSURE, "        let waker = TerminalWaker::new(move || waker_notify(&waker_write));\n"),
        (U, DROP_IMPL, WAKER_HELPER.replace("Err(rustix::io::Errno::INTR | rustix::io::Errno::AGAIN)", "Err(rustix::io::Errno::INTR)") + DROP_IMPL)]},
    {"id": "C17-benign-waker-guard-form", "prop": "C17", "benign": True, "edits": [
        (U, WAKER_MATCH, """            match rustix::io::write(&waker_write, WAKE) {
                Ok(_) => Ok(()),
                Err(e) if e == rustix::io::Errno::INTR || matches!(e, rustix::io::Errno::AGAIN) => Ok(()),
                Err(error) => Err(error.into()),
            }
""")]},
    {"id": "C17-waker-guard-form-intr-only", "prop": "C17", "expect": "WAKER", "edits": [
        (U, WAKER_MATCH, """            match rustix::io::write(&waker_write, WAKE) {
                Ok(_) => Ok(()),
                Err(e) if e == rustix::io::Errno::INTR => Ok(()),
                Err(error) => Err(error.into()),
            }
""")]},
    {"id": "C17-benign-waker-if-chain", "prop": "C17", "benign": True, "edits": [
        (U, WAKER_MATCH, """            if let Err(error) = rustix::io::write(&waker_write, WAKE) {
                if error != rustix::io::Errno::INTR && rustix::io::Errno::AGAIN != error {
                    return Err(error.into());
                }
            }
            Ok(())
""")]},
    {"id": "C17-waker-if-chain-or-instead-of-and", "prop": "C17", "expect": "WAKER", "edits": [
        (U, WAKER_MATCH, """            if let Err(error) = rustix::io::write(&waker_write, WAKE) {
                if error != rustix::io::Errno::INTR || rustix::io::Errno::AGAIN != error {
                    return Err(error.into());
                }
            }
            Ok(())
""")]},
    {"id": "C17-benign-waker-second-closure-before", "prop": "C17", "benign": True, "edits": [
        (U, "        waker_write.set_nonblocking(true)?;\n", "        let nonblocking = |stream: &UnixStream| stream.set_nonblocking(true);\n        nonblocking(&waker_write)?;\n")]},
    {"id": "C17-benign-give-back-reserve", "prop": "C17", "benign": True, "edits": [
        (U, "                    for event in queue.into_iter().rev() {\n", "                    self.events_queue.reserve(queue.len());\n                    for event in queue.into_iter().rev() {\n")]},
    {"id": "C17-benign-give-back-shrink-after", "prop": "C17", "benign": True, "edits": [
        (U, "                        self.events_queue.push_front(event);\n                    }\n", "                        self.events_queue.push_front(event);\n                    }\n                    self.events_queue.shrink_to_fit();\n")]},
    {"id": "C17-give-back-reserve-then-push-back", "prop": "C17", "expect": "EVENT-ORDER", "edits": [
        (U, "                    for event in queue.into_iter().rev() {\n                        self.events_queue.push_front(event);\n",
         "                    self.events_queue.reserve(queue.len());\n                    for event in queue.into_iter() {\n                        self.events_queue.push_back(event);\n")]},
    # ---- EPILOGUE: commands built by a local closure / nested constructor fn / hoisted locals (decided where the value is built) ------
    {"id": "C17-benign-epilogue-closure-ctor", "prop": "C17", "benign": True, "edits": [
        (U, '        self.execute_many([\n            TerminalCommand::Face(Default::default()),\n', '        let dec_mode_off = |mode| TerminalCommand::DecModeSet {\n            enable: false,\n            mode,\n        };\n        self.execute_many([\n            TerminalCommand::Face(Default::default()),\n'), (U, '            TerminalCommand::DecModeSet {\n                enable: false,\n                mode: DecMode::MouseMotions,\n            },\n            TerminalCommand::DecModeSet {\n                enable: false,\n                mode: DecMode::MouseSGR,\n            },\n            TerminalCommand::DecModeSet {\n                enable: false,\n                mode: DecMode::MouseReport,\n            },\n', '            dec_mode_off(DecMode::MouseMotions),\n            dec_mode_off(DecMode::MouseSGR),\n            dec_mode_off(DecMode::MouseReport),\n')]},
    {"id": "C17-benign-epilogue-nested-fn-ctor", "prop": "C17", "benign": True, "edits": [
        (U, '        self.execute_many([\n            TerminalCommand::Face(Default::default()),\n', '        fn dec_mode_off(mode: DecMode) -> TerminalCommand {\n            let enable = false;\n            TerminalCommand::DecModeSet { enable, mode }\n        }\n        self.execute_many([\n            TerminalCommand::Face(Default::default()),\n'), (U, '            TerminalCommand::DecModeSet {\n                enable: false,\n                mode: DecMode::MouseMotions,\n            },\n            TerminalCommand::DecModeSet {\n                enable: false,\n                mode: DecMode::MouseSGR,\n            },\n            TerminalCommand::DecModeSet {\n                enable: false,\n                mode: DecMode::MouseReport,\n            },\n', '            dec_mode_off(DecMode::MouseMotions),\n            dec_mode_off(DecMode::MouseSGR),\n            dec_mode_off(DecMode::MouseReport),\n')]},
    {"id": "C17-benign-epilogue-hoisted-commands", "prop": "C17", "benign": True, "edits": [
        (U, '        self.execute_many([\n            TerminalCommand::Face(Default::default()),\n', '        let sgr = DecMode::MouseSGR;\n        let sgr_off = TerminalCommand::DecModeSet {\n            enable: false,\n            mode: sgr,\n        };\n        let motions_off = TerminalCommand::DecModeSet {\n            mode: DecMode::MouseMotions,\n            enable: false,\n        };\n        self.execute_many([\n            TerminalCommand::Face(Default::default()),\n'), (U, '            TerminalCommand::DecModeSet {\n                enable: false,\n                mode: DecMode::MouseMotions,\n            },\n            TerminalCommand::DecModeSet {\n                enable: false,\n                mode: DecMode::MouseSGR,\n            },\n            TerminalCommand::DecModeSet {\n                enable: false,\n                mode: DecMode::MouseReport,\n            },\n', '            motions_off,\n            sgr_off,\n            TerminalCommand::DecModeSet {\n                enable: false,\n                mode: DecMode::MouseReport,\n            },\n')]},
    {"id": "C17-epilogue-closure-ctor-enables", "prop": "C17", "expect": "EPILOGUE/unix::UnixTerminal::dispose/missing-Mouse", "edits": [
        (U, '        self.execute_many([\n            TerminalCommand::Face(Default::default()),\n', '        let dec_mode_off = |mode| TerminalCommand::DecModeSet {\n            enable: true,\n            mode,\n        };\n        self.execute_many([\n            TerminalCommand::Face(Default::default()),\n'), (U, '            TerminalCommand::DecModeSet {\n                enable: false,\n                mode: DecMode::MouseMotions,\n            },\n            TerminalCommand::DecModeSet {\n                enable: false,\n                mode: DecMode::MouseSGR,\n            },\n            TerminalCommand::DecModeSet {\n                enable: false,\n                mode: DecMode::MouseReport,\n            },\n', '            dec_mode_off(DecMode::MouseMotions),\n            dec_mode_off(DecMode::MouseSGR),\n            dec_mode_off(DecMode::MouseReport),\n')]},
    {"id": "C17-epilogue-closure-ctor-ignores-mode", "prop": "C17", "expect": "EPILOGUE/unix::UnixTerminal::dispose/missing-MouseMotions", "edits": [
        (U, '        self.execute_many([\n            TerminalCommand::Face(Default::default()),\n', '        let dec_mode_off = |_mode: DecMode| TerminalCommand::DecModeSet {\n            enable: false,\n            mode: DecMode::MouseSGR,\n        };\n        self.execute_many([\n            TerminalCommand::Face(Default::default()),\n'), (U, '            TerminalCommand::DecModeSet {\n                enable: false,\n                mode: DecMode::MouseMotions,\n            },\n            TerminalCommand::DecModeSet {\n                enable: false,\n                mode: DecMode::MouseSGR,\n            },\n            TerminalCommand::DecModeSet {\n                enable: false,\n                mode: DecMode::MouseReport,\n            },\n', '            dec_mode_off(DecMode::MouseMotions),\n            dec_mode_off(DecMode::MouseSGR),\n            dec_mode_off(DecMode::MouseReport),\n')]},
    {"id": "C17-epilogue-closure-ctor-wrong-mode-passed", "prop": "C17", "expect": "EPILOGUE/unix::UnixTerminal::dispose/missing-MouseSGR", "edits": [
        (U, '        self.execute_many([\n            TerminalCommand::Face(Default::default()),\n', '        let dec_mode_off = |mode| TerminalCommand::DecModeSet {\n            enable: false,\n            mode,\n        };\n        self.execute_many([\n            TerminalCommand::Face(Default::default()),\n'), (U, '            TerminalCommand::DecModeSet {\n                enable: false,\n                mode: DecMode::MouseMotions,\n            },\n            TerminalCommand::DecModeSet {\n                enable: false,\n                mode: DecMode::MouseSGR,\n            },\n            TerminalCommand::DecModeSet {\n                enable: false,\n                mode: DecMode::MouseReport,\n            },\n', '            dec_mode_off(DecMode::MouseMotions),\n            dec_mode_off(DecMode::MouseReport),\n            dec_mode_off(DecMode::MouseReport),\n')]},
]
