"""Small intra-procedural dataflow helpers on MIR bodies (single-definition chasing)."""
from .mir import place_str, op_place, op_local, callee_names, call_matches
import re

TRANSPARENT_CALLS = [
    r"^std::ops::Try::branch$", r"^<.* as std::ops::Try>::branch$",
    r"^std::convert::From::from$", r"^<T as std::convert::From<T>>::from$",
    r"^std::convert::Into::into$", r"^<T as std::convert::Into<U>>::into$",
    r"^std::ops::Deref::deref$", r"^std::ops::DerefMut::deref_mut$",
    r"^std::borrow::Borrow::borrow$", r"^std::convert::AsRef::as_ref$", r"^std::convert::AsMut::as_mut$",
    r"^<&mut .* as std::ops::DerefMut>::deref_mut$", r"^<&.* as std::ops::Deref>::deref$",
]


VALUE_TRANSPARENT = [
    r"^std::option::Option::<T>::(unwrap|expect|unwrap_unchecked)$",
    r"^std::result::Result::<T, E>::(unwrap|expect)$",
    r"VecDeque::<T, A>::(back_mut|front_mut|back|front|get|get_mut)$",
]


def single_def(body, l):
    ds = body.defs_of(l)
    if len(ds) == 1:
        return ds[0]
    return None


def resolve_place(body, place, depth=0):
    """Normalise a place expression by substituting reference temporaries:
       (*_5).x  with _5 = &mut (*_1).q      ->  (*_1).q.x
       (*_5).x  with _5 = copy _3 (a ref)   ->  resolve((*_3).x)
       (*_5)    with _5 = deref_mut(_4)/from(_4)/unwrap(_4).. (transparent) -> resolve(*_4)
    A bare local (no projection) is never rewritten: it is a value of its own."""
    l = place["l"]
    proj = place["p"]
    if depth > 16 or not proj or proj[0]["k"] != "deref":
        # try to rewrite a field-of-local when the local itself is a single `use` of a place (move of a struct)
        return place_str(place)
    if 0 < l <= body.arg_count:
        return place_str(place)
    d = single_def(body, l)
    if d is None:
        return place_str(place)
    bb, si, rv = d
    rest = proj[1:]
    if si == "term":
        if any(call_matches(rv, p) for p in TRANSPARENT_CALLS + VALUE_TRANSPARENT) and rv["args"]:
            ap = op_place(rv["args"][0])
            if ap is not None:
                # the result points into whatever the argument points to
                base = resolve_place(body, {"l": ap["l"], "p": ap["p"] + [{"k": "deref"}]}, depth + 1)
                return _apply("<%s of %s>" % (callee_short(rv), base), rest) if not _is_identity(rv) else _apply(base, rest)
        return place_str(place)
    if rv["k"] in ("ref", "rawptr"):
        base = resolve_place(body, rv["place"], depth + 1)
        return _apply(base, rest)
    if rv["k"] == "use" or (rv["k"] == "cast" and rv["ck"].startswith("PointerCoercion")):
        ap = op_place(rv["a"])
        if ap is not None:
            return resolve_place(body, {"l": ap["l"], "p": ap["p"] + proj}, depth + 1)
    return place_str(place)


def callee_short(t):
    n = t["fn"].get("resolved") or t["fn"].get("path") or "?"
    return n.split("::")[-1]


def _is_identity(t):
    return any(call_matches(t, p) for p in TRANSPARENT_CALLS)


def _apply(base, proj):
    s = base
    for e in proj:
        k = e["k"]
        if k == "deref":
            s = "(*%s)" % s
        elif k == "field":
            s += "." + e["name"]
        elif k == "index":
            s += "[_%d]" % e["l"]
        elif k == "downcast":
            s = "(%s as %s)" % (s, e["variant"])
        else:
            s += "<%s>" % k
    return s


def arg_place(body, t, i):
    """normalised place string that the i-th call argument (a reference) points to"""
    a = t["args"][i]
    p = op_place(a)
    if p is None:
        return None
    return resolve_place(body, {"l": p["l"], "p": p["p"] + [{"k": "deref"}]})


def origins(body, operand, depth=0, seen=None, through=None):
    """Set of origin descriptors for an operand value, following copies/moves, `?`, enum payload
    projections and transparent conversions.  Descriptors:
       ('const', text) ('arg', n) ('call', bb, name) ('rv', bb, kind) ('place', str)"""
    if seen is None:
        seen = set()
    if operand["k"] == "const":
        c = operand["c"]
        return {("const", c.get("int", c.get("text")))}
    p = operand["place"]
    l = p["l"]
    key = (l,)
    if key in seen or depth > 30:
        return {("place", place_str(p))}
    seen = seen | {key}
    if 0 < l <= body.arg_count:
        return {("arg", l)}
    ds = body.defs_of(l)
    if not ds:
        # assigned only through projections (aggregate built field-wise) or never
        return {("place", place_str(p))}
    out = set()
    for bb, si, rv in ds:
        if si == "term":
            if any(call_matches(rv, pat) for pat in TRANSPARENT_CALLS + (through or [])) and rv["args"]:
                out |= origins(body, rv["args"][0], depth + 1, seen, through)
            else:
                out.add(("call", bb, (rv["fn"].get("resolved") or rv["fn"].get("path") or "<indirect>")))
        elif rv["k"] == "use":
            out |= origins(body, rv["a"], depth + 1, seen, through)
        elif rv["k"] == "ref":
            rp = rv["place"]
            if len(rp["p"]) == 1 and rp["p"][0]["k"] == "deref":
                out |= origins(body, {"k": "copy", "place": {"l": rp["l"], "p": []}}, depth + 1, seen, through)
            else:
                out.add(("place", resolve_place(body, rp)))
        elif rv["k"] == "cast":
            out |= origins(body, rv["a"], depth + 1, seen, through)
        elif rv["k"] == "agg" and rv["ak"] == "adt" and len(rv["fields"]) == 1:
            # Ok(x)/Some(x): payload carries the value
            out |= origins(body, rv["fields"][0], depth + 1, seen, through)
        else:
            out.add(("rv", bb, rv["k"] + ":" + rv.get("op", rv.get("ak", ""))))
    return out


def const_args(t):
    return [a["c"].get("int") if a["k"] == "const" else None for a in t["args"]]


def writes_to_field(body, field_path_regex):
    """(bb, si|'term', resolved place) for every assignment / call destination whose resolved place matches"""
    rx = re.compile(field_path_regex)
    out = []
    for i, b in enumerate(body.blocks):
        if b["cleanup"]:
            continue
        for si, s in enumerate(b["stmts"]):
            if s["k"] == "assign":
                rp = resolve_place(body, s["place"])
                if rx.search(rp):
                    out.append((i, si, rp, s))
        t = b["term"]
        if t["k"] == "call":
            rp = resolve_place(body, t["dest"])
            if rx.search(rp):
                out.append((i, "term", rp, t))
    return out


def mut_borrows_of(body, field_path_regex):
    """blocks where a &mut to a matching place is created"""
    rx = re.compile(field_path_regex)
    out = []
    for i, si, s in body.assigns():
        rv = s["rv"]
        if rv["k"] == "ref" and rv["mut"]:
            rp = resolve_place(body, rv["place"])
            if rx.search(rp):
                out.append((i, si, rp))
    return out
