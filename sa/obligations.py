"""Obligation inventory over MIR bodies (DESIGN §2.2): every site that can panic, wrap or violate a
library/unsafe precondition.  Collection only; discharge is done by sa/absint.py."""
import re
from .mir import call_matches, callee_name, callee_names, op_str, place_str

# may-panic external callees: regex -> (kind, note)
PANIC_CALLS = [
    (r"^std::option::Option::<T>::(unwrap|expect)$", "UNWRAP"),
    (r"^std::result::Result::<T, E>::(unwrap|expect|unwrap_err|expect_err)$", "UNWRAP"),
    (r"^core::panicking::|^std::rt::begin_panic|^std::rt::panic_fmt|^core::panicking::panic_fmt|panic_display|panic_explicit|unreachable_display|assert_failed", "PANIC"),
    (r"^core::option::expect_failed|^core::option::unwrap_failed|^core::result::unwrap_failed", "PANIC"),
    (r"impl std::ops::Index(Mut)?<I> for \[T\]>::index(_mut)?$|^<\[T\] as std::ops::Index(Mut)?<.*>>::index", "INDEXCALL"),
    (r"impl std::ops::Index(Mut)?<I> for std::vec::Vec<T, A>>::index(_mut)?$", "INDEXCALL"),
    (r"impl std::ops::Index(Mut)?<I> for str>::index(_mut)?$|str::traits::<impl .*Index", "INDEXCALL"),
    (r"smallvec::SmallVec<A> as std::ops::Index(Mut)?<I>>::index(_mut)?$", "INDEXCALL"),
    (r"^std::ops::Index(Mut)?::index(_mut)?$", "INDEXCALL"),
    (r"HashMap<K, V, S> as std::ops::Index|BTreeMap<K, V, A> as std::ops::Index", "MAPIDX"),
    (r"core::slice::<impl \[T\]>::(copy_from_slice|clone_from_slice|split_at|split_at_mut|swap|chunks|chunks_exact|chunks_mut|windows|rotate_left|rotate_right|copy_within|first_chunk|as_chunks)$", "LIBPRE"),
    (r"std::vec::Vec::<T, A>::(remove|insert|swap_remove|drain|split_off|truncate_front)$", "LIBPRE"),
    (r"VecDeque::<T, A>::(drain|remove|insert|swap)$", "LIBPRE"),
    (r"^std::iter::Iterator::step_by$|^<.* as std::iter::Iterator>::step_by$", "LIBPRE"),
    (r"^std::cmp::Ord::clamp$|^(f32|f64)::clamp$|<impl (f32|f64)>::clamp$|std::f(32|64)::<impl f(32|64)>::clamp$", "LIBPRE"),
    (r"^std::str::<impl str>::(split_at|split_at_mut)$", "LIBPRE"),
    (r"^std::string::String::(remove|insert|insert_str|truncate|drain|split_off|replace_range)$", "LIBPRE"),
    (r"^std::cell::RefCell::<T>::(borrow|borrow_mut)$", "LIBPRE"),
    (r"^std::char::from_digit$", "LIBPRE"),
    (r"^std::time::Instant::(sub|add)|<std::time::Instant as std::ops::(Sub|Add)", "LIBPRE"),
]
_PANIC_RX = [(re.compile(p), k) for p, k in PANIC_CALLS]


def int_bits(ty):
    m = re.fullmatch(r"([iu])(8|16|32|64|128|size)", ty)
    if not m:
        return None
    bits = 64 if m.group(2) == "size" else int(m.group(2))
    return (m.group(1) == "i", bits)


def ty_range(ty):
    ib = int_bits(ty)
    if ib is None:
        if ty == "bool":
            return (0, 1)
        if ty == "char":
            return (0, 0x10FFFF)
        return None
    signed, bits = ib
    if signed:
        return (-(1 << (bits - 1)), (1 << (bits - 1)) - 1)
    return (0, (1 << bits) - 1)


class Oblig:
    __slots__ = ("body", "bb", "kind", "sub", "term", "stmt_index", "line", "desc", "exp")

    def __init__(self, body, bb, kind, sub, term=None, stmt_index=None, line=0, desc="", exp=False):
        self.body = body
        self.bb = bb
        self.kind = kind
        self.sub = sub
        self.term = term
        self.stmt_index = stmt_index
        self.line = line
        self.desc = desc
        self.exp = exp

    @property
    def site(self):
        return "%s:%d" % (self.body.file, self.line)

    def shape(self):
        return "%s-%s" % (self.kind, self.sub)


def _box_deref(body, s):
    """`**boxed` in safe code lowers to a deref of the Box's internal raw pointer: every raw-deref'd local of the
    statement is defined by a Transmute cast of `<local: Box<_>>.0.pointer`"""
    locs = set()

    def scan(p):
        cur_raw = False
        for e in p["p"]:
            if e["k"] == "deref" and e.get("raw"):
                cur_raw = True
        if cur_raw:
            locs.add(p["l"])
    scan(s["place"])
    rv = s["rv"]
    for key in ("a", "b"):
        o = rv.get(key)
        if isinstance(o, dict) and o.get("k") in ("copy", "move"):
            scan(o["place"])
    if rv["k"] in ("ref", "rawptr", "discr"):
        scan(rv["place"])
    if not locs:
        return False
    for l in locs:
        ds = body.defs_of(l)
        if len(ds) != 1 or ds[0][1] == "term":
            return False
        d = ds[0][2]
        if d["k"] != "cast" or d["ck"] != "Transmute" or d["a"]["k"] not in ("copy", "move"):
            return False
        pl = d["a"]["place"]
        if not body.local_ty(pl["l"]).startswith("std::boxed::Box<"):
            return False
        names = [e.get("name") for e in pl["p"] if e["k"] == "field"]
        if names != ["0", "pointer"]:
            return False
    return True


INERT_EXP = re.compile(r"^(derive:|attr:tracing|bang:tracing::|bang:(write|writeln|format|format_args|print|println|eprintln|module_path|file|line|concat|stringify|log)[:$])")


def inert(expk):
    """sites produced by derive/tracing/formatting macros are not obligations of the repository's own logic;
    local macro_rules, desugarings and assert!/panic!/unreachable!/vec!/matches! expansions are kept"""
    return bool(expk) and bool(INERT_EXP.match(expk))


def collect(body, lossy=False, unsafe=True):
    out = _collect(body, lossy, unsafe)
    for o in out:
        o.exp = inert(o.exp) if isinstance(o.exp, str) else o.exp
    return out


def _collect(body, lossy=False, unsafe=True):
    out = []
    for bb, blk in enumerate(body.blocks):
        if blk["cleanup"]:
            continue
        t = blk["term"]
        if t["k"] == "assert":
            m = t["msg"]
            k = m["kind"]
            if k == "Overflow":
                out.append(Oblig(body, bb, "OVF", m["op"], t, line=t["line"], desc="%s %s %s" % (op_str(m["a"]), m["op"], op_str(m["b"])), exp=t.get("expk", "")))
            elif k == "OverflowNeg":
                out.append(Oblig(body, bb, "OVF", "Neg", t, line=t["line"], desc="-%s" % op_str(m["a"]), exp=t.get("expk", "")))
            elif k == "DivisionByZero":
                out.append(Oblig(body, bb, "DIV0", "Div", t, line=t["line"], desc="dividend %s" % op_str(m["a"]), exp=t.get("expk", "")))
            elif k == "RemainderByZero":
                out.append(Oblig(body, bb, "DIV0", "Rem", t, line=t["line"], desc="dividend %s" % op_str(m["a"]), exp=t.get("expk", "")))
            elif k == "BoundsCheck":
                out.append(Oblig(body, bb, "BOUNDS", "Index", t, line=t["line"], desc="index %s < len %s" % (op_str(m["index"]), op_str(m["len"])), exp=t.get("expk", "")))
            else:
                out.append(Oblig(body, bb, "ASSERT", k, t, line=t["line"], desc=m.get("text", ""), exp=t.get("expk", "")))
        elif t["k"] == "call":
            names = callee_names(t)
            kind = None
            for rx, k in _PANIC_RX:
                if any(rx.search(n) for n in names):
                    kind = k
                    break
            if kind == "INDEXCALL":
                # only range / map indexing can panic through a call (scalar indexing is a BoundsCheck assert)
                aty = t["arg_tys"][1] if len(t["arg_tys"]) > 1 else ""
                if "Range" in aty:
                    kind = "RANGEIDX"
                elif re.search(r"HashMap|BTreeMap", t["arg_tys"][0]):
                    kind = "MAPIDX"
                elif aty == "usize":
                    kind = "BOUNDSCALL"
                else:
                    kind = "RANGEIDX"
            if kind is None:
                mo = None
                for n in names:
                    mo = mo or re.match(r"^<&?(?:'\w+ )?(?:u8|u16|u32|u64|u128|usize|i8|i16|i32|i64|i128|isize) as std::ops::(Add|Sub|Mul|Div|Rem|Shl|Shr|Neg)<?", n)
                if mo:
                    out.append(Oblig(body, bb, "OVF", mo.group(1) + "-call", t, line=t["line"], desc=callee_name(t), exp=t.get("expk", "")))
                # integer methods that inherit the caller's overflow checks or panic on a value precondition
                mi = None
                for n in names:
                    mi = mi or re.match(r"^(?:core|std)::num::<impl (usize|u8|u16|u32|u64|u128|i8|i16|i32|i64|i128|isize)>::(abs|pow|ilog|ilog2|ilog10|div_euclid|rem_euclid|next_power_of_two|isqrt|next_multiple_of|div_ceil)$", n)
                if mi:
                    out.append(Oblig(body, bb, "OVF", "int-" + mi.group(2), t, line=t["line"], desc=callee_name(t), exp=t.get("expk", "")))
            if kind:
                nm = callee_name(t).split("::")[-1]
                out.append(Oblig(body, bb, kind, nm, t, line=t["line"], desc=callee_name(t), exp=t.get("expk", "")))
            if unsafe and t["fn"].get("unsafe") and not inert(t.get("expk", "")) and not re.match(r"^(core|std)::fmt::", callee_name(t) or ""):
                out.append(Oblig(body, bb, "UNSAFE", callee_name(t).split("::")[-1], t, line=t["line"], desc=callee_name(t), exp=t.get("expk", "")))
        if lossy or unsafe:
            for si, s in enumerate(blk["stmts"]):
                if s["k"] != "assign":
                    continue
                rv = s["rv"]
                if lossy and rv["k"] == "cast" and rv["ck"] == "IntToInt" and not inert(s.get("expk", "")):
                    fr = ty_range(rv["from"])
                    to = ty_range(rv["ty"])
                    if fr and to and (fr[0] < to[0] or fr[1] > to[1]):
                        out.append(Oblig(body, bb, "LOSSY", "%s-as-%s" % (rv["from"], rv["ty"]), None, si, s["line"], "%s as %s" % (op_str(rv["a"]), rv["ty"]), False))
                if lossy and rv["k"] == "cast" and rv["ck"] == "FloatToInt" and not inert(s.get("expk", "")):
                    pass  # saturating by language definition: never UB, value-level only
                if unsafe and not inert(s.get("expk", "")):
                    # raw pointer deref on either side
                    def has_raw(p):
                        return any(e["k"] == "deref" and e.get("raw") for e in p["p"])
                    raw = has_raw(s["place"])
                    for key in ("a", "b"):
                        o = rv.get(key)
                        if o and o["k"] in ("copy", "move") and has_raw(o["place"]):
                            raw = True
                    if rv["k"] in ("ref", "rawptr", "discr") and has_raw(rv["place"]):
                        raw = True
                    if raw and _box_deref(body, s):
                        raw = False
                    if raw:
                        out.append(Oblig(body, bb, "UNSAFE", "raw-deref", None, si, s["line"], place_str(s["place"]), False))
    return out
