"""C02 — input decoding is total: no reachable panic / overflow / OOB / unsafe-precondition / lossy
number in the decoders; Raw events non-empty; progress (no grammar accepts the empty string)."""
import re
from ..mir import call_matches, callee_name, op_local, op_const_int
from ..flow import expr, origins, resolve_place, arg_place, value_variants
from .. import oblrules, grammar, regex, obligations
from .c15 import Terms, regions_over, strip_iter, ts as term_text, _last_seg

CLAIM = {
    "text": "Totality of input decoding decided by abstract interpretation of MIR over every body reachable from the event, command and UTF-8 "
            "decoders: each overflow / bounds / range-index / unwrap / division / unsafe-precondition / lossy-number obligation is discharged by "
            "intervals and difference bounds, by slice-length facts recomputed from the escape-sequence grammars (minimal word length, "
            "ESC-free piece length, even hex runs), by named lemmas whose side conditions are re-checked from source on every run, or by one "
            "trusted invariant (DFA-DENSE); Raw items are built only behind `!is_empty()`; no grammar accepts the empty string. That reject "
            "bytes equal the input in order, and termination beyond progress, are not decided.",
    "technique": "abstract interpretation over MIR (intervals, difference bounds, slice lengths, variant sets) + regular-language queries on the extracted grammars + CFG guard rules",
    "design_ref": "DESIGN.md §5 C02",
}

ENTRY_RX = [
    r"^<decoder::Utf8Decoder as decoder::Decoder>::decode$",
    r"^<decoder::MatcherDecoder<T> as decoder::Decoder>::decode$",
    r"^<decoder::TTYEventDecoder as decoder::Decoder>::decode$",
    r"^<decoder::TTYCommandDecoder as decoder::Decoder>::decode$",
    r"^decoder::Decoder::decode_into$",
    r"^decoder::(Utf8Decoder|TTYEventDecoder|TTYCommandDecoder)::new$",
    r"^<decoder::(Utf8Decoder|TTYEventDecoder|TTYCommandDecoder) as std::default::Default>::default$",
]


def field_ty(prog, adt, field):
    a = prog.adts.get(adt)
    if not a:
        return None
    for v in a["variants"]:
        for f in v["fields"]:
            if f["name"] == field:
                return f["ty"]
    return None


def array_field_len(prog, adt, field, elem=None):
    """length N of the array field `adt.field: [elem; N]`, by value: N written as a literal, as a named constant (resolved through prog.consts
    from the ADT's module outwards) or anything else rustc normalised in a body that builds the ADT (type of the operand stored in the field)"""
    fty = field_ty(prog, adt, field) or ""
    m = re.match(r"^\[(.+); ([^;\]]+)\]$", fty)
    if not m or (elem is not None and m.group(1).strip() != elem):
        return None
    n = m.group(2).strip()
    n = re.sub(r"(?:_?usize)$", "", n) if re.fullmatch(r"\d+(_?usize)?", n) else n
    if re.fullmatch(r"\d+", n):
        return int(n)
    consts = prog.consts if isinstance(prog.consts, dict) else {}
    mod = adt.split("::")[:-1]
    cands = []
    if "::" in n and n in consts:
        cands.append(n)
    name = n.split("::")[-1]
    for k in range(len(mod), -1, -1):
        p = "::".join(mod[:k] + [name])
        if p in consts:
            cands.append(p)
            break
    if not cands:
        cands = [p for p in consts if p.split("::")[-1] == name]
    vals = {consts[p].get("int") for p in cands}
    if len(vals) == 1 and re.fullmatch(r"\d+", str(next(iter(vals)) or "")):
        return int(next(iter(vals)))
    # normalised type of what is stored into the field where the ADT is built
    lens = set()
    for b in prog.bodies:
        for i, si, s in b.assigns():
            rv = s["rv"]
            if rv["k"] == "agg" and rv.get("adt") == adt and field in (rv.get("fnames") or []):
                l = op_local(dict(zip(rv["fnames"], rv["fields"]))[field])
                mm = re.match(r"^\[(.+); (\d+)(?:_?usize)?\]$", b.local_ty(l) or "") if l is not None else None
                lens.add(int(mm.group(2)) if mm and (elem is None or mm.group(1).strip() == elem) else None)
    if len(lens) == 1 and None not in lens:
        return lens.pop()
    return None


def run(ctx):
    prog, src = ctx.prog, ctx.src
    ctx.explanation = (
        "Decides by abstract interpretation of MIR over every body reachable from the three decoders (TTYEventDecoder, TTYCommandDecoder, "
        "Utf8Decoder, decode_into and their constructors): (a) no reachable panic, arithmetic overflow/underflow, out-of-bounds access, failed "
        "unwrap/expect, violated unsafe precondition or lossy narrowing of a decoded number; slice lengths handed to Matcher::decode come from the "
        "escape-sequence grammars (minimal word length of each matcher's own automaton, recomputed on every run), plus named lemmas whose side "
        "conditions are checked from source (UTF8-CAP, TAGGED-ACCEPT, GRAM-FACTOR, GRAM-EVENHEX, CHUNKS-NONEMPTY) and one trusted data-structure "
        "invariant (DFA-DENSE); (b) both Raw(..) constructions are dominated by `!reject.is_empty()`; (c) no registered grammar accepts the empty "
        "string, so every emitted item consumes input. NOT decided: that reject bytes equal the input bytes in order, and termination beyond (c).")
    ctx.assume("allocation failure and stack exhaustion are out of scope; usize counters bumped by a constant per consumed byte cannot overflow (CNT)")

    entries = []
    for rx in ENTRY_RX:
        bs = prog.find(rx)
        if not bs:
            ctx.rule("ENTRIES", "decoder entry points found", floor=0)
            ctx.anchor("ENTRIES", rx)
        entries += [b.path for b in bs]

    # ---------------- grammar facts -----------------------------------------------------------------
    ctx.rule("GRAM-LEN", "len(data) >= minlen(L(m)) for every parsed matcher (recomputed from the matcher's own grammar)", floor=13)
    entry_facts = {}
    try:
        gf = grammar.decode_entry_facts(src)
    except Exception as e:     # Unfoldable: fail closed
        gf = {}
        ctx.anchor("GRAM-LEN", "grammar-extraction", "grammar extraction failed: %s" % e)
    for path, f in sorted(gf.items()):
        b = prog.body(path)
        if b is None:
            ctx.anchor("GRAM-LEN", path, "decode body of %s not found in MIR" % path)
            continue
        e = {"len_min": f["minlen"]}
        if f.get("maxlen") is not None:
            e["len_max"] = f["maxlen"]
        entry_facts[path] = {2: e}
        ctx.instance("GRAM-LEN", {"decode": path, "minlen": f["minlen"], "maxlen": f.get("maxlen"), "prefix": repr(f.get("prefix")), "suffix": repr(f.get("suffix"))})

    # ---------------- (c) progress --------------------------------------------------------------------
    ctx.rule("PROGRESS", "no registered grammar accepts the empty string", floor=16)
    try:
        gs = grammar.extract(src)
        for name in grammar.event_matcher_names(src) + grammar.command_matcher_names(src):
            g = gs.get(name)
            if g is None or g.rx is None:
                ctx.anchor("PROGRESS", name)
                continue
            eps = g.accepts_empty
            ctx.instance("PROGRESS", {"grammar": name, "accepts_empty": eps, "minlen": g.minlen})
            if eps:
                ctx.violation("PROGRESS", name, "accepts-empty", "grammar %s accepts the empty string: the decoder could emit an item without consuming input" % name, sites=[])
    except Exception as e:
        ctx.anchor("PROGRESS", "grammar-extraction", str(e))
        gs = {}

    # ---------------- lemmas ----------------------------------------------------------------------------
    lemmas = {}
    trusts = {}
    # UTF8-CAP
    ctx.rule("LEMMA-UTF8-CAP", "Utf8Decoder: offset counts bytes of the current DFA path; maxlen(utf8 DFA) <= buffer capacity; reset on accept and dead transition", floor=4)
    utf8_ok = True
    cap = None
    cap = array_field_len(prog, "decoder::Utf8Decoder", "buffer", "u8")
    g = gs.get("UTF8DFA")
    ml = g.maxlen if g is not None and g.rx is not None else None
    ctx.instance("LEMMA-UTF8-CAP", {"buffer_capacity": cap, "maxlen_utf8_dfa": ml})
    if cap is None or ml is None or ml > cap:
        utf8_ok = False
        ctx.violation("LEMMA-UTF8-CAP", "decoder::Utf8Decoder", "capacity", "the UTF-8 automaton accepts words of up to %s bytes but Utf8Decoder.buffer holds %s" % (ml, cap), sites=[])
    # The protocol is decided on *events*, wherever the statements live (decode itself, push/reset/consume, or any other helper of Utf8Decoder):
    #   W0  self.offset = 0            W1  self.offset = self.offset + 1      S0  self.state = <dfa>.start()     S1  self.state = <transition result>
    # Helpers are summarised (may increment / must reset) and decode is looked at with its single-caller helpers expanded.
    U8 = "decoder::Utf8Decoder"
    db = prog.one(r"^<decoder::Utf8Decoder as decoder::Decoder>::decode$")
    methods = [b for b in prog.bodies if b.file.endswith("decoder.rs") and (b.impl_self == U8 or (b.closure_root and (prog.body(b.closure_root) is not None and prog.body(b.closure_root).impl_self == U8)))]

    def events(b, view=None):
        """(bb, kind, text) for every write to self.offset / self.state in body b; kind in W0 W1 S0 S1 W? S?"""
        v = view or b
        out = []
        for i, si, st in v.assigns():
            rp = resolve_place(v, st["place"])
            if rp == "(*_1).offset":
                e = rv_text(v, st)
                out.append((i, "W0" if e == "0" else "W1" if e in ("Add(arg1.offset, 1)", "Add(1, arg1.offset)") else "W?", e))
            elif rp == "(*_1).state":
                e = rv_text(v, st)
                out.append((i, "S0" if re.fullmatch(r"DFA::start\(.*\)", e) else "S1" if re.fullmatch(r"DFA::transition\(.*\)@Some\.0", e) else "S?", e))
            elif st["rv"]["k"] == "ref" and st["rv"].get("mut") and resolve_place(v, st["rv"]["place"]) in ("(*_1).offset", "(*_1).state"):
                out.append((i, "W?", "&mut " + resolve_place(v, st["rv"]["place"])))
        return out
    writers = {}
    bad_writes = []
    for b in methods:
        if b.kind == "Closure":
            # a closure inside a method: writes through captures are not followed - none must mention the fields
            for bb, t in b.calls():
                pass
            continue
        for bb, kind, e in events(b):
            writers.setdefault(b.path, []).append(e)
            if kind in ("W?", "S?") or (kind == "S1" and (db is None or b.path != db.path)):
                bad_writes.append((b.path, e))
    ctx.instance("LEMMA-UTF8-CAP", {"offset_state_writers": writers})
    if bad_writes or not any(k == "W1" for b in methods if b.kind != "Closure" for _, k, _ in events(b)):
        utf8_ok = False
        ctx.violation("LEMMA-UTF8-CAP", "decoder::Utf8Decoder", "offset-writers", "Utf8Decoder.offset / .state are written other than by `offset = 0`, `offset += 1`, `state = dfa.start()` "
                      "and `state = <transition result>` in decode: %s" % (bad_writes or writers), sites=[])
    # helper summaries (non-recursive methods taking self as first argument)
    summ = {}

    def summary(b, stack=()):
        """{'inc': may perform W1, 'w0': every path performs W0, 's0': every path performs S0}"""
        if b.path in summ:
            return summ[b.path]
        if b.path in stack:
            return {"inc": True, "w0": False, "s0": False}
        ev = events(b)
        sites = {"W1": [], "W0": [], "S0": []}
        for bb, k, e in ev:
            if k in sites:
                sites[k].append(bb)
        inc = bool(sites["W1"])
        for bb, t in b.calls():
            cb = prog.body(callee_name(t) or "")
            if cb is not None and cb.impl_self == U8 and cb.kind != "Closure" and t["args"] and expr(b, t["args"][0]) == "arg1":
                cs = summary(cb, stack + (b.path,))
                inc = inc or cs["inc"]
                if cs["w0"]:
                    sites["W0"].append(bb)
                if cs["s0"]:
                    sites["S0"].append(bb)
        cfg_ = b.cfg()
        r = {"inc": inc, "w0": bool(sites["W0"]) and cfg_.must_pass(sites["W0"])[0], "s0": bool(sites["S0"]) and cfg_.must_pass(sites["S0"])[0]}
        summ[b.path] = r
        return r
    if db is None:
        utf8_ok = False
        ctx.anchor("LEMMA-UTF8-CAP", "Utf8Decoder::decode")
    else:
        dv = prog.inlined(db.path) or db
        cfg = dv.cfg()
        tr = [(bb, t) for bb, t in dv.calls() if call_matches(t, r"^automata::DFA::<T>::transition$")]
        sites = {"W1": [], "W0": [], "S0": [], "S1": []}
        for bb, k, e in events(db, dv):
            if k in sites:
                sites[k].append(bb)
        helper_calls = {}
        for bb, t in dv.calls():
            cb = prog.body(callee_name(t) or "")
            if cb is not None and cb.impl_self == U8 and cb.kind != "Closure" and cb.path != db.path and t["args"] and expr(dv, t["args"][0]) == "arg1":
                cs = summary(cb)
                helper_calls.setdefault(cb.path, []).append(bb)
                if cs["inc"]:
                    sites["W1"].append(bb)
                if cs["w0"]:
                    sites["W0"].append(bb)
                if cs["s0"]:
                    sites["S0"].append(bb)
        # helpers that were expanded in the view: the block that jumps into the expansion is their call site
        for bb, blk in enumerate(dv.blocks):
            hp = blk["term"].get("inl_call")
            hb_ = prog.body(hp) if hp else None
            if hb_ is not None and hb_.impl_self == U8 and not blk["cleanup"]:
                helper_calls.setdefault(hp, []).append(bb)
        ok_d = len(tr) == 1 and bool(sites["W1"])
        if ok_d:
            tbb, tt = tr[0]
            # the switch on the transition result
            sw = dv.blocks[tt["t"]]
            swt = sw["term"]
            none_t = some_t = None
            if swt["k"] == "switch":
                for v, tg in zip(swt["vals"], swt["targets"]):
                    if v == "0":
                        none_t = tg
                    if v == "1":
                        some_t = tg
                if some_t is None:
                    some_t = swt["otherwise"]
                if none_t is None:
                    none_t = swt["otherwise"]
            # a byte is counted only after a live transition ...
            ok_d = some_t is not None and all(cfg.edge_dominates(tt["t"], some_t, pb) for pb in sites["W1"])
            # ... a dead transition resets offset and state before leaving ...
            ok_n = none_t is not None and bool(sites["W0"]) and bool(sites["S0"]) and cfg.must_pass(sites["W0"], start=none_t)[0] and cfg.must_pass(sites["S0"], start=none_t)[0]
            # ... and after counting a byte the state advances to the transition's result, or everything is reset (accept), before the next byte / return
            ok_p = True
            for pb in sites["W1"]:
                ok_p = ok_p and cfg.must_pass(set(sites["S1"]) | set(sites["W0"]), start=pb, exits=[tbb] + cfg.returns)[0] \
                    and cfg.must_pass(set(sites["S1"]) | set(sites["S0"]), start=pb, exits=[tbb] + cfg.returns)[0]
            ctx.instance("LEMMA-UTF8-CAP", {"count_only_after_live_transition": ok_d, "dead_transition_resets": ok_n, "count_then_advance_or_reset": ok_p,
                                            "helpers": {k: summ.get(k) for k in sorted(helper_calls)}})
            if not (ok_d and ok_n and ok_p):
                utf8_ok = False
                ctx.violation("LEMMA-UTF8-CAP", db.path, "protocol", "Utf8Decoder::decode does not keep offset equal to the length of the current DFA path (push after live transition / reset on dead / state-or-consume after push)", sites=[db.loc])
        else:
            utf8_ok = False
            ctx.anchor("LEMMA-UTF8-CAP", "decode/transition-or-push")
        if utf8_ok and cap is not None and len(tr) == 1 and some_t is not None:
            # facts at the entry of each helper, from where it is called: before the byte of a live transition is counted offset <= maxlen-1;
            # once it has been counted (and before a reset) offset >= 1; anywhere offset <= maxlen <= capacity
            top = min(ml, cap)
            for hp, bbs in helper_calls.items():
                before = all(cfg.edge_dominates(tr[0][1]["t"], some_t, hb_) and not any(hb_ in cfg.reachable_from(pb, removed=[tr[0][0]]) and hb_ != pb for pb in sites["W1"]) for hb_ in bbs)
                after = all(cfg.edge_dominates(tr[0][1]["t"], some_t, hb_) and cfg.must_pass([pb for pb in sites["W1"] if pb != hb_], start=some_t, exits=[hb_])[0]
                            and not any(hb_ in cfg.reachable_from(rb_, removed=[tr[0][0]]) and hb_ != rb_ for rb_ in sites["W0"]) for hb_ in bbs)
                hbody = prog.body(hp)
                direct_inc = hbody is not None and any(k == "W1" for _, k, _ in events(hbody))
                if before and direct_inc:
                    entry_facts[hp] = {"fields": {"(*_1).offset": (0, top - 1)}}
                elif after:
                    entry_facts[hp] = {"fields": {"(*_1).offset": (1, top)}}
                else:
                    entry_facts[hp] = {"fields": {"(*_1).offset": (0, top)}}
            # decode itself: offset <= maxlen at entry (class invariant); a store `self.buffer[self.offset] = ..` written directly in decode (push
            # inlined by hand) is in bounds where the byte of a live transition has not been counted yet
            entry_facts[db.path] = {"fields": {"(*_1).offset": (0, top)}}
            TU = Terms(prog)
            dobs = [o for o in obligations.collect(db, lossy=True) if not o.exp]
            dkeys = oblrules.site_keys(dobs)
            for o in dobs:
                m = o.term.get("msg") if isinstance(o.term, dict) else None
                if o.kind != "BOUNDS" or not m:
                    continue
                if TU.of(db, m["index"]) == ("f", ("arg", 1), "offset") and TU.of(db, m["len"]) == ("c", str(cap)) and top <= cap:
                    legal = cfg.edge_dominates(tr[0][1]["t"], some_t, o.bb) and not any(o.bb in cfg.reachable_from(pb, removed=[tr[0][0]]) and o.bb != pb for pb in sites["W1"])
                    if legal:
                        lemmas[(db.path, dkeys[id(o)])] = ("UTF8-CAP", "offset is the length of the DFA path before the byte of this live transition is counted: <= maxlen-1 < capacity")
            ctx.instance("LEMMA-UTF8-CAP", {"helper_entry_facts": {k: v["fields"] for k, v in entry_facts.items() if k.startswith(U8) or k == db.path}})

    # TAGGED-ACCEPT: every accepting state of the two decoder automata carries a tag, Matcher(i) has i < #matchers
    ctx.rule("LEMMA-TAGGED-ACCEPT", "accepting states of the decoder automata are tagged; Matcher(index) comes from enumerate() over the stored matchers", floor=3)
    tagged_ok = True
    nb = prog.one(r"^decoder::MatcherAutomata::<T>::new$")
    if nb is None:
        tagged_ok = False
        ctx.anchor("LEMMA-TAGGED-ACCEPT", "MatcherAutomata::new")
    else:
        # The vector stored in `matchers` is traversed with enumerate() (closure of an iterator adaptor, or a loop - wherever the code lives after
        # helper expansion) and inside that per-element region the stop state is tagged Matcher(<the element's enumeration index>).
        TT = Terms(prog)
        nv = prog.inlined(nb.path) or nb
        lits = [s for i, si, s in nv.assigns() if s["rv"]["k"] == "agg" and s["rv"].get("adt") == "decoder::MatcherAutomataInner"]
        ok1 = ok2 = False
        found = []
        if len(lits) == 1:
            f = dict(zip(lits[0]["rv"]["fnames"], lits[0]["rv"]["fields"]))
            stored = TT.of(nv, f["matchers"])
            regs_ = [r for r in regions_over(TT, nv, lambda c: c == stored, allow_enumerate=True) if r.elem[1]]
            ok2 = bool(regs_)
            for r in regs_:
                rb_ = prog.inlined(r.body.path) or r.body if r.body is not nv else nv
                for bb, t in rb_.calls():
                    if call_matches(t, r"automata::NFA::<T>::tag_stop_state$") and len(t["args"]) == 2 and (r.body is not nv or bb in r.blocks):
                        tg = TT.of(rb_, t["args"][1], r.cx)
                        found.append(term_text(tg, 80))
                        if tg[0] == "agg" and tg[1] == "MatcherTag::Matcher" and tg[2] == (TT.field(r.elem[0], "0"),):
                            ok1 = True
        # every alternative of both automata has tags on accepting states (E2)
        ok3 = True
        try:
            for which in ("event", "command"):
                regs = grammar.registrations(src, which)
                for r in regs:
                    gg = gs.get(r.name)
                    if gg is None:
                        ok3 = False
                    elif gg.kind == "table":
                        # table-driven: every entry carries its own tag (key event)
                        ok3 = ok3 and bool(gg.table) and all(tag for _, tag in gg.table)
        except Exception:
            ok3 = False
        ctx.instance("LEMMA-TAGGED-ACCEPT", {"closure_tags_stop_with_enumerate_index": ok1, "tags": found[:4]})
        ctx.instance("LEMMA-TAGGED-ACCEPT", {"enumerated_vector_is_stored_matchers": ok2})
        ctx.instance("LEMMA-TAGGED-ACCEPT", {"table_alternatives_tag_every_entry": ok3})
        tagged_ok = ok1 and ok2 and ok3
        if not tagged_ok:
            ctx.violation("LEMMA-TAGGED-ACCEPT", nb.path, "shape", "MatcherAutomata::new does not tag every alternative's stop state with its enumerate() index over the stored matcher vector", sites=[nb.loc])
    if tagged_ok:
        lemmas[("decoder::MatcherDecoder::<T>::decode_byte", "UNWRAP")] = ("TAGGED-ACCEPT", "accepting states always carry a tag (checked on MatcherAutomata::new and the table grammar)")
        lemmas[("decoder::MatcherDecoder::<T>::decode_byte", "BOUNDSCALL")] = ("TAGGED-ACCEPT", "Matcher(index) tags are enumerate() indices of the stored matcher vector")

    # GRAM-FACTOR(TermSize)
    ctx.rule("LEMMA-GRAM-FACTOR", "every ESC-free piece after the first of a TermSize report has length >= 4 (needs [3..len-1])", floor=1)
    ts = "<decoder::TermSizeMatcher as decoder::Matcher>::decode"
    try:
        k, w = grammar.termsize_piece_minlen(src, witness=True)
    except Exception as e:
        k, w = None, None
        ctx.anchor("LEMMA-GRAM-FACTOR", "TermSize-grammar", str(e))
    tsb = prog.body(ts)
    if k is not None and tsb is not None:
        # the slices indexed are items of data.split(|c| c == ESC) taken after the first next()
        sp = [expr(tsb, t["args"][0]) for bb, t in tsb.calls() if call_matches(t, r"slice::<impl \[T\]>::split$")]
        okshape = sp == ["arg2"]
        ctx.instance("LEMMA-GRAM-FACTOR", {"piece_minlen": k, "witness": repr(w), "splits": sp, "needs": 4})
        if k >= 4 and okshape:
            for kind in ("OVF", "RANGEIDX"):
                lemmas[(ts, kind)] = ("GRAM-FACTOR", "pieces of data.split(ESC) after the first have length >= %d by the TermSize grammar" % k)
        else:
            ctx.violation("LEMMA-GRAM-FACTOR", ts, "piece-too-short", "TermSize grammar allows a piece of length %s (%r): [3..len-1] can panic" % (k, w), sites=[tsb.loc])

    # GRAM-EVENHEX + CHUNKS-NONEMPTY
    ctx.rule("LEMMA-GRAM-EVENHEX", "hex runs inside a TermCap payload have even length; hex_decode is reached only from TermCapMatcher::decode", floor=2)
    try:
        even, wit = grammar.termcap_hex_runs_even(src)
    except Exception as e:
        even, wit = False, None
        ctx.anchor("LEMMA-GRAM-EVENHEX", "TermCap-grammar", str(e))
    cg = prog.callgraph()
    dyn, init = cg.reach_split(entries)
    callers = [c for c in cg.callers("decoder::hex_decode") if c in dyn]
    ok_callers = all(c.startswith("<decoder::TermCapMatcher as decoder::Matcher>::decode") for c in callers) and bool(callers)
    ctx.instance("LEMMA-GRAM-EVENHEX", {"even": even, "witness": repr(wit)})
    ctx.instance("LEMMA-GRAM-EVENHEX", {"hex_decode_callers_in_reach": callers, "ok": ok_callers})
    hb = prog.body("decoder::hex_decode")
    # the per-chunk code - closure of an adaptor over `slice.chunks(2)` or the body of a loop over it - wherever it is: `chunk[0]` needs a
    # non-empty chunk (std), `chunk[1]` a full one (even length of the hex run, from the grammar); with chunks_exact(2) both are std facts
    TT = Terms(prog)
    chunk_sites = []
    if hb is not None:
        arg_slice = ("arg", 1)
        is_chunks = lambda c: c[0] == "call" and c[1] in ("chunks", "chunks_exact") and len(c[2]) == 2 and c[2][0] == arg_slice and c[2][1] == ("c", "2")
        for r in regions_over(TT, hb, is_chunks):
            cont = strip_iter(TT.of(hb, hb.blocks[r.site_bb]["term"]["args"][0]))[0]
            exact = cont[1] == "chunks_exact"
            obs = [o for o in obligations.collect(r.body, lossy=True) if not o.exp]
            keys = oblrules.site_keys(obs)
            E = r.elem[0]
            for o in obs:
                m = o.term.get("msg") if isinstance(o.term, dict) else None
                if o.kind != "BOUNDS" or not m or (r.body is hb and o.bb not in r.blocks):
                    continue
                ln, ix = TT.of(r.body, m["len"], r.cx), TT.of(r.body, m["index"], r.cx)
                if ln in (("un", "PtrMetadata", E), ("call", "len", (E,))) and ix in (("c", "0"), ("c", "1")):
                    chunk_sites.append((r.body.path, keys[id(o)], int(ix[1]), exact))
    chunk2 = bool(chunk_sites)
    ctx.instance("LEMMA-GRAM-EVENHEX", {"chunk_index_sites": [(p_, k_, i_) for p_, k_, i_, x_ in chunk_sites]})
    for p_, k_, i_, exact in chunk_sites:
        if i_ == 0:
            lemmas[(p_, k_)] = ("CHUNKS-NONEMPTY", "std: slice::chunks never yields an empty chunk")
        elif exact:
            lemmas[(p_, k_)] = ("CHUNKS-NONEMPTY", "std: slice::chunks_exact(2) yields chunks of exactly 2 elements")
        elif even and ok_callers:
            lemmas[(p_, k_)] = ("GRAM-EVENHEX", "chunks(2) of an even-length hex run always has 2 elements")
    if not (even and ok_callers and chunk2):
        ctx.note("GRAM-EVENHEX not available: even=%s callers=%s chunks(2)=%s" % (even, callers, chunk2))

    # DFA-DENSE (trusted)
    for p in ("automata::DFA::<T>::transition", "automata::DFA::<T>::info"):
        trusts[(p, "*")] = ("DFA-DENSE", "compile() emits 256 transitions per state in id order under `assert_eq!(index, state.0)` (checked by C15 R4-DENSITY); states handed out are < n")

    # demanded bits: KeyMod::from_bits masks its argument
    fb = prog.body("keys::KeyMod::from_bits")
    if fb is not None and re.search(r"BitAnd\(arg1, ", expr(fb, {"k": "copy", "place": {"l": 0, "p": []}})):
        # every narrowing-to-u32 cast (in the decoders) whose result goes nowhere but into KeyMod::from_bits(..) - found by use, not by position
        for b in prog.bodies:
            if not b.file.endswith("decoder.rs"):
                continue
            obs = [o for o in obligations.collect(b, lossy=True) if not o.exp]
            if not any(o.kind == "LOSSY" and o.sub.endswith("-as-u32") for o in obs):
                continue
            keys = oblrules.site_keys(obs)
            for o in obs:
                if o.kind != "LOSSY" or not o.sub.endswith("-as-u32") or o.stmt_index is None:
                    continue
                st = b.blocks[o.bb]["stmts"][o.stmt_index]
                if st.get("k") != "assign" or st["place"]["p"]:
                    continue
                d = st["place"]["l"]
                uses = _mentions(b, d) - 1          # minus the definition itself
                into = [t for bb, t in b.calls() if call_matches(t, r"^keys::KeyMod::from_bits$") and len(t["args"]) == 1 and op_local(t["args"][0]) == d]
                if uses == len(into) == 1:
                    lemmas[(b.path, keys[id(o)])] = ("DEMANDED-BITS", "the truncated value is only passed to KeyMod::from_bits which masks it: low bits are unchanged by the truncation")

    # ASCII class guards: `x - C` (also through the `&u8 - u8` operator impl) cannot underflow where a test `x.is_ascii_digit()` /
    # is_ascii_lowercase / is_ascii_uppercase / is_ascii_hexdigit / is_ascii_alphabetic holds on the dominating edge and C <= the least member of the class.
    # (the abstract interpreter has no summary for these std predicates; decided here on value terms + edge dominance)
    ASCII_MIN = {"is_ascii_digit": 48, "is_ascii_hexdigit": 48, "is_ascii_uppercase": 65, "is_ascii_lowercase": 97, "is_ascii_alphabetic": 65, "is_ascii_alphanumeric": 48,
                 "is_ascii_graphic": 33, "is_ascii_punctuation": 33}
    TA = Terms(prog)

    def ascii_guard(b, cx, x, c, at_bb, depth=0):
        """name of an ASCII class predicate P with min(P) >= c such that P(x) holds whenever block at_bb of b runs: a test on the dominating
        edge in b; or b is a closure and, where it is created, it is handed to `bool::then(P(x), closure)` (it runs only when P(x) holds) or
        its creation is guarded in the enclosing body (recursively); x is a value term, so the enclosing bodies speak about the same byte"""
        cfg_ = b.cfg()

        def holds_on(cond):
            neg = False
            while cond[0] == "un" and cond[1] == "Not":
                cond, neg = cond[2], not neg
            if cond[0] == "call" and cond[1] in ASCII_MIN and cond[2] == (x,) and c <= ASCII_MIN[cond[1]]:
                return cond[1], ("0" if neg else "1")
            return None
        for sb, t in b.terms():
            if t["k"] != "switch":
                continue
            h = holds_on(TA.of(b, t["d"], cx))
            if h is None:
                continue
            want = h[1]
            tgt = [tg for vv, tg in zip(t["vals"], t["targets"]) if str(vv) == want] or ([t["otherwise"]] if len(t["vals"]) == 1 and str(t["vals"][0]) != want else [])
            if len(tgt) == 1 and cfg_.edge_dominates(sb, tgt[0], at_bb):
                return h[0]
        if b.kind != "Closure" or depth > 4:
            return None
        parent = prog.body(b.j.get("closure_parent") or "")
        if parent is None:
            return None
        pcx = _closure_cx(prog, TA, parent) if parent.kind == "Closure" else None
        made = [(i, s_) for i, si, s_ in parent.assigns() if s_["rv"]["k"] == "agg" and s_["rv"].get("ak") == "closure" and s_["rv"].get("def") == b.path]
        if len(made) != 1 or made[0][1]["place"]["p"]:
            return None
        mbb, ms = made[0]
        for ub, ut in parent.calls():
            if call_matches(ut, r"bool>?::then$") and len(ut["args"]) == 2 and _holds_local(parent, ut["args"][1], ms["place"]["l"]):
                h = holds_on(TA.of(parent, ut["args"][0], pcx))
                if h is not None and h[1] == "1":
                    return h[0]
        return ascii_guard(parent, pcx, x, c, mbb, depth + 1)

    def ascii_in_scope(b):
        while b is not None:
            if any(_last_seg(callee_name(t)) in ASCII_MIN for bb, t in b.calls()):
                return True
            b = prog.body(b.j.get("closure_parent") or "") if b.kind == "Closure" else None
        return False
    for b in prog.bodies:
        if not b.file.endswith("decoder.rs") or not ascii_in_scope(b):
            continue
        cxa = _closure_cx(prog, TA, b) if b.kind == "Closure" else None
        obs = [o for o in obligations.collect(b, lossy=True) if not o.exp]
        keys = oblrules.site_keys(obs)
        for o in obs:
            if o.kind != "OVF" or not o.sub.startswith("Sub") or not isinstance(o.term, dict):
                continue
            if o.term.get("k") == "call" and len(o.term["args"]) == 2:
                x, c = TA.of(b, o.term["args"][0], cxa), TA.of(b, o.term["args"][1], cxa)
            elif isinstance(o.term.get("msg"), dict) and "a" in o.term["msg"]:
                x, c = TA.of(b, o.term["msg"]["a"], cxa), TA.of(b, o.term["msg"]["b"], cxa)
            else:
                continue
            if c[0] != "c" or not re.fullmatch(r"\d+", c[1]):
                continue
            pred = ascii_guard(b, cxa, x, int(c[1]), o.bb)
            if pred is not None:
                lemmas[(b.path, keys[id(o)])] = ("ASCII-CLASS", "%s(x) holds where this runs (dominating edge / bool::then receiver), so x >= %d >= %s" % (pred, ASCII_MIN[pred], c[1]))

    # ---------------- (a) obligations -------------------------------------------------------------------------
    def scope(b):
        return b.file.endswith(("decoder.rs", "automata.rs", "keys.rs", "face.rs", "terminal.rs"))

    outs, dyn, init = oblrules.run(ctx, "TOTAL", entries, lossy=True, entry_facts=entry_facts, lemmas=lemmas, trusts=trusts, scope=scope,
                                   lossy_filter=lambda b, o: not re.match(r"^i32-as-u32", o.sub), floor_bodies=25,
                                   desc="no reachable panic/overflow/OOB/unwrap/unsafe-precondition/lossy number in the decoders")

    if ctx.tier == "thorough":
        from .. import clippyxref
        clippyxref.run(ctx, "CLIPPY-XREF", [prog.body(p) for p in sorted(dyn) if prog.body(p) is not None])

    # ---------------- (b) Raw non-empty ---------------------------------------------------------------------------
    # Decided on value terms: the bytes that go into Raw(..) are some vector X; a test that implies `X is not empty` (`!X.is_empty()`,
    # `X.len() != 0`, `X.len() > 0`, `0 < X.len()`, `X.len() >= 1`, ..., in either polarity) dominates the construction on its "non-empty" edge.
    ctx.rule("RAW-NONEMPTY", "Raw(..) events are constructed only where `reject.is_empty()` is false", floor=2)
    TT = Terms(prog)
    RAW_ADTS = ("terminal::TerminalEvent", "terminal::TerminalCommand")
    STRIP = ("into_vec", "to_vec", "into", "from", "collect", "into_iter", "iter", "as_slice", "into_boxed_slice")

    def guarded_nonempty(b, cx, operand, at_bb):
        """the bytes held by `operand` are non-empty whenever block at_bb runs: a test implying it dominates at_bb on its non-empty edge"""
        payload = TT.of(b, operand, cx)
        while payload[0] == "call" and payload[1] in STRIP and len(payload[2]) == 1:
            payload = payload[2][0]
        return term_guarded(b, cx, payload, at_bb), payload

    def term_guarded(b, cx, payload, at_bb, depth=0):
        """the container denoted by term `payload` (in b's term context) is non-empty whenever block at_bb of b runs: (1) a test implying it
        dominates at_bb on its non-empty edge in b; or b is a closure and, where it is created, (2) it is handed to `bool::then(cond, closure)`
        with cond implying it (the closure runs only when cond holds), or (3) the creation itself is guarded in the enclosing body (recursively
        through enclosing closures) - the closure owns or shares what it captured, so the bytes cannot shrink before it runs"""
        cfg = b.cfg()
        for sb, t in b.terms():
            if t["k"] != "switch":
                continue
            v = nonempty_value(TT.of(b, t["d"], cx), payload)
            if v is None:
                continue
            tgt = [tg for vv, tg in zip(t["vals"], t["targets"]) if str(vv) == v]
            if not tgt and len(t["vals"]) == 1:
                tgt = [t["otherwise"]]
            if len(tgt) == 1 and cfg.edge_dominates(sb, tgt[0], at_bb):
                return True
        if b.kind != "Closure" or depth > 4:
            return False
        parent = prog.body(b.j.get("closure_parent") or "")
        if parent is None:
            return False
        pcx = _closure_cx(prog, TT, parent) if parent.kind == "Closure" else None
        made = [(i, s_) for i, si, s_ in parent.assigns() if s_["rv"]["k"] == "agg" and s_["rv"].get("ak") == "closure" and s_["rv"].get("def") == b.path]
        if len(made) != 1 or made[0][1]["place"]["p"]:
            return False
        mbb, ms = made[0]
        # no capture by unique borrow: nothing the closure sees can be changed between the test and its run except by itself
        for f in ms["rv"]["fields"]:
            l = op_local(f)
            if l is not None and (parent.local_ty(l) or "").startswith("&mut"):
                return False
        cl = ms["place"]["l"]
        for ub, ut in parent.calls():
            if call_matches(ut, r"bool>?::then$") and len(ut["args"]) == 2 and _holds_local(parent, ut["args"][1], cl):
                if nonempty_value(TT.of(parent, ut["args"][0], pcx), payload) == "1":
                    return True
        return term_guarded(parent, pcx, payload, mbb, depth + 1)

    def some_only_nonempty(g, depth=0):
        """g returns Option<bytes>: every Some(..) it can return holds non-empty bytes (None otherwise)"""
        if g is None or depth > 3 or g.kind not in ("Fn", "AssocFn"):
            return False
        seen, work, ok, n_some = set(), [0], True, 0
        while work and ok:
            l = work.pop()
            if l in seen:
                continue
            seen.add(l)
            for bb, si, rv in g.defs_of(l):
                if si == "term":
                    ok = False
                elif rv["k"] == "agg" and rv.get("variant") == "None":
                    pass
                elif rv["k"] == "agg" and rv.get("variant") == "Some" and len(rv["fields"]) == 1:
                    n_some += 1
                    ok = ok and guarded_nonempty(g, None, rv["fields"][0], bb)[0]
                elif rv["k"] == "use" and op_local(rv["a"]) is not None:
                    work.append(op_local(rv["a"]))
                else:
                    ok = False
        return ok and n_some > 0
    def is_param(g, operand, k, depth=0):
        """operand holds the value of g's k-th parameter (1-based local), through whole-local copies/moves"""
        l = op_local(operand)
        if l is None or depth > 8 or operand.get("place", {}).get("p"):
            return False
        if l == k:
            return True
        ds = g.defs_of(l)
        return len(ds) == 1 and ds[0][1] != "term" and ds[0][2]["k"] == "use" and is_param(g, ds[0][2]["a"], k, depth + 1)

    def ctor_applied_nonempty(g, cx, bb, t, is_ctor, depth=0):
        """call `t` (in body g) receives the Raw constructor (arguments for which is_ctor holds): every application of the constructor it leads to is
        on non-empty bytes.  Understood receivers: Option::map(src, ctor) with src = h(..) returning Some only of non-empty bytes; a direct application
        ctor(bytes) (FnOnce/FnMut/Fn call) under a non-empty guard; a crate function that does only such things with that parameter (any helper,
        found by data flow from the call site, not by name)."""
        ks = [k for k, a in enumerate(t["args"]) if is_ctor(a)]
        if not ks or depth > 3:
            return False, None
        if call_matches(t, r"Option::<T>::map$") and len(t["args"]) == 2 and ks == [1]:
            l = op_local(t["args"][0])
            ds = g.defs_of(l) if l is not None else []
            return (len(ds) == 1 and ds[0][1] == "term" and some_only_nonempty(prog.body(callee_name(ds[0][2]) or ""))), TT.of(g, t["args"][0], cx)
        if call_matches(t, r"ops::(FnOnce::call_once|FnMut::call_mut|Fn::call)$") and ks == [0] and len(t["args"]) == 2:
            tl = op_local(t["args"][1])
            ds = g.defs_of(tl) if tl is not None else []
            if len(ds) == 1 and ds[0][1] != "term" and ds[0][2]["k"] == "agg" and ds[0][2]["ak"] == "tuple" and len(ds[0][2]["fields"]) == 1:
                return guarded_nonempty(g, cx, ds[0][2]["fields"][0], bb)
            return False, None
        f = t["fn"]
        h = prog.body((f.get("resolved") if f.get("resolved_local") else None) or (f.get("path") if f.get("local") else None) or "")
        if h is None or h.kind not in ("Fn", "AssocFn") or len(t["args"]) != h.arg_count:
            return False, None
        hcx, last = None, None
        for k in ks:
            for hb, ht in h.calls():
                if any(is_param(h, a, k + 1) for a in ht["args"]):
                    ok, last = ctor_applied_nonempty(h, hcx, hb, ht, lambda a, k=k: is_param(h, a, k + 1), depth + 1)
                    if not ok:
                        return False, last
            # the parameter is not stored / captured / returned: besides calls and whole-local copies nothing mentions it
            for i, si, s_ in h.assigns():
                rv = s_["rv"]
                if rv["k"] in ("agg", "ref", "rawptr", "cast") and any(is_param(h, o, k + 1) for o in (rv.get("fields") or []) + ([{"k": "copy", "place": rv["place"]}] if "place" in rv else []) + ([rv["a"]] if "a" in rv else [])):
                    return False, None
        return True, last

    n = 0
    for b in prog.bodies:
        if not b.file.endswith("decoder.rs"):
            continue
        cx = _closure_cx(prog, TT, b) if b.kind == "Closure" else None
        # (1) Raw(bytes) written as an aggregate
        for i, si, s in b.assigns():
            rv = s["rv"]
            if rv["k"] == "agg" and rv.get("variant") == "Raw" and rv.get("adt") in RAW_ADTS and rv["fields"]:
                n += 1
                ok, payload = guarded_nonempty(b, cx, rv["fields"][0], i)
                ctx.instance("RAW-NONEMPTY", {"fn": b.path, "adt": rv["adt"], "bytes": term_text(payload, 80), "guarded": ok})
                if not ok:
                    ctx.violation("RAW-NONEMPTY", b.path, rv["adt"].split("::")[-1], "a Raw item is constructed without the `!reject.is_empty()` guard: empty raw events could be emitted", sites=["%s:%d" % (b.file, s["line"])])
        # (2) the constructor applied through Option::map: `bytes_opt.map(TerminalEvent::Raw)` - bytes_opt must be Some only of non-empty bytes
        for bb, t in b.calls():
            ctor = [a for a in t["args"] if a["k"] == "const" and "fn" in a["c"] and re.fullmatch(r"terminal::(TerminalEvent|TerminalCommand)::Raw", a["c"]["fn"].get("path") or "")]
            if not ctor:
                continue
            n += 1
            adt = ctor[0]["c"]["fn"]["path"].rsplit("::", 1)[0]
            ok, src_term = ctor_applied_nonempty(b, cx, bb, t, lambda a: any(a is c_ for c_ in ctor))
            form = "Option::map(ctor)" if call_matches(t, r"Option::<T>::map$") else "ctor handed to %s" % _last_seg(callee_name(t) or "?")
            ctx.instance("RAW-NONEMPTY", {"fn": b.path, "adt": adt, "bytes": term_text(src_term, 80) if src_term else None, "guarded": ok, "form": form})
            if not ok:
                ctx.violation("RAW-NONEMPTY", b.path, adt.split("::")[-1], "a Raw item is built from bytes that are not known to be non-empty (constructor applied to %s)" % (term_text(src_term, 80) if src_term else "?"),
                              sites=["%s:%d" % (b.file, t["line"])])
    if n == 0:
        ctx.anchor("RAW-NONEMPTY", "Raw-constructions")


def nonempty_value(cond, x):
    """the switch value ("0"/"1") of boolean term `cond` on which the container term x is known to be non-empty; None if cond says nothing about it"""
    neg = False
    while cond[0] == "un" and cond[1] == "Not":
        cond, neg = cond[2], not neg
    res = None
    if cond == ("call", "is_empty", (x,)):
        res = "0"
    elif cond[0] == "bin":
        op, a, c = cond[1], cond[2], cond[3]
        ln = ("call", "len", (x,))
        k = lambda t: int(t[1]) if t[0] == "c" and re.fullmatch(r"\d+", t[1]) else None
        if a == ln and k(c) is not None:
            res = {("Eq", 0): "0", ("Ne", 0): "1", ("Gt", 0): "1", ("Ge", 1): "1", ("Lt", 1): "0", ("Le", 0): "0"}.get((op, k(c)))
        elif c == ln and k(a) is not None:
            res = {("Eq", 0): "0", ("Ne", 0): "1", ("Lt", 0): "1", ("Le", 1): "1", ("Gt", 1): "0", ("Ge", 0): "0"}.get((op, k(a)))
    if res is None:
        return None
    return res if not neg else ("1" if res == "0" else "0")


def _closure_cx(prog, TT, cb):
    """term context of a closure body: captures as terms of the body that creates it"""
    parent = prog.body(cb.j.get("closure_parent") or "")
    if parent is None:
        return {"caps": (), "params": {}}
    pcx = _closure_cx(prog, TT, parent) if parent.kind == "Closure" else None
    for i, si, s in parent.assigns():
        rv = s["rv"]
        if rv["k"] == "agg" and rv.get("ak") == "closure" and rv.get("def") == cb.path:
            return {"caps": tuple(TT.of(parent, f, pcx) for f in rv["fields"]), "params": {}}
    return {"caps": (), "params": {}}


def _holds_local(g, operand, k, depth=0):
    """operand holds the value of local k of body g, through whole-local copies/moves"""
    l = op_local(operand)
    if l is None or depth > 8 or operand.get("place", {}).get("p"):
        return False
    if l == k:
        return True
    ds = g.defs_of(l)
    return len(ds) == 1 and ds[0][1] != "term" and ds[0][2]["k"] == "use" and _holds_local(g, ds[0][2]["a"], k, depth + 1)


def _mentions(body, l):
    """number of places in the body (statements and terminators, storage markers excluded) whose base is local l"""
    n = 0

    def walk(x):
        nonlocal n
        if isinstance(x, dict):
            if "l" in x and "p" in x and x["l"] == l:
                n += 1
            for k, v in x.items():
                if k == "p" and "l" in x:
                    # index projections mention other locals
                    for e in v:
                        if isinstance(e, dict) and e.get("k") == "index" and e.get("l") == l:
                            n += 1
                    continue
                walk(v)
        elif isinstance(x, list):
            for v in x:
                walk(v)
    for blk in body.blocks:
        for st in blk["stmts"]:
            if st.get("k") == "assign":
                walk(st)
        walk(blk["term"])
    return n


def rv_text(body, s):
    rv = s["rv"]
    if rv["k"] == "use":
        return expr(body, rv["a"])
    if rv["k"] == "bin":
        return "%s(%s, %s)" % (rv["op"].replace("WithOverflow", ""), expr(body, rv["a"]), expr(body, rv["b"]))
    return rv["k"]


def _same_vec(body, matchers_operand, iter_call):
    """the slice iterated by `.iter()` derives from the same Vec local that is stored in `matchers`"""
    ml = op_local(matchers_operand)
    og = origins(body, iter_call["args"][0])
    mo = origins(body, matchers_operand)
    return bool(og & mo) or any(o[0] == "place" and ("_%d" % ml) in o[1] for o in og)
