"""Small intra-procedural dataflow helpers on MIR bodies (single-definition chasing)."""
from .mir import place_str, op_place, op_local, callee_names, call_matches
import re

TRANSPARENT_CALLS = [
    r"^std::ops::Try::branch$", r"^<.* as std::ops::Try>::branch$",
    r"^std::convert::From::from$", r"^<T as std::convert::From<T>>::from$",
    r"^std::convert::Into::into$", r"^<T as std::convert::Into<U>>::into$",
    r"^std::ops::Deref::deref$", r"^std::ops::DerefMut::deref_mut$",
    r"^std::borrow::Borrow::borrow$", r"^std::convert::AsRef::as_ref$", r"^std::convert::AsMut::as_mut$",
    r"^<&mut .* as std::ops::DerefMut>::deref_mut$", r"^<&.* as std::ops::Deref>::deref$",
]


VALUE_TRANSPARENT = [
    r"^std::option::Option::<T>::(unwrap|expect|unwrap_unchecked)$",
    r"^std::result::Result::<T, E>::(unwrap|expect)$",
    r"VecDeque::<T, A>::(back_mut|front_mut|back|front|get|get_mut)$",
]


def single_def(body, l):
    ds = body.defs_of(l)
    if len(ds) == 1:
        return ds[0]
    return None


def resolve_place(body, place, depth=0):
    """Normalise a place expression by substituting reference temporaries:
       (*_5).x  with _5 = &mut (*_1).q      ->  (*_1).q.x
       (*_5).x  with _5 = copy _3 (a ref)   ->  resolve((*_3).x)
       (*_5)    with _5 = deref_mut(_4)/from(_4)/unwrap(_4).. (transparent) -> resolve(*_4)
    A bare local (no projection) is never rewritten: it is a value of its own."""
    l = place["l"]
    proj = place["p"]
    if depth > 16 or not proj or proj[0]["k"] != "deref":
        # try to rewrite a field-of-local when the local itself is a single `use` of a place (move of a struct)
        return place_str(place)
    if 0 < l <= body.arg_count:
        return place_str(place)
    d = single_def(body, l)
    if d is None:
        return place_str(place)
    bb, si, rv = d
    rest = proj[1:]
    if si == "term":
        if any(call_matches(rv, p) for p in TRANSPARENT_CALLS + VALUE_TRANSPARENT) and rv["args"]:
            ap = op_place(rv["args"][0])
            if ap is not None:
                # the result points into whatever the argument points to
                base = resolve_place(body, {"l": ap["l"], "p": ap["p"] + [{"k": "deref"}]}, depth + 1)
                return _apply("<%s of %s>" % (callee_short(rv), base), rest) if not _is_identity(rv) else _apply(base, rest)
        return place_str(place)
    if rv["k"] in ("ref", "rawptr"):
        base = resolve_place(body, rv["place"], depth + 1)
        return _apply(base, rest)
    if rv["k"] == "use" or (rv["k"] == "cast" and rv["ck"].startswith("PointerCoercion")):
        ap = op_place(rv["a"])
        if ap is not None:
            return resolve_place(body, {"l": ap["l"], "p": ap["p"] + proj}, depth + 1)
    return place_str(place)


def callee_short(t):
    n = t["fn"].get("resolved") or t["fn"].get("path") or "?"
    return n.split("::")[-1]


def _is_identity(t):
    return any(call_matches(t, p) for p in TRANSPARENT_CALLS)


def _apply(base, proj):
    s = base
    for e in proj:
        k = e["k"]
        if k == "deref":
            s = "(*%s)" % s
        elif k == "field":
            s += "." + e["name"]
        elif k == "index":
            s += "[_%d]" % e["l"]
        elif k == "downcast":
            s = "(%s as %s)" % (s, e["variant"])
        else:
            s += "<%s>" % k
    return s


def arg_place(body, t, i):
    """normalised place string that the i-th call argument (a reference) points to"""
    a = t["args"][i]
    p = op_place(a)
    if p is None:
        return None
    return resolve_place(body, {"l": p["l"], "p": p["p"] + [{"k": "deref"}]})


def origins(body, operand, depth=0, seen=None, through=None):
    """Set of origin descriptors for an operand value, following copies/moves, `?`, enum payload
    projections and transparent conversions.  Descriptors:
       ('const', text) ('arg', n) ('call', bb, name) ('rv', bb, kind) ('place', str)"""
    if seen is None:
        seen = set()
    if operand["k"] == "const":
        c = operand["c"]
        return {("const", c.get("int", c.get("text")))}
    p = operand["place"]
    l = p["l"]
    key = (l,)
    if key in seen or depth > 30:
        return {("place", place_str(p))}
    seen = seen | {key}
    if 0 < l <= body.arg_count:
        return {("arg", l)}
    ds = body.defs_of(l)
    if not ds:
        # assigned only through projections (aggregate built field-wise) or never
        return {("place", place_str(p))}
    out = set()
    for bb, si, rv in ds:
        if si == "term":
            if any(call_matches(rv, pat) for pat in TRANSPARENT_CALLS + (through or [])) and rv["args"]:
                out |= origins(body, rv["args"][0], depth + 1, seen, through)
            else:
                out.add(("call", bb, (rv["fn"].get("resolved") or rv["fn"].get("path") or "<indirect>")))
        elif rv["k"] == "use":
            out |= origins(body, rv["a"], depth + 1, seen, through)
        elif rv["k"] == "ref":
            rp = rv["place"]
            if (not rp["p"] or rp["p"][0]["k"] == "deref") and not (0 < rp["l"] <= body.arg_count):
                # reference to (a part of) what local rp.l points to: derived from that local
                out |= origins(body, {"k": "copy", "place": {"l": rp["l"], "p": []}}, depth + 1, seen, through)
            else:
                out.add(("place", resolve_place(body, rp)))
        elif rv["k"] == "cast":
            out |= origins(body, rv["a"], depth + 1, seen, through)
        elif rv["k"] == "agg" and rv["ak"] == "adt" and len(rv["fields"]) == 1:
            # Ok(x)/Some(x): payload carries the value
            out |= origins(body, rv["fields"][0], depth + 1, seen, through)
        else:
            out.add(("rv", bb, rv["k"] + ":" + rv.get("op", rv.get("ak", ""))))
    return out


def const_args(t):
    return [a["c"].get("int") if a["k"] == "const" else None for a in t["args"]]


def writes_to_field(body, field_path_regex):
    """(bb, si|'term', resolved place) for every assignment / call destination whose resolved place matches"""
    rx = re.compile(field_path_regex)
    out = []
    for i, b in enumerate(body.blocks):
        if b["cleanup"]:
            continue
        for si, s in enumerate(b["stmts"]):
            if s["k"] == "assign":
                rp = resolve_place(body, s["place"])
                if rx.search(rp):
                    out.append((i, si, rp, s))
        t = b["term"]
        if t["k"] == "call":
            rp = resolve_place(body, t["dest"])
            if rx.search(rp):
                out.append((i, "term", rp, t))
    return out


def mut_borrows_of(body, field_path_regex):
    """blocks where a &mut to a matching place is created"""
    rx = re.compile(field_path_regex)
    out = []
    for i, si, s in body.assigns():
        rv = s["rv"]
        if rv["k"] == "ref" and rv["mut"]:
            rp = resolve_place(body, rv["place"])
            if rx.search(rp):
                out.append((i, si, rp))
    return out


# ---- constant enum values behind references (incl. promoted constants) -------------------------
def _promoted_index(c):
    m = re.search(r"promoted\[(\d+)\]", c.get("text", "") or "")
    return int(m.group(1)) if (m and c.get("promoted")) else None


def promoted_aggs(body, k):
    """all aggregate / constant-use rvalues inside promoted constant k of the body"""
    out = []
    pr = body.j.get("promoted", [])
    if k is None or k >= len(pr):
        return out
    for blk in pr[k]["blocks"]:
        for s in blk["stmts"]:
            if s["k"] == "assign":
                rv = s["rv"]
                if rv["k"] == "agg":
                    out.append(rv)
                elif rv["k"] == "use" and rv["a"]["k"] == "const":
                    out.append({"k": "const", "c": rv["a"]["c"]})
    return out


def value_variants(body, operand, depth=0):
    """Set of 'Adt::Variant' names of enum aggregates the operand's value is (or points to, or
    wraps: Some(&Damaged) yields both Option::Some and CellMark::Damaged); also ('int', n) consts."""
    out = set()
    if depth > 10:
        return out
    if operand["k"] == "const":
        c = operand["c"]
        k = _promoted_index(c)
        if k is not None:
            for rv in promoted_aggs(body, k):
                if rv["k"] == "agg" and rv["ak"] == "adt":
                    out.add("%s::%s" % (rv["adt"], rv["variant"]))
                elif rv["k"] == "const" and "int" in rv["c"]:
                    out.add(("int", int(rv["c"]["int"])))
        elif "int" in c:
            out.add(("int", int(c["int"])))
        return out
    p = operand["place"]
    l = p["l"]
    ds = body.defs_of(l)
    for bb, si, rv in ds:
        if si == "term":
            continue
        if rv["k"] == "agg" and rv["ak"] == "adt":
            out.add("%s::%s" % (rv["adt"], rv["variant"]))
            for f in rv["fields"]:
                out |= value_variants(body, f, depth + 1)
        elif rv["k"] in ("use", "cast"):
            out |= value_variants(body, rv["a"], depth + 1)
        elif rv["k"] == "ref":
            out |= value_variants(body, {"k": "copy", "place": {"l": rv["place"]["l"], "p": []}}, depth + 1)
    return out


def ok_return_blocks(body):
    """blocks that assign `_0 = Result::Ok(..)` / `Some(..)` (success exits)"""
    out = set()
    for i, si, s in body.assigns():
        if s["place"]["l"] == 0 and not s["place"]["p"] and s["rv"]["k"] == "agg" and s["rv"].get("variant") in ("Ok", "Some"):
            out.add(i)
    return out


def err_return_blocks(body):
    """blocks that produce an error/none return value: `_0 = Err(..)`/from_residual(..)"""
    out = set()
    for i, b in enumerate(body.blocks):
        if b["cleanup"]:
            continue
        for s in b["stmts"]:
            if s["k"] == "assign" and s["place"]["l"] == 0 and not s["place"]["p"] and s["rv"]["k"] == "agg" and s["rv"].get("variant") in ("Err", "None"):
                out.add(i)
        t = b["term"]
        if t["k"] == "call" and t["dest"]["l"] == 0 and not t["dest"]["p"] and call_matches(t, r"FromResidual.*::from_residual$"):
            out.add(i)
    return out


def feasible_reach(body, start, stop=(), env=None, limit=20000):
    """Blocks reachable from `start` under a tiny constant propagation of integer/bool locals
    (assign const, copy, Not): at a switch on a local with a known value only the matching edge is
    followed.  `stop` blocks are not expanded.  Used to discard infeasible paths through
    `matches!`-style bool temporaries."""
    env = dict(env or {})
    seen = set()
    out = set()
    st = [(start, tuple(sorted(env.items())))]
    n = 0
    while st:
        bb, e = st.pop()
        if (bb, e) in seen:
            continue
        seen.add((bb, e))
        out.add(bb)
        n += 1
        if n > limit:
            return None
        if bb in stop and bb != start:
            continue
        env2 = dict(e)
        blk = body.blocks[bb]
        for s in blk["stmts"]:
            if s["k"] != "assign":
                continue
            pl = s["place"]
            if pl["p"]:
                continue
            l = pl["l"]
            rv = s["rv"]
            val = None
            if rv["k"] == "use":
                a = rv["a"]
                if a["k"] == "const" and "int" in a["c"]:
                    val = int(a["c"]["int"])
                elif a["k"] in ("copy", "move") and not a["place"]["p"]:
                    val = env2.get(a["place"]["l"])
            elif rv["k"] == "un" and rv["op"] == "Not":
                a = rv["a"]
                v = None
                if a["k"] == "const" and "int" in a["c"]:
                    v = int(a["c"]["int"])
                elif a["k"] in ("copy", "move") and not a["place"]["p"]:
                    v = env2.get(a["place"]["l"])
                if v is not None and body.local_ty(l) == "bool":
                    val = 0 if v else 1
            if val is None:
                env2.pop(l, None)
            else:
                env2[l] = val
        t = blk["term"]
        if t["k"] == "call" and not t["dest"]["p"]:
            env2.pop(t["dest"]["l"], None)
        succ = body.succs(bb)
        if t["k"] == "switch":
            dl = op_local(t["d"])
            if dl is not None and dl in env2:
                v = str(env2[dl])
                if v in t["vals"]:
                    succ = [t["targets"][t["vals"].index(v)]]
                else:
                    succ = [t["otherwise"]]
        e2 = tuple(sorted(env2.items()))
        for s2 in succ:
            st.append((s2, e2))
    return out


# ---- symbolic expression of a value (single-definition chasing into a canonical term string) ---------
def expr(body, operand, depth=0, _seen=None):
    """Canonical term for an operand: constants, argument places, field paths, binary ops, casts, calls
    (callee short name + argument terms), enum payload projections.  Temporaries with a single definition
    are expanded; anything else is left as its place string.  Robust to renaming and statement order."""
    if operand["k"] == "const":
        c = operand["c"]
        if "int" in c:
            return c["int"]
        if "fn" in c:
            return "fn:" + c["fn"]["path"]
        if c.get("static"):
            return "static:" + c["static"]
        return c.get("def") or c.get("text", "?")
    return place_expr(body, operand["place"], depth, _seen or frozenset())


def _proj_text(e):
    k = e["k"]
    if k == "field":
        return "." + e["name"]
    if k == "downcast":
        return "@" + e["variant"]
    if k == "deref":
        return ".*"
    if k == "index":
        return "[_%d]" % e["l"]
    if k == "cindex":
        return "[%s%d]" % ("-" if e["from_end"] else "", e["offset"])
    return "<%s>" % k


def place_expr(body, place, depth=0, seen=frozenset()):
    l = place["l"]
    proj = list(place["p"])
    if depth > 40 or l in seen:
        return place_str(place)
    if 0 < l <= body.arg_count:
        base = "arg%d" % l
        # deref of an argument reference is transparent
        return base + "".join(_proj_text(e) for e in proj if e["k"] != "deref")
    ds = body.defs_of(l)
    if len(ds) != 1:
        # multiple definitions (phi) or field-wise initialisation
        nm = body.varnames.get(l)
        base = "var:%s" % nm if nm else "_%d" % l
        return base + "".join(_proj_text(e) for e in proj if e["k"] != "deref")
    bb, si, rv = ds[0]
    seen = seen | {l}
    if si == "term":
        t = rv
        nm = callee_short(t)
        full = (t["fn"].get("resolved") or t["fn"].get("path") or "?")
        if any(call_matches(t, p) for p in TRANSPARENT_CALLS) and t["args"]:
            base = expr(body, t["args"][0], depth + 1, seen)
        else:
            base = "%s(%s)" % (_short_path(full), ", ".join(expr(body, a, depth + 1, seen) for a in t["args"]))
        return base + "".join(_proj_text(e) for e in proj if e["k"] != "deref")
    k = rv["k"]
    if k == "use":
        o = rv["a"]
        if o["k"] == "const":
            return expr(body, o, depth + 1, seen) + "".join(_proj_text(e) for e in proj if e["k"] != "deref")
        return place_expr(body, {"l": o["place"]["l"], "p": o["place"]["p"] + proj}, depth + 1, seen)
    if k in ("ref", "rawptr"):
        # &P followed by deref cancels; keep the rest
        p2 = rv["place"]
        rest = proj[1:] if proj and proj[0]["k"] == "deref" else proj
        return place_expr(body, {"l": p2["l"], "p": p2["p"] + rest}, depth + 1, seen)
    if k == "agg":
        # descend into the selected field when the projection names one
        pr = [e for e in proj if e["k"] != "deref"]
        if rv["ak"] in ("tuple", "adt", "closure"):
            # downcast@Variant then field
            idx = 0
            if pr and pr[0]["k"] == "downcast":
                if rv["ak"] == "adt" and rv.get("variant") == pr[0]["variant"]:
                    idx = 1
                else:
                    return "%s%s" % (_agg_text(body, rv, depth, seen), "".join(_proj_text(e) for e in pr))
            if len(pr) > idx and pr[idx]["k"] == "field":
                fi = pr[idx]["i"]
                if fi < len(rv["fields"]):
                    o = rv["fields"][fi]
                    rest = pr[idx + 1:]
                    if o["k"] == "const":
                        return expr(body, o, depth + 1, seen) + "".join(_proj_text(e) for e in rest)
                    return place_expr(body, {"l": o["place"]["l"], "p": o["place"]["p"] + rest}, depth + 1, seen)
        return _agg_text(body, rv, depth, seen) + "".join(_proj_text(e) for e in pr)
    if k == "bin":
        op = rv["op"].replace("WithOverflow", "")
        base = "%s(%s, %s)" % (op, expr(body, rv["a"], depth + 1, seen), expr(body, rv["b"], depth + 1, seen))
        pr = [e for e in proj if not (e["k"] == "field" and e["name"] == "0")]
        return base + "".join(_proj_text(e) for e in pr if e["k"] != "deref")
    if k == "un":
        return "%s(%s)" % (rv["op"], expr(body, rv["a"], depth + 1, seen))
    if k == "cast":
        if rv["ck"] == "IntToInt" or rv["ck"].startswith("PointerCoercion"):
            return "(%s as %s)" % (expr(body, rv["a"], depth + 1, seen), rv["ty"]) if rv["ck"] == "IntToInt" else expr(body, rv["a"], depth + 1, seen)
        return "cast:%s(%s)" % (rv["ck"], expr(body, rv["a"], depth + 1, seen))
    if k == "discr":
        return "discr(%s)" % place_expr(body, rv["place"], depth + 1, seen)
    return "_%d" % l + "".join(_proj_text(e) for e in proj)


def _short_path(p):
    m = re.match(r"^<(.*) as ([^<>]*?)(<.*>)?>::(\w+)$", p)
    if m:
        tr = m.group(2).split("::")[-1]
        return "%s::%s" % (tr, m.group(4))
    p = re.sub(r"<[^<>]*>", "", p)
    p = re.sub(r"<[^<>]*>", "", p)
    parts = [x for x in p.split("::") if x]
    return "::".join(parts[-2:]) if len(parts) >= 2 else p


def _agg_text(body, rv, depth, seen):
    fs = ", ".join(expr(body, f, depth + 1, seen) for f in rv["fields"])
    if rv["ak"] == "adt":
        nm = rv["adt"].split("::")[-1]
        if rv["is_enum"]:
            nm += "::" + rv["variant"]
        if rv["fnames"] and not rv["fnames"][0].isdigit():
            fs = ", ".join("%s: %s" % (n, expr(body, f, depth + 1, seen)) for n, f in zip(rv["fnames"], rv["fields"]))
            return "%s{%s}" % (nm, fs)
        return "%s(%s)" % (nm, fs)
    if rv["ak"] == "closure":
        return "closure:%s[%s]" % (rv["def"].split("::")[-1], fs)
    return "%s(%s)" % (rv["ak"], fs)
