//! Compile-fail witnesses (type-level remainder of C07): an immutable view or an `Image` offers no way to obtain a
//! mutable reference to shared cells. Each witness is paired with a compiling twin that differs only by the
//! offending line, so a witness cannot "pass" merely because a path is wrong.
//! Run by `./check C07 --tier thorough` through `cargo +nightly test --doc --offline`.

/// twin: a mutable view has `get_mut`
/// ```no_run
/// use surf_n_term::{Position, Size, SurfaceMut, SurfaceOwned};
/// let mut surf: SurfaceOwned<u8> = SurfaceOwned::new(Size::new(2, 2));
/// let mut view = surf.view_mut(.., ..);
/// assert!(view.get_mut(Position::new(0, 0)).is_some());
/// ```
///
/// witness: an immutable view has no `get_mut`
/// ```compile_fail,E0599
/// use surf_n_term::{Position, Size, Surface, SurfaceMut, SurfaceOwned};
/// let surf: SurfaceOwned<u8> = SurfaceOwned::new(Size::new(2, 2));
/// let view = surf.view(.., ..);
/// assert!(view.get_mut(Position::new(0, 0)).is_some());
/// ```
pub struct ImmutableViewHasNoGetMut;

/// twin: a mutable view has `iter_mut`
/// ```no_run
/// use surf_n_term::{Size, SurfaceMut, SurfaceOwned};
/// let mut surf: SurfaceOwned<u8> = SurfaceOwned::new(Size::new(2, 2));
/// let mut view = surf.view_mut(.., ..);
/// assert_eq!(view.iter_mut().count(), 4);
/// ```
///
/// witness: an immutable view has no `iter_mut`
/// ```compile_fail,E0599
/// use surf_n_term::{Size, Surface, SurfaceMut, SurfaceOwned};
/// let surf: SurfaceOwned<u8> = SurfaceOwned::new(Size::new(2, 2));
/// let view = surf.view(.., ..);
/// assert_eq!(view.iter_mut().count(), 4);
/// ```
pub struct ImmutableViewHasNoIterMut;

/// twin: an image can be read through `Surface`
/// ```no_run
/// use surf_n_term::{Image, Position, Size, Surface, SurfaceOwned, RGBA};
/// let img = Image::new(SurfaceOwned::<RGBA>::new(Size::new(1, 1)));
/// assert!(img.get(Position::new(0, 0)).is_some());
/// ```
///
/// witness: an image (shared `Arc` data) cannot be mutated through `SurfaceMut`
/// ```compile_fail,E0599
/// use surf_n_term::{Image, Position, Size, Surface, SurfaceMut, SurfaceOwned, RGBA};
/// let mut img = Image::new(SurfaceOwned::<RGBA>::new(Size::new(1, 1)));
/// assert!(img.get_mut(Position::new(0, 0)).is_some());
/// ```
pub struct ImageIsImmutable;

/// twin: two disjoint mutable views cannot coexist, but sequential ones can
/// ```no_run
/// use surf_n_term::{Size, SurfaceMut, SurfaceOwned};
/// let mut surf: SurfaceOwned<u8> = SurfaceOwned::new(Size::new(2, 2));
/// { let mut a = surf.view_mut(0..1, ..); a.fill(1); }
/// { let mut b = surf.view_mut(1..2, ..); b.fill(2); }
/// ```
///
/// witness: two live mutable views of one surface are rejected by the borrow checker
/// ```compile_fail,E0499
/// use surf_n_term::{Size, SurfaceMut, SurfaceOwned};
/// let mut surf: SurfaceOwned<u8> = SurfaceOwned::new(Size::new(2, 2));
/// let mut a = surf.view_mut(0..1, ..);
/// let mut b = surf.view_mut(0..1, ..);
/// a.fill(1);
/// b.fill(2);
/// ```
pub struct NoTwoLiveMutableViews;
