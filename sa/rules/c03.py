"""C03 — decoded events do not depend on read boundaries (fold theorem hypotheses) and the
structural clauses of the longest-match rule (LIFO re-scheduling, tag order, overlap set)."""
import itertools
import re
from ..mir import call_matches, callee_name, op_local, op_const_int
from ..flow import expr, place_expr, resolve_place, origins, arg_place
from .. import grammar, regex

CLAIM = {
    "text": "Read-boundary independence decided through the hypotheses of a fold theorem, each checked on MIR for both byte decoders: single "
            "fill_buf, in-order iteration of its slice, exactly one step per byte fed with that byte, a counter incremented once per byte before "
            "the step, consume(count) on every exit, re-scheduled bytes drained first through the same step, no clock/env/random/IO input in the "
            "step's reach. Structural clauses of longest-match: LIFO re-scheduling (pop / drain(size..).rev() / push+pop pairing), minimum-tag "
            "selection with Item < Matcher, and the set of overlapping grammars (regular-language intersection) equal to the documented one. "
            "Which candidate is kept and the push-back arithmetic are not decided.",
    "technique": "MIR CFG rules (dominators, must-pass, once-per-iteration), call-graph effect scan, symbolic def-chasing templates, DFA intersection on extracted grammars",
    "design_ref": "DESIGN.md §5 C03, §11",
}

FORBIDDEN_INPUTS = r"^(std::time::|std::env::|std::process::|std::thread::|std::fs::|std::net::|rand|getrandom|libc::|rustix::|std::io::stdin|std::sync::atomic|std::cell::)"
ALLOWED_STATICS = {"decoder::UTF8DFA", "decoder::TTY_EVENT_AUTOMATA", "decoder::TTY_COMMAND_AUTOMATA"}

DECODERS = [
    # (body path, step callee regex or None for inline step, has pending queue)
    ("<decoder::MatcherDecoder<T> as decoder::Decoder>::decode", r"^decoder::MatcherDecoder::<T>::decode_byte$", True),
    ("<decoder::Utf8Decoder as decoder::Decoder>::decode", r"^automata::DFA::<T>::transition$", False),
]


def some_edge(body, bb, t):
    nxt = t["t"]
    blk = body.blocks[nxt]
    tt = blk["term"]
    if tt["k"] == "switch":
        for v, tg in zip(tt["vals"], tt["targets"]):
            if v == "1":
                return nxt, tg, (tt["targets"][tt["vals"].index("0")] if "0" in tt["vals"] else tt["otherwise"])
        if tt["vals"] == ["0"]:
            return nxt, tt["otherwise"], tt["targets"][0]
    return None


def run(ctx):
    prog, src = ctx.prog, ctx.src
    ctx.explanation = (
        "Read-boundary independence is decided through the hypotheses of a fold theorem (DESIGN §11): each decoder obtains bytes only from one "
        "fill_buf() call, hands every byte of that buffer to one deterministic step exactly once and in order, counts them (one increment per "
        "iteration, before the step) and calls consume(count) on every exit, drains re-scheduled bytes before reading, keeps all surviving state in "
        "`self`, and the step reaches no clock/env/random/IO input (effect scan of its call-graph reach). Structural clauses of the longest-match "
        "rule: re-scheduled bytes are consumed LIFO with pop() and every bulk re-schedule goes through drain(size..).rev(); the current byte is "
        "re-scheduled only together with removing it from the buffer; MatcherTag orders Item before Matcher and the decoder takes the minimum tag; "
        "the set of overlapping grammars equals the documented one (modified F3 vs cursor report), resolved towards the key table. NOT decided: that "
        "the kept candidate is the longest one, and the push-back arithmetic (value-level).")

    # ---------------- FOLD --------------------------------------------------------------------------------
    ctx.rule("FOLD", "fold-theorem hypotheses of the byte decoders (fill_buf once, one step per byte in order, counter, consume on every exit, pending first)", floor=10)
    for path, step_rx, pending in DECODERS:
        b = prog.body(path)
        if b is None:
            ctx.anchor("FOLD", path)
            continue
        cfg = b.cfg()
        loops = cfg.loops()
        fb = [(bb, t) for bb, t in b.calls() if call_matches(t, r"^std::io::BufRead::fill_buf$")]
        ok = len(fb) == 1 and expr(b, fb[0][1]["args"][0]) == "arg2"
        ctx.instance("FOLD", {"fn": path, "hyp": "single fill_buf(input)", "ok": ok})
        if not ok:
            ctx.violation("FOLD", path, "fill_buf", "bytes must come from exactly one fill_buf() on the input argument (found %d)" % len(fb), sites=[b.loc])
            continue
        fbb, ft = fb[0]
        # iteration over that buffer
        nx = [(bb, t) for bb, t in b.calls() if call_matches(t, r"Iterator>::next$|Iterator::next$") and "BufRead::fill_buf(arg2)" in expr(b, t["args"][0])]
        okn = len(nx) == 1 and re.match(r"^IntoIterator::into_iter\(slice::iter\(BufRead::fill_buf\(arg2\)@Continue\.0\)\)$", expr(b, nx[0][1]["args"][0])) is not None
        ctx.instance("FOLD", {"fn": path, "hyp": "loop iterates fill_buf()'s slice front to back", "ok": okn, "iter": expr(b, nx[0][1]["args"][0])[:120] if nx else None})
        if not okn:
            ctx.violation("FOLD", path, "iteration", "the byte loop does not iterate the slice returned by fill_buf() in order (.iter())", sites=[b.loc])
            continue
        nbb, nt = nx[0]
        se = some_edge(b, nbb, nt)
        head = None
        for h, body_ in loops.items():
            if nbb in body_ and (head is None or len(body_) < len(loops[head])):
                head = h
        if se is None or head is None:
            ctx.anchor("FOLD", path + "/loop")
            continue
        sw, some_t, none_t = se
        # step calls
        steps = [(bb, t) for bb, t in b.calls() if call_matches(t, step_rx) and bb in loops[head]]
        byte_ok = bool(steps) and all(any("Iterator::next(" in expr(b, a) and "@Some.0" in expr(b, a) for a in t["args"]) for bb, t in steps)
        one_step = len(steps) == 1 and cfg.must_pass([steps[0][0]], start=some_t, exits=[head] + cfg.returns)[0]
        ctx.instance("FOLD", {"fn": path, "hyp": "exactly one step per byte, fed with the loop's byte", "ok": byte_ok and one_step, "steps": len(steps)})
        if not (byte_ok and one_step):
            ctx.violation("FOLD", path, "step", "each byte of the buffer must be handed to the step function exactly once (found %d step calls in the loop, byte argument ok=%s)" % (len(steps), byte_ok), sites=[b.loc])
        # counter
        cons = [(bb, t) for bb, t in b.calls() if call_matches(t, r"^std::io::BufRead::consume$")]
        cl = None
        for bb, t in cons:
            l = op_local(t["args"][1])
            src_l = l
            # chase copies to the user variable
            seen = set()
            while src_l is not None and src_l not in seen:
                seen.add(src_l)
                ds = b.defs_of(src_l)
                if len(ds) == 1 and ds[0][1] != "term" and ds[0][2]["k"] == "use" and op_local(ds[0][2]["a"]) is not None:
                    src_l = op_local(ds[0][2]["a"])
                else:
                    break
            cl = src_l if cl is None or cl == src_l else -1
        okc = bool(cons) and cl not in (None, -1)
        incs = []
        inits = []
        if okc:
            for i, si, s in b.assigns():
                if s["place"]["l"] == cl and not s["place"]["p"]:
                    rv = s["rv"]
                    if rv["k"] == "use" and op_const_int(rv["a"]) == 0:
                        inits.append(i)
                    else:
                        e = expr(b, rv["a"]) if rv["k"] == "use" else rv["k"]
                        nm = b.varnames.get(cl, "_%d" % cl)
                        if e in ("Add(var:%s, 1)" % nm, "Add(_%d, 1)" % cl):
                            incs.append(i)
                        else:
                            okc = False
            okc = okc and len(incs) == 1 and len(inits) == 1 and cfg.dominates(inits[0], head)
            if okc and steps:
                # the increment lies on the Some edge and precedes the step on every path
                okc = cfg.edge_dominates(sw, some_t, incs[0]) and cfg.must_pass(incs, start=some_t, exits=[steps[0][0]])[0]
        ctx.instance("FOLD", {"fn": path, "hyp": "counter = 0 before the loop, += 1 once per byte before the step", "ok": okc})
        if not okc:
            ctx.violation("FOLD", path, "counter", "the consumed-byte counter is not incremented exactly once per byte handed to the step", sites=[b.loc])
        # consume on every exit after a successful fill_buf
        fb_ok_edge = None
        tb = b.blocks[ft["t"]]["term"]          # Try::branch
        if tb["k"] == "call":
            se2 = b.blocks[tb["t"]]["term"]
            if se2["k"] == "switch" and "0" in se2["vals"]:
                fb_ok_edge = se2["targets"][se2["vals"].index("0")]
        okx = False
        if fb_ok_edge is not None and cons:
            okx, wit = cfg.must_pass([bb for bb, t in cons], start=fb_ok_edge)
            okx = okx and all(expr(b, t["args"][0]) == "arg2" for bb, t in cons)
        ctx.instance("FOLD", {"fn": path, "hyp": "consume(count) on every exit after fill_buf succeeded", "ok": okx, "consume_sites": len(cons)})
        if not okx:
            ctx.violation("FOLD", path, "consume", "an exit path after fill_buf() does not call input.consume(count): bytes would be decoded twice or lost across reads", sites=[b.loc])
        # no consume before the loop finished handing over bytes: consume must not be followed by another step
        for bb, t in cons:
            after = cfg.reachable_from(bb)
            if any(sb in after and sb != bb for sb, _ in steps):
                ctx.violation("FOLD", path, "consume-then-step", "a step call is reachable after consume(): the count no longer matches the bytes handed over", sites=["%s:%d" % (b.file, t["line"])])
        if pending:
            pops = [(bb, t) for bb, t in b.calls() if call_matches(t, r"smallvec::SmallVec::<A>::pop$") and expr(b, t["args"][0]) == "arg1.rescheduled"]
            okp = False
            if len(pops) == 1:
                pe = some_edge(b, pops[0][0], pops[0][1])
                if pe:
                    psw, psome, pnone = pe
                    okp = cfg.edge_dominates(psw, pnone, fbb)
                    # and the popped byte goes to the same step
                    pst = [(bb, t) for bb, t in b.calls() if call_matches(t, step_rx) and "SmallVec::pop(arg1.rescheduled)@Some.0" in expr(b, t["args"][1])]
                    okp = okp and len(pst) == 1
            ctx.instance("FOLD", {"fn": path, "hyp": "re-scheduled bytes are drained (through the same step) before reading input", "ok": okp})
            if not okp:
                ctx.violation("FOLD", path, "pending-first", "input is read before the re-scheduled bytes are exhausted (or they bypass the step function)", sites=[b.loc])

    # effect scan of the step functions
    ctx.rule("STEP-PURE", "the step functions reach no clock/env/random/IO input and no mutable static", floor=2)
    cg = prog.callgraph()
    for entry in ("decoder::MatcherDecoder::<T>::decode_byte", "<decoder::Utf8Decoder as decoder::Decoder>::decode"):
        if prog.body(entry) is None:
            ctx.anchor("STEP-PURE", entry)
            continue
        dyn, init = cg.reach_split([entry])
        bad = []
        statics = set()
        for p in dyn:
            for callee in cg.ext.get(p, ()):
                if re.search(FORBIDDEN_INPUTS, callee):
                    bad.append((p, callee))
            statics |= cg.static_edges.get(p, set())
        extra_st = sorted(s for s in statics if s not in ALLOWED_STATICS)
        ctx.instance("STEP-PURE", {"entry": entry, "bodies": len(dyn), "forbidden_calls": bad[:5], "statics": sorted(statics)})
        for p, callee in bad:
            ctx.violation("STEP-PURE", p, callee.split("::")[-1], "the decoder step reaches %s: its output would depend on more than the byte stream" % callee, sites=[])
        for s in extra_st:
            ctx.violation("STEP-PURE", entry, "static-" + s.split("::")[-1], "the decoder step reads static %s (only the compiled automata are allowed)" % s, sites=[])

    # ---------------- LIFO ------------------------------------------------------------------------------------
    ctx.rule("LIFO", "rescheduled: consumed by pop(); filled by extend(buffer.drain(size..).rev()) or push(byte)+buffer.pop()", floor=3)
    users = {}
    for b in prog.bodies:
        if not (b.path.startswith("decoder::MatcherDecoder") or b.path.startswith("<decoder::MatcherDecoder")):
            continue
        up = {}
        if b.kind == "Closure":
            parent = prog.body(b.j.get("closure_parent") or "") or prog.body(b.closure_root)
            if parent is not None:
                for i, si, s in parent.assigns():
                    rv = s["rv"]
                    if rv["k"] == "agg" and rv["ak"] == "closure" and rv["def"] == b.path:
                        for k, f in enumerate(rv["fields"]):
                            up["arg1.%d" % k] = expr(parent, f)
        for bb, t in b.calls():
            if not t["args"]:
                continue
            e0 = expr(b, t["args"][0])
            e0 = up.get(e0, e0)
            if e0 == "arg1.rescheduled":
                users.setdefault(callee_name(t).split("::")[-1], []).append((b, bb, t, up))
    ctx.instance("LIFO", {"operations_on_rescheduled": {k: len(v) for k, v in users.items()}})
    allowed_ops = {"pop", "push", "extend", "default", "len", "is_empty"}
    for op, sites in users.items():
        if op not in allowed_ops:
            for b, bb, t, up in sites:
                ctx.violation("LIFO", b.path, op, "rescheduled is manipulated with %s (only pop / push / extend(..rev()) keep it a LIFO of bytes to re-read)" % op, sites=["%s:%d" % (b.file, t["line"])])
    if "pop" not in users:
        ctx.anchor("LIFO", "rescheduled.pop")
    for b, bb, t, up in users.get("extend", []):
        e1 = expr(b, t["args"][1])
        for k, v in up.items():
            e1 = e1.replace(k, v)
        ok = re.match(r"^Iterator::rev\(SmallVec::drain\(arg1\.buffer, RangeFrom\{start: (.*)\}\)\)$", e1) is not None
        ctx.instance("LIFO", {"fn": b.path, "extend_source": e1[:140], "reversed_drain_of_buffer_tail": ok})
        if not ok:
            ctx.violation("LIFO", b.path, "extend-not-reversed", "bytes after the candidate are re-scheduled without `.rev()` over buffer.drain(size..): pop() would replay them in the wrong order", sites=["%s:%d" % (b.file, t["line"])])
    if "extend" not in users:
        ctx.anchor("LIFO", "rescheduled.extend")
    for b, bb, t, up in users.get("push", []):
        cfg = b.cfg()
        pops = [pb for pb, pt in b.calls() if call_matches(pt, r"SmallVec::<A>::pop$") and up.get(expr(b, pt["args"][0]), expr(b, pt["args"][0])) == "arg1.buffer"]
        ok = bool(pops) and cfg.must_pass(pops, start=bb)[0]
        ctx.instance("LIFO", {"fn": b.path, "push_current_byte_then_buffer_pop": ok})
        if not ok:
            ctx.violation("LIFO", b.path, "push-without-pop", "the current byte is re-scheduled but stays in the buffer (it would be reported twice)", sites=["%s:%d" % (b.file, t["line"])])

    # ---------------- TAG ORDER ---------------------------------------------------------------------------------
    ctx.rule("TAGORDER", "MatcherTag: Item < Matcher by derive(Ord); decode_byte takes tags.iter().next(); overlap set equals the documented one", floor=3)
    ev = prog.enum_variants("decoder::MatcherTag")
    names = [n for n, d in ev] if ev else None
    has_ord = any(i["self"].startswith("decoder::MatcherTag") and i["trait"] == "std::cmp::Ord" for i in prog.impls)
    ord_body = prog.one(r"^<decoder::MatcherTag<T> as std::cmp::Ord>::cmp$")
    derived = ord_body is not None and all((t.get("expk") or "").startswith("derive:Ord") for bb, t in ord_body.calls())
    ok = names == ["Item", "Matcher"] and has_ord and derived
    ctx.instance("TAGORDER", {"variants": names, "derive_ord": has_ord and derived, "ok": ok})
    if not ok:
        ctx.violation("TAGORDER", "decoder::MatcherTag", "order", "MatcherTag must derive Ord with Item declared before Matcher (table keys win over parsed matchers, lower matcher index wins)", sites=[])
    db = prog.body("decoder::MatcherDecoder::<T>::decode_byte")
    if db is None:
        ctx.anchor("TAGORDER", "decode_byte")
    else:
        ex = [expr(db, t["args"][0]) for bb, t in db.calls() if call_matches(t, r"Option::<T>::expect$")]
        ok = any(re.match(r"^Iter::next\(BTreeSet::iter\(.*\.tags\)\)$|^Iterator::next\(BTreeSet::iter\(.*\.tags\)\)$", e) for e in ex)
        ctx.instance("TAGORDER", {"selected_tag": ex[:2], "is_minimum_of_btreeset": ok})
        if not ok:
            ctx.violation("TAGORDER", db.path, "min-tag", "the tag used to build the event is not the first (minimum) element of the state's tag set: %s" % ex[:2], sites=[db.loc])
    # ---------------- LONGEST MATCH -----------------------------------------------------------------------------
    ctx.rule("LONGEST", "decode_byte: every accepting state overwrites the candidate with (event, buffer.len()) — decodable or not — before returning; "
                        "a dead transition takes the candidate; take_candidate pushes back buffer[size..]", floor=3)
    if db is not None:
        dcfg = db.cfg()
        acc = [(bb, blk["term"]) for bb, blk in enumerate(db.blocks) if blk["term"]["k"] == "switch" and re.search(r"\.is_accepting$", expr(db, blk["term"]["d"]))]
        reps = [(bb, t) for bb, t in db.calls() if call_matches(t, r"Option::<T>::(replace|insert)$") and arg_place(db, t, 0) == "(*_1).item_candidate"]
        if len(acc) != 1 or not reps:
            ctx.violation("LONGEST", db.path, "candidate-not-recorded", "decode_byte does not record an accepting state as the new candidate", sites=[db.loc])
        else:
            abb, at = acc[0]
            yes = at["otherwise"] if at["vals"] == ["0"] else (at["targets"][at["vals"].index("1")] if "1" in at["vals"] else None)
            ok, wit = dcfg.must_pass([bb for bb, t in reps], start=yes, exits=dcfg.returns) if yes is not None else (False, None)
            ctx.instance("LONGEST", {"accepting_test_block": abb, "replace_blocks": [bb for bb, t in reps], "unconditional_on_accept": ok})
            if not ok:
                ctx.violation("LONGEST", db.path, "conditional-candidate", "an accepting state can be passed without replacing the candidate (path %s): a shorter, stale "
                              "candidate would be emitted instead of the longest match" % wit, sites=["%s:%d" % (db.file, reps[0][1]["line"])])
            for bb, t in reps:
                e = expr(db, t["args"][1])
                okv = bool(re.search(r", (SmallVec|Vec)::len\(arg1\.buffer\)\)$", e))
                ctx.instance("LONGEST", {"candidate_value": e[:160], "length_is_buffer_len": okv})
                if not okv:
                    ctx.violation("LONGEST", db.path, "candidate-length", "the candidate does not record the current buffer length: %s" % e[:160], sites=["%s:%d" % (db.file, t["line"])])
        # dead transition: take_candidate is consulted before giving up
        dead = [(bb, t) for bb, t in db.calls() if call_matches(t, r"MatcherDecoder::<T>::take_candidate$")]
        tr = [(bb, blk["term"]) for bb, blk in enumerate(db.blocks) if blk["term"]["k"] == "switch" and re.match(r"^discr\(DFA::transition\(", expr(db, blk["term"]["d"]))]
        okd = False
        if len(tr) == 1:
            tb, tt = tr[0]
            none_t = tt["targets"][tt["vals"].index("0")] if "0" in tt["vals"] else None
            okd = none_t is not None and any(dcfg.must_pass([bb], start=none_t, exits=dcfg.returns)[0] for bb, t in dead)
        ctx.instance("LONGEST", {"dead_transition_takes_candidate": okd})
        if not okd:
            ctx.violation("LONGEST", db.path, "dead-transition", "when no transition exists the pending candidate is not taken on every path", sites=[db.loc])
    try:
        gs = grammar.extract(src)
        evn = grammar.event_matcher_names(src)
        overlaps = []
        for a, c in itertools.combinations(evn, 2):
            w = regex.intersect_witness(gs[a].asbuilt_dfa, gs[c].asbuilt_dfa)
            if w is not None:
                overlaps.append((a, c, w))
        documented = {("BasicEventsMatcher", "CursorPositionMatcher")}
        got = {(a, c) for a, c, w in overlaps}
        ctx.instance("TAGORDER", {"overlapping_grammar_pairs": [(a, c, repr(w)) for a, c, w in overlaps], "documented": sorted(documented)})
        for a, c, w in overlaps:
            if (a, c) not in documented:
                ctx.violation("TAGORDER", "%s+%s" % (a, c), "undocumented-overlap", "grammars %s and %s both accept %r: the event produced depends only on registration order" % (a, c, w), sites=[])
            elif a != "BasicEventsMatcher":
                ctx.violation("TAGORDER", "%s+%s" % (a, c), "resolution", "documented overlap is not resolved towards the key table", sites=[])
        ccn = grammar.command_matcher_names(src)
        for a, c in itertools.combinations(ccn, 2):
            w = regex.intersect_witness(gs[a].asbuilt_dfa, gs[c].asbuilt_dfa)
            if w is not None:
                ctx.violation("TAGORDER", "%s+%s" % (a, c), "undocumented-overlap", "command grammars %s and %s both accept %r" % (a, c, w), sites=[])
    except Exception as e:
        ctx.anchor("TAGORDER", "grammar-extraction", str(e))
