"""C09 — text writing stays inside its surface, ignores chunking (structural part), shares one
layout routine between measuring and writing."""
import re
from ..mir import call_matches, callee_name, op_local
from ..flow import expr, resolve_place, arg_place, writes_to_field, TRANSPARENT_CALLS
from ..mir import op_place

CLAIM = {
    "text": "Structural clauses of C09 decided on MIR (bodies are read with small private single-caller helpers expanded in place, closures count for the "
            "function that builds them): (a) TerminalWriter touches the surface only through the bounds-checked get_mut(pos) and accesses to data_mut() "
            "indexed by shape.offset(Position::new(row, col)) with row drawn from a range ending at most at shape.height and col from a range ending at most "
            "at shape.width (containment, with C07's Shape lemma); "
            "(b) the three io::Write adapters feed the written buffer through one Cursor to a stateful decoder kept in `self`, forward every decoded "
            "item, and return cursor.position() (or buf.len() only where the sink reported it is full; 0 / buf.len() on an edge taken only when buf is empty is the same value; a write() whose decode / put_char steps live in the closures of a lazy iterator chain - from_fn, map, find / find_map / try_for_each / all / any, transpose, map_or_else ... - is decided on the same clauses by abstract execution over Ok/Err/Some/None shapes, anything not modelled stays a report) — with C03's fold theorem the produced cells "
            "do not depend on how bytes are split across writes; (c) measuring (Text/str layout) and writing (put_cell) call the same Cell::layout "
            "routine with wraps and width taken from corresponding sources; (c') WRAPS-AGREE: every put_cell reached from Text::render / str::render "
            "(followed through closures and helper bodies such as put_text/put_char) goes to a writer whose wraps flag - the constant of TerminalWriter::new, "
            "replaced by with_wraps/set_wraps - is the same term the paired layout hands to Cell::layout (self.wraps for Text, true for str); "
            "floor 6 = 4 anchors (new/writer default, with_wraps, TerminalWriter::set_wraps, Text::wraps) + 1 put_cell per render. NOT decided: that every printable cell appears exactly once in reading order.",
    "technique": "MIR who-calls / who-writes rules, symbolic def-chasing templates, dominator analysis of return values",
    "design_ref": "DESIGN.md §5 C09",
}

WRITERS = [
    ("<render::Utf8CellWriter<W> as std::io::Write>::write", r"^<decoder::Utf8Decoder as decoder::Decoder>::decode$", True),
    ("<render::TTYCellWriter<W> as std::io::Write>::write", r"^<decoder::TTYCommandDecoder as decoder::Decoder>::decode$", False),
    ("<render::TerminalWriter<'_> as std::io::Write>::write", r"^<decoder::Utf8Decoder as decoder::Decoder>::decode$", True),
]
# ---- wraps state of a writer value (WRAPS-AGREE) ---------------------------------------------------------------
# CellWrite methods that configure/inspect a writer but emit nothing
WR_CONFIG = r"CellWrite::(face|set_face|wraps|set_wraps|with_wraps|with_face|by_ref|scope)$|<.* as render::CellWrite>::(face|set_face|wraps|set_wraps)$"
# value builders that hand the same writer (or an adapter that owns it) on: the wraps state is the receiver's
WR_PASS = r"CellWrite::(with_(?!wraps$)\w+|utf8_writer|tty_writer)$"
WR_NEW = r"TerminalSurfaceExt>?::writer$|^render::TerminalWriter::<[^<>]*>::new$"
WR_LEAF = r"CellWrite::put_cell$|<.* as render::CellWrite>::put_cell$"
UNKNOWN = "?"


def _wr_root(b, place, depth=0):
    """root object a writer operand denotes: ('arg', n) / ('up', k) closure capture / ('call', local) / ('unk', local)"""
    l, proj = place["l"], place["p"]
    if depth > 30:
        return ("unk", l)
    fields = [e for e in proj if e["k"] == "field"]
    if 0 < l <= b.arg_count:
        if b.kind == "Closure" and l == 1 and fields:
            return ("up", fields[0]["i"]) if len(fields) == 1 else ("unk", l)
        return ("unk", l) if fields else ("arg", l)
    if fields:
        return ("unk", l)
    ds = b.defs_of(l)
    if len(ds) != 1:
        return ("unk", l)
    bb, si, rv = ds[0]
    if si == "term":
        if (any(call_matches(rv, p) for p in TRANSPARENT_CALLS) or call_matches(rv, r"CellWrite::by_ref$")) and rv["args"] and op_place(rv["args"][0]):
            return _wr_root(b, op_place(rv["args"][0]), depth + 1)
        return ("call", l)
    if rv["k"] == "use" and op_place(rv["a"]):
        return _wr_root(b, rv["a"]["place"], depth + 1)
    if rv["k"] == "ref":
        return _wr_root(b, rv["place"], depth + 1)
    return ("unk", l)


class WrapsFlow:
    """Follows writer values from an entry body through closures and callee bodies and records, for every
    put_cell reached, the canonical term of the wraps flag the receiving writer was configured with
    (terms are in the entry body's vocabulary: arg1 = the entry's self)."""

    def __init__(self, prog, default):
        self.prog = prog
        self.default = default
        self.leaves = []      # (state, chain, site)
        self.opaque = []

    # -- terms ---------------------------------------------------------------------------------
    def term(self, b, operand, tenv):
        e = expr(b, operand)
        if tenv is not None:
            def sub(m):
                k = m.group(0)
                if k in tenv:
                    return tenv[k]
                k1 = m.group(1)
                if k1 in tenv:
                    return tenv[k1] + (m.group(2) or "")
                return "~" + k
            e = re.sub(r"(?<![\w~])(arg\d+)(\.\d+)?\b", sub, e)
        # Text::wraps(x) reads x.wraps (checked as an anchor by the caller)
        for _ in range(4):
            e2 = re.sub(r"CellWrite::wraps\(([^()]*)\)", r"\1.wraps", e)
            if e2 == e:
                break
            e = e2
        return e

    # -- state ---------------------------------------------------------------------------------
    def state(self, b, place, site, env, tenv, depth=0):
        """wraps term of the writer `place` denotes at block `site`, None when it is not a tracked writer"""
        root = _wr_root(b, place)
        base = None
        if root[0] in ("arg", "up"):
            base = env.get(root)
        elif root[0] == "call" and depth < 12:
            bb, si, t = b.defs_of(root[1])[0]
            if call_matches(t, r"CellWrite::with_wraps$") and len(t["args"]) == 2:
                inner = op_place(t["args"][0])
                if inner is not None and self.state(b, inner, bb, env, tenv, depth + 1) is not None:
                    base = self.term(b, t["args"][1], tenv)
            elif call_matches(t, WR_NEW):
                base = self.default
            elif call_matches(t, WR_PASS) and t["args"] and op_place(t["args"][0]):
                base = self.state(b, op_place(t["args"][0]), bb, env, tenv, depth + 1)
        if base is None:
            return None
        # set_wraps on the same object: the latest call dominating the site decides
        cfg = b.cfg()
        sets = []
        for bb, t in b.calls():
            if call_matches(t, r"CellWrite::set_wraps$|<.* as render::CellWrite>::set_wraps$") and len(t["args"]) == 2 and op_place(t["args"][0]):
                if _wr_root(b, op_place(t["args"][0])) == root:
                    sets.append((bb, t))
        dom = [(bb, t) for bb, t in sets if bb != site and cfg.dominates(bb, site)]
        for bb, t in sets:
            if (bb, t) not in dom and bb != site and site in cfg.reachable_from(bb):
                return UNKNOWN
        if dom:
            last = [x for x in dom if all(cfg.dominates(y[0], x[0]) for y in dom)]
            if len(last) != 1:
                return UNKNOWN
            return self.term(b, last[0][1]["args"][1], tenv)
        return base

    # -- walk ----------------------------------------------------------------------------------
    def scan(self, b, env, tenv, chain=(), stack=()):
        if b.path in stack or len(stack) > 8:
            return
        stack = stack + (b.path,)
        chain = chain + (b.path,)
        # closures capturing a writer
        for i, si, s in b.assigns():
            rv = s["rv"]
            if rv["k"] == "agg" and rv["ak"] == "closure":
                cenv, ctenv = {}, {}
                for k, f in enumerate(rv["fields"]):
                    ctenv["arg1.%d" % k] = self.term(b, f, tenv)
                    fp = op_place(f)
                    if fp is not None:
                        st = self.state(b, fp, i, env, tenv)
                        if st is not None:
                            cenv[("up", k)] = st
                cb = self.prog.body(rv["def"])
                if cenv and cb is not None:
                    self.scan(cb, cenv, ctenv, chain, stack)
        for bb, t in b.calls():
            wargs = {}
            for k, a in enumerate(t["args"]):
                ap = op_place(a)
                if ap is None:
                    continue
                st = self.state(b, ap, bb, env, tenv)
                if st is not None:
                    wargs[k] = st
            if not wargs or call_matches(t, WR_CONFIG):
                continue
            nm = callee_name(t) or "<indirect>"
            site = "%s:%d" % (b.file, t["line"])
            if call_matches(t, WR_LEAF):
                if 0 in wargs:
                    self.leaves.append((wargs[0], chain, site))
                continue
            cb = self.prog.body(t["fn"].get("resolved") or "") or self.prog.body(t["fn"].get("path") or "")
            if cb is not None and cb.kind != "Closure":
                cenv = {("arg", k + 1): st for k, st in wargs.items()}
                ctenv = {"arg%d" % (k + 1): self.term(b, a, tenv) for k, a in enumerate(t["args"])}
                self.scan(cb, cenv, ctenv, chain, stack)
            elif re.search(r"CellWrite::|Write::write", nm):
                self.opaque.append((sorted(wargs.values())[0], chain + (nm,), site, nm))


def _calls_x(body):
    """call sites of a (possibly inlined) body: real call terminators plus the call sites `prog.inlined` expanded in place
    (a `goto` carrying `inl_call`; its arguments are the `inl_arg` assignments the inliner appended to that block)"""
    for bb, t in body.calls():
        yield bb, t
    for bb, blk in enumerate(body.blocks):
        t = blk["term"]
        if t["k"] == "goto" and t.get("inl_call") and not blk["cleanup"]:
            args = [s_["rv"]["a"] for s_ in blk["stmts"] if s_.get("inl_arg") == t["inl_call"]]
            yield bb, {"k": "call", "fn": {"path": t["inl_call"], "resolved": t["inl_call"], "local": True}, "args": args,
                       "line": t.get("line", 0), "t": t["t"], "inl": True}


def _inlined_into(prog):
    """helper path -> set of bodies (roots or closures) it was expanded into by prog.inlined"""
    m = prog.__dict__.get("_c09_inl_into")
    if m is None:
        m = {}
        for b in prog.bodies:
            if not b.file.startswith("src/") or len(prog.by_path[b.path]) != 1:
                continue
            bi = prog.inlined(b.path)
            if bi is None or bi is b:
                continue
            for blk in bi.blocks:
                if blk.get("inl_from"):
                    m.setdefault(blk["inl_from"], set()).add(b.path)
        prog.__dict__["_c09_inl_into"] = m
    return m


def _root_of(prog, b):
    return b.closure_root or b.path


def _upvar_env(prog, b):
    """for a closure body: {'arg1.<k>': term of the k-th capture in the (inlined) parent's vocabulary}"""
    up = {}
    if b.kind != "Closure":
        return up
    for pp in (b.j.get("closure_parent"), b.closure_root):
        parent = (prog.inlined(pp) or prog.body(pp)) if pp else None
        if parent is None:
            continue
        for i, si, s in parent.assigns():
            rv = s["rv"]
            if rv["k"] == "agg" and rv["ak"] == "closure" and rv["def"] == b.path:
                for k, f in enumerate(rv["fields"]):
                    up["arg1.%d" % k] = expr(parent, f)
        if up:
            break
    return up


def _bool_test(body, call_bb, t):
    """(switch_bb, true_target, false_target) of the branch that consumes the bool result of call `t`: the first switch reached from the
    call's continuation along straight-line code whose discriminant is the result itself, a copy of it or its negation (`let full = !r; if full`)"""
    alias = {t["dest"]["l"]: True} if not t["dest"]["p"] else {}
    bb, seen = t["t"], set()
    while bb is not None and bb >= 0 and bb not in seen:
        seen.add(bb)
        blk = body.blocks[bb]
        for s in blk["stmts"]:
            if s["k"] != "assign" or s["place"]["p"]:
                continue
            rv, l = s["rv"], s["place"]["l"]
            src = None
            if rv["k"] == "use" and rv["a"]["k"] in ("copy", "move") and not rv["a"]["place"]["p"]:
                src = (rv["a"]["place"]["l"], True)
            elif rv["k"] == "un" and rv["op"] == "Not" and rv["a"]["k"] in ("copy", "move") and not rv["a"]["place"]["p"]:
                src = (rv["a"]["place"]["l"], False)
            if src is not None and src[0] in alias:
                alias[l] = alias[src[0]] == src[1]
            else:
                alias.pop(l, None)
        tt = blk["term"]
        if tt["k"] == "goto":
            bb = tt["t"]
            continue
        if tt["k"] == "switch":
            dl = op_local(tt["d"])
            if dl in alias and tt["vals"] == ["0"]:
                tr, fa = tt["otherwise"], tt["targets"][0]
                return (bb, tr, fa) if alias[dl] else (bb, fa, tr)
        return None
    return None


_LEN = r"slice::len\(arg2\)"
_EMPTY_TRUE = re.compile(r"^(slice::is_empty\(arg2\)|Eq\(%s, 0\)|Eq\(0, %s\)|Lt\(%s, 1\)|Le\(%s, 0\)|Gt\(1, %s\)|Ge\(0, %s\))$" % ((_LEN,) * 6))
_EMPTY_FALSE = re.compile(r"^(Ne\(%s, 0\)|Ne\(0, %s\)|Gt\(%s, 0\)|Ge\(%s, 1\)|Lt\(0, %s\)|Le\(1, %s\))$" % ((_LEN,) * 6))


def _empty_buf_edges(body):
    """edges (switch_bb, target) taken exactly when the written buffer (arg2) is empty: the true edge of `buf.is_empty()` / `buf.len() == 0`
    (any spelling, also negated), the false edge of `!buf.is_empty()` / `buf.len() > 0`, the `0` arm of `match buf.len()`"""
    out = []
    for bb, blk in enumerate(body.blocks):
        t = blk["term"]
        if t["k"] != "switch" or blk["cleanup"]:
            continue
        e, pol = expr(body, t["d"]), True
        while e.startswith("Not(") and e.endswith(")"):
            e, pol = e[4:-1], not pol
        if re.fullmatch(_LEN, e) and pol:
            if "0" in t["vals"] and t["targets"][t["vals"].index("0")] != t["otherwise"]:
                out.append((bb, t["targets"][t["vals"].index("0")]))
            continue
        if t["vals"] != ["0"]:
            continue
        if _EMPTY_FALSE.match(e):
            pol = not pol
        elif not _EMPTY_TRUE.match(e):
            continue
        tgt = t["otherwise"] if pol else t["targets"][0]
        if t["otherwise"] != t["targets"][0]:
            out.append((bb, tgt))
    return out


def _ret_sources(body):
    """what the return value is made of: ('const', bb, int) / ('call', bb, term) / ('other', bb, rv), through moves of whole locals
    (an inlined helper returns through `dest = move _ret`)"""
    out, seen, work = [], set(), [0]
    while work:
        l = work.pop()
        if l in seen:
            continue
        seen.add(l)
        for bb, si, rv in body.defs_of(l):
            if body.blocks[bb]["cleanup"]:
                continue
            if si == "term":
                out.append(("call", bb, rv))
            elif rv["k"] == "use" and rv["a"]["k"] == "const" and "int" in rv["a"]["c"]:
                out.append(("const", bb, int(rv["a"]["c"]["int"])))
            elif rv["k"] == "use" and rv["a"]["k"] in ("copy", "move") and not rv["a"]["place"]["p"] and rv["a"]["place"]["l"] > body.arg_count:
                work.append(rv["a"]["place"]["l"])
            else:
                out.append(("other", bb, rv))
    return out


# ---- tiny reader of canonical terms (sa.flow.expr strings) ---------------------------------------------------------
def _split_top(s_, sep=","):
    args, depth, cur = [], 0, ""
    for ch in s_:
        if ch in "([{":
            depth += 1
        elif ch in ")]}":
            depth -= 1
        if ch == sep and depth == 0:
            args.append(cur.strip())
            cur = ""
        else:
            cur += ch
    if cur.strip() or args:
        args.append(cur.strip())
    return args


def _app(e):
    """`head(a, b)suffix` -> (head, [a, b], suffix); `Range{start: a, end: b}` -> ('Range', [a, b], suffix); None for atoms"""
    m = re.match(r"^([\w:<>&' ]+?)([({])", e)
    if not m:
        return None
    open_, close = m.group(2), ")" if m.group(2) == "(" else "}"
    depth, j = 0, None
    for i in range(m.end() - 1, len(e)):
        if e[i] in "([{":
            depth += 1
        elif e[i] in ")]}":
            depth -= 1
            if depth == 0:
                j = i
                break
    if j is None or e[j] != close:
        return None
    args = _split_top(e[m.end():j])
    if open_ == "{":
        args = [re.sub(r"^\w+:\s*", "", a) for a in args]
    return m.group(1), args, e[j + 1:]


def _range_item(e):
    """for the item of a `for x in A..B` walk (also reversed / through into_iter): (A, B); None when `e` is not such an item"""
    a = _app(e)
    if not a or a[2] != "@Some.0" or not re.search(r"(^|::)(next|next_back)$", a[0]) or len(a[1]) != 1:
        return None
    it = a[1][0]
    while True:
        w = _app(it)
        if w and w[2] == "" and len(w[1]) == 1 and re.search(r"(^|::)(into_iter|rev|by_ref)$", w[0]):
            it = w[1][0]
            continue
        break
    w = _app(it)
    if w and w[0] == "Range" and w[2] == "" and len(w[1]) == 2:
        return w[1][0], w[1][1]
    return None


def _at_most(e, dim):
    """is the term `e` bounded above by the term `dim` (equal, or a minimum one of whose operands is)"""
    if e == dim:
        return True
    a = _app(e)
    if a and a[2] == "" and len(a[1]) == 2 and re.search(r"(^|::)min$", a[0]):
        return _at_most(a[1][0], dim) or _at_most(a[1][1], dim)
    return False


def _contained_index(ie, le):
    """`ie` indexes storage `le` inside the writer's window: data_mut(self.surf)[shape.offset(Position::new(row, col))] with row drawn from a
    range that ends at most at shape.height and col from a range that ends at most at shape.width (shape = self.surf.shape())"""
    if "SurfaceMut::data_mut(arg1.surf)" not in le:
        return False, "indexed storage is not data_mut(self.surf)"
    o = _app(ie)
    if not o or o[0] != "Shape::offset" or o[2] != "" or len(o[1]) != 2:
        return False, "index is not shape.offset(..)"
    sh, p = o[1]
    if not re.fullmatch(r"(Surface|SurfaceMut)::shape\(arg1\.surf\)", sh):
        return False, "offset of a shape other than self.surf.shape()"
    pn = _app(p)
    if not pn or pn[0] != "Position::new" or pn[2] != "" or len(pn[1]) != 2:
        return False, "position is not Position::new(row, col)"
    rows, cols = _range_item(pn[1][0]), _range_item(pn[1][1])
    if rows is None or not _at_most(rows[1], sh + ".height"):
        return False, "row is not drawn from a range ending at most at shape.height"
    if cols is None or not _at_most(cols[1], sh + ".width"):
        return False, "column is not drawn from a range ending at most at shape.width"
    return True, ""


def _getters(prog):
    """short call head (as sa.flow.expr prints it) -> field suffix, for crate functions that only return a field path of their single
    argument (`fn max(&self) -> Size { self.max }`): the call term `BoxConstraint::max(x)` means `x.max`.  A head shared by bodies that are
    not all the same getter is left alone."""
    g = prog.__dict__.get("_c09_getters")
    if g is None:
        from ..flow import _short_path
        cand = {}
        for b in prog.bodies:
            if not b.file.startswith("src/") or b.kind not in ("Fn", "AssocFn"):
                continue
            suf = None
            if b.arg_count == 1 and not any(True for _ in b.calls()) and len(prog.by_path[b.path]) == 1:
                e = expr(b, {"k": "copy", "place": {"l": 0, "p": []}})
                m = re.fullmatch(r"arg1((?:\.\w+)+)", e)
                suf = m.group(1) if m else None
            cand.setdefault(_short_path(b.path), set()).add(suf)
        g = {h: next(iter(v)) for h, v in cand.items() if len(v) == 1 and None not in v}
        prog.__dict__["_c09_getters"] = g
    return g


def _thru_getters(prog, e):
    """rewrite every `Getter(x)` in a canonical term to `x.field` (innermost first, to a fixpoint)"""
    g = _getters(prog)
    for _ in range(8):
        changed = False
        for m in re.finditer(r"(?<![\w:])((?:\w+::)+\w+)\(", e):
            suf = g.get(m.group(1))
            if suf is None:
                continue
            depth, j = 0, None
            for i in range(m.end() - 1, len(e)):
                if e[i] in "([{":
                    depth += 1
                elif e[i] in ")]}":
                    depth -= 1
                    if depth == 0:
                        j = i
                        break
            if j is None:
                continue
            inner = e[m.end():j]
            if len(_split_top(inner)) != 1 or not re.fullmatch(r"[\w.@:]+|.*\)", inner.strip()):
                continue
            e = e[:m.start()] + inner.strip() + suf + e[j + 1:]
            changed = True
            break
        if not changed:
            break
    return e


SURF_MUTATORS = r"^surface::SurfaceMut::(get_mut|data_mut|iter_mut|fill|fill_with|clear|insert|set|view_mut|as_mut)$|<.* as surface::SurfaceMut>::(get_mut|data_mut|iter_mut|fill|fill_with|clear|insert|set|view_mut|as_mut)$"


# ---- lazy iterator chains (WRITER-FOLD written as from_fn/map/find/... instead of a loop) ---------------------------------------
# A tiny abstract interpreter over MIR: sum-type values are enumerated by shape (Ok/Err/Some/None/Continue/Break with symbolic payloads), closures
# are executed where a combinator applies them, a lazy consumer (find / find_map / try_for_each / all / any) is summarised by its last
# iteration (earlier iterations are the ones on which the consumer went on).  Everything not modelled raises _Undecided and the rule keeps
# its fail-closed verdict.
_DISCR = {"None": 0, "Some": 1, "Ok": 0, "Err": 1, "Continue": 0, "Break": 1}
_END = ("end", None, [])
_UNIT = ("tuple", None, [])


class _Undecided(Exception):
    pass


def _v(name, *fields):
    return ("v", name, list(fields))


def _has_lazy(v, depth=0):
    if not isinstance(v, tuple) or depth > 8:
        return False
    if v[0] in ("closure", "from_fn", "map"):
        return True
    return len(v) == 3 and isinstance(v[2], list) and any(_has_lazy(x, depth + 1) for x in v[2])


class _Chain:
    def __init__(self, prog, dec_rx):
        self.prog, self.dec_rx = prog, dec_rx
        self.steps = 0
        self.dec_args, self.buf_readers, self.unforwarded = [], [], []

    # -- values ------------------------------------------------------------------------------------
    def place(self, env, p):
        v = env.get(p["l"], ("undef", p["l"], []))
        for e in p["p"]:
            k = e["k"]
            if k == "deref":
                continue                      # references are transparent: values are symbolic and immutable
            if k == "downcast":
                if v[0] != "v" or v[1] != e["variant"]:
                    raise _Undecided("downcast of %r" % (v[:2],))
                continue
            if k == "field":
                if v[0] in ("v", "tuple", "closure"):
                    if e["i"] >= len(v[2]):
                        raise _Undecided("field")
                    v = v[2][e["i"]]
                elif v[0] in ("arg", "fld"):
                    v = ("fld", e["name"], [v])
                else:
                    raise _Undecided("field of %r" % (v[:2],))
                continue
            raise _Undecided("projection " + k)
        return v

    def operand(self, env, o):
        if o["k"] in ("copy", "move"):
            return self.place(env, o["place"])
        c = o.get("c", {})
        if "int" in c:
            return ("int", int(c["int"]), [])
        return ("const", c.get("text", "?"), [])

    @staticmethod
    def truth(v):
        if v[0] == "bool":
            return v[1]
        if v[0] == "int" and v[1] in (0, 1):
            return bool(v[1])
        return None

    def rvalue(self, env, rv):
        k = rv["k"]
        if k == "use":
            return self.operand(env, rv["a"])
        if k == "ref":
            return self.place(env, rv["place"])
        if k == "discr":
            v = self.place(env, rv["place"])
            if v[0] != "v" or v[1] not in _DISCR:
                raise _Undecided("discriminant of %r" % (v[:2],))
            return ("int", _DISCR[v[1]], [])
        if k == "agg":
            fs = [self.operand(env, f) for f in rv["fields"]]
            if rv["ak"] == "adt":
                return ("v", rv["variant"], fs)
            if rv["ak"] == "closure":
                return ("closure", rv["def"], fs)
            if rv["ak"] == "tuple":
                return ("tuple", None, fs)
            raise _Undecided("aggregate " + rv["ak"])
        if k == "un" and rv["op"] == "Not":
            v = self.operand(env, rv["a"])
            b = self.truth(v)
            if b is None:
                return ("not", None, [v])
            return ("bool", not b, v[2] if v[0] == "bool" else [])
        if k == "cast":
            return ("cast", rv["ty"], [self.operand(env, rv["a"])])
        if k == "bin":
            return ("bin", rv["op"], [self.operand(env, rv["a"]), self.operand(env, rv["b"])])
        raise _Undecided("rvalue " + k)

    # -- execution ---------------------------------------------------------------------------------
    def run_body(self, body, args, trace):
        """every (return value, trace) outcome of the body on these abstract arguments"""
        out = []
        work = [(0, {i + 1: a for i, a in enumerate(args)}, trace, 0)]
        while work:
            bb, env, tr, n = work.pop()
            self.steps += 1
            if self.steps > 5000 or n > 300:
                raise _Undecided("path budget")
            blk = body.blocks[bb]
            env = dict(env)
            for s in blk["stmts"]:
                if s["k"] != "assign":
                    continue
                if s["place"]["p"]:
                    raise _Undecided("store through a projection")
                env[s["place"]["l"]] = self.rvalue(env, s["rv"])
            t = blk["term"]
            k = t["k"]
            if k in ("goto", "drop", "assert"):
                work.append((t["t"], env, tr, n + 1))
            elif k == "return":
                out.append((env.get(0, _UNIT), tr))
            elif k == "unreachable":
                continue
            elif k == "switch":
                d = self.operand(env, t["d"])
                if d[0] == "int":
                    val = str(d[1])
                elif d[0] == "bool":
                    val = "1" if d[1] else "0"
                else:
                    # a condition that is not known: both ways are followed, the trace remembers which (more paths = more returns to justify)
                    for val_, tg in list(zip(t["vals"], t["targets"])) + [("other", t["otherwise"])]:
                        work.append((tg, env, tr + (("cond", d, val_, tuple(t["vals"])),), n + 1))
                    continue
                work.append((t["targets"][t["vals"].index(val)] if val in t["vals"] else t["otherwise"], env, tr, n + 1))
            elif k == "call":
                if t["dest"]["p"] or t.get("t") is None or t["t"] < 0:
                    raise _Undecided("call destination")
                for val, tr2 in self.call(env, t, tr):
                    env2 = dict(env)
                    env2[t["dest"]["l"]] = val
                    work.append((t["t"], env2, tr2, n + 1))
            else:
                raise _Undecided("terminator " + k)
        return out

    def callfn(self, f, args, tr):
        if f[0] != "closure":
            raise _Undecided("callee %r" % (f[:2],))
        cb = self.prog.body(f[1])
        if cb is None or cb.arg_count != len(args) + 1:
            raise _Undecided("closure body")
        return self.run_body(cb, [f] + list(args), tr)

    def next(self, s, tr):
        if s[0] == "from_fn":
            out = []
            for v, tr2 in self.callfn(s[2][0], [], tr):
                if v[0] != "v" or v[1] not in ("Some", "None"):
                    raise _Undecided("from_fn item")
                out.append((v[2][0] if v[1] == "Some" else _END, tr2))
            return out
        if s[0] == "map":
            out = []
            for x, tr2 in self.next(s[2][0], tr):
                if x is _END:
                    out.append((x, tr2))
                else:
                    out.extend(self.callfn(s[2][1], [x], tr2))
            return out
        raise _Undecided("iterator %r" % (s[:2],))

    def forwarded(self, before, after):
        """a decoded item that met no sink call during the iteration that produced it is recorded"""
        new = after[len(before):]
        if any(e[0] == "decode" and e[1] == "Some" for e in new) and not any(e[0] == "put_char" and e[2] == ("decoded", None, []) for e in new):
            self.unforwarded.append(new)

    def consume(self, kind, s, f, tr):
        out = []
        for x, tr2 in self.next(s, tr):
            if x is _END:
                if kind in ("find", "find_map"):
                    out.append((_v("None"), tr2))
                elif kind in ("all", "any"):
                    out.append((("bool", kind == "all", []), tr2))
                else:
                    out.append((("try_done", None, []), tr2))
                continue
            for r, tr3 in self.callfn(f, [x], tr2):
                self.forwarded(tr, tr3)
                if kind in ("find", "all", "any"):
                    b = self.truth(r)
                    if b is None:
                        raise _Undecided("predicate value")
                    if kind == "find" and b:
                        out.append((_v("Some", x), tr3))
                    elif kind == "all" and not b:
                        out.append((("bool", False, r[2] if r[0] == "bool" else []), tr3))
                    elif kind == "any" and b:
                        out.append((("bool", True, r[2] if r[0] == "bool" else []), tr3))
                elif kind == "find_map":
                    if r[0] != "v" or r[1] not in ("Some", "None"):
                        raise _Undecided("find_map value")
                    if r[1] == "Some":
                        out.append((r, tr3))
                else:
                    if r[0] != "v" or r[1] not in _DISCR:
                        raise _Undecided("try_for_each value")
                    if r[1] in ("Err", "None", "Break"):
                        out.append((r, tr3))
        if kind == "try_for_each":
            stops = {r[1] for r, _ in out if r[0] == "v"}
            done = _v("Ok", _UNIT) if "Err" in stops else _v("Some", _UNIT) if "None" in stops else _v("Continue", _UNIT) if "Break" in stops else None
            if done is None and any(r[0] == "try_done" for r, _ in out):
                raise _Undecided("try_for_each that never stops early")
            out = [(done if r[0] == "try_done" else r, tr_) for r, tr_ in out]
        return out

    def call(self, env, t, tr):
        a = [self.operand(env, x) for x in t["args"]]
        m = lambda rx: call_matches(t, rx)
        if m(self.dec_rx):
            self.dec_args.append(a)
            return [(_v("Err", ("atom", "e", [])), tr + (("decode", "Err"),)), (_v("Ok", _v("None")), tr + (("decode", "None"),)),
                    (_v("Ok", _v("Some", ("decoded", None, []))), tr + (("decode", "Some"),))]
        if m(r"render::CellWrite::put_char$") and len(a) == 2:
            return [(("bool", r, ["put_char"]), tr + (("put_char", r, a[1]),)) for r in (True, False)]
        if m(r"^std::io::Cursor::<T>::new$"):
            return [(("call", "Cursor::new", a), tr)]
        if m(r"^std::io::Cursor::<T>::position$"):
            return [(("call", "position", a), tr)]
        if m(r"slice::<impl \[T\]>::(len|is_empty)$"):
            return [(("call", callee_name(t).split("::")[-1], a), tr)]
        if m(r"^std::iter::from_fn$|iter::sources::from_fn::from_fn$") and len(a) == 1:
            return [(("from_fn", None, a), tr)]
        if m(r"^std::iter::Iterator::map$") and len(a) == 2:
            return [(("map", None, a), tr)]
        if m(r"^std::iter::Iterator::by_ref$|IntoIterator>?::into_iter$|^std::iter::Iterator::fuse$") and len(a) == 1 and a[0][0] in ("from_fn", "map"):
            return [(a[0], tr)]
        for kind in ("find", "find_map", "try_for_each", "all", "any"):
            if m(r"^std::iter::Iterator::%s$" % kind) and len(a) == 2:
                return self.consume(kind, a[0], a[1], tr)
        x = a[0] if a else None
        shape = x[1] if x is not None and x[0] == "v" else None
        if m(r"::transpose$") and len(a) == 1 and shape:
            inner = x[2][0] if x[2] else None
            if shape == "None":
                return [(_v("Ok", _v("None")), tr)]
            if shape == "Some" and inner[0] == "v" and inner[1] in ("Ok", "Err"):
                return [(_v("Ok", _v("Some", inner[2][0])) if inner[1] == "Ok" else inner, tr)]
            if shape == "Err":
                return [(_v("Some", x), tr)]
            if shape == "Ok" and inner[0] == "v" and inner[1] in ("Some", "None"):
                return [(_v("Some", _v("Ok", inner[2][0])) if inner[1] == "Some" else inner, tr)]
            raise _Undecided("transpose")
        if m(r"^std::(result::Result|option::Option)::<.*>::map$") and len(a) == 2 and shape:
            if shape in ("Err", "None"):
                return [(x, tr)]
            return [(_v(shape, r), tr2) for r, tr2 in self.callfn(a[1], [x[2][0]], tr)]
        if m(r"^std::option::Option::<T>::map_or_else$") and len(a) == 3 and shape:
            return self.callfn(a[1], [], tr) if shape == "None" else self.callfn(a[2], [x[2][0]], tr)
        if m(r"^std::result::Result::<T, E>::map_or_else$") and len(a) == 3 and shape:
            return self.callfn(a[1], [x[2][0]], tr) if shape == "Err" else self.callfn(a[2], [x[2][0]], tr)
        if m(r"^std::option::Option::<T>::map_or$") and len(a) == 3 and shape:
            return [(a[1], tr)] if shape == "None" else self.callfn(a[2], [x[2][0]], tr)
        if m(r"^std::option::Option::<T>::(is_some|is_none)$|^std::result::Result::<T, E>::(is_ok|is_err)$") and len(a) == 1 and shape:
            nm = callee_name(t).split("::")[-1]
            return [(("bool", shape == {"is_some": "Some", "is_none": "None", "is_ok": "Ok", "is_err": "Err"}[nm], []), tr)]
        if m(r"as std::ops::Try>::branch$") and len(a) == 1 and shape:
            return [(_v("Continue", x[2][0]) if shape in ("Ok", "Some") else _v("Break", x), tr)]
        if m(r"FromResidual<.*>>::from_residual$") and len(a) == 1 and shape in ("Err", "None"):
            return [(x, tr)]
        if any(_has_lazy(v) for v in a):
            raise _Undecided("closure or iterator handed to %s" % (callee_name(t) or "<indirect>"))
        nm = callee_name(t)
        if nm is None:
            raise _Undecided("indirect call")
        if any(v == ("arg", 2, []) for v in a):
            self.buf_readers.append(nm)
        return [(("call", nm, a), tr)]


def _cond_buf_empty(ev):
    """does this branch decision imply that the written buffer (arg2) is empty"""
    _, d, val, vals = ev
    buf = ("arg", 2, [])
    ln = ("call", "len", [buf])
    if d == ln:
        return val == "0"
    if vals != ("0",):
        return False
    truthy = val != "0"
    while d[0] == "not":
        d, truthy = d[2][0], not truthy
    if d == ("call", "is_empty", [buf]):
        return truthy
    if d[0] == "bin":
        a, c = d[2]
        zero, one = ("int", 0, []), ("int", 1, [])
        if (d[1], a, c) in (("Eq", ln, zero), ("Eq", zero, ln), ("Le", ln, zero), ("Lt", ln, one), ("Ge", zero, ln), ("Gt", one, ln)):
            return truthy
        if (d[1], a, c) in (("Ne", ln, zero), ("Ne", zero, ln), ("Gt", ln, zero), ("Ge", ln, one), ("Lt", zero, ln), ("Le", one, ln)):
            return not truthy
    return False


def _chain_fold(prog, path, b, dec_rx, may_fill):
    """WRITER-FOLD clauses decided on a write() whose decode/forward steps live in closures of an iterator chain.
    -> None when not understood, else {"cursor-decoder": bool, "return-value": bool, "forward": bool, "returns": [...]}"""
    roots = {path} | {blk["inl_from"] for blk in b.blocks if blk.get("inl_from")}      # helpers expanded in place bring their closures along
    fam = [b] + [c for c in prog.bodies if c.closure_root in roots and c.kind == "Closure"]
    n_cur = sum(1 for c in fam for bb, t in c.calls() if call_matches(t, r"^std::io::Cursor::<T>::new$"))
    n_dec = sum(1 for c in fam for bb, t in c.calls() if call_matches(t, dec_rx))
    n_fwd = sum(1 for c in fam for bb, t in c.calls() if call_matches(t, r"render::CellWrite::put_char$"))
    if not may_fill or len(fam) == 1 or n_dec == 0:
        return None
    ch = _Chain(prog, dec_rx)
    buf, slf = ("arg", 2, []), ("arg", 1, [])
    try:
        outs = ch.run_body(b, [slf, buf], ())
    except (_Undecided, KeyError, IndexError, TypeError):
        return None
    cur = ("call", "Cursor::new", [buf])
    pos = ("cast", "usize", [("call", "position", [cur])])
    ln = ("call", "len", [buf])
    ok1 = n_cur == 1 and n_dec == 1 and bool(ch.dec_args) and all(a == [("fld", "decoder", [slf]), cur] for a in ch.dec_args)
    rets, ok2, n_pos = [], not ch.buf_readers, 0
    for v, tr in outs:
        if v[0] != "v" or v[1] not in ("Ok", "Err"):
            return None
        if v[1] == "Err":
            continue
        x = v[2][0]
        if x in (ln, ("int", 0, [])) and any(e[0] == "cond" and _cond_buf_empty(e) for e in tr):
            rets.append("0 / buf.len() on an empty buffer")      # what the general path returns there (see the loop form above)
        elif x == pos:
            n_pos += 1
            rets.append("cursor.position()")
        elif x == ln:
            puts = [e for e in tr if e[0] == "put_char"]
            full = bool(puts) and puts[-1][1] is False
            rets.append("buf.len() after put_char -> %s" % (puts[-1][1] if puts else None))
            ok2 = ok2 and full
        else:
            rets.append(repr(x)[:80])
            ok2 = False
    ok2 = ok2 and n_pos > 0
    ok4 = n_fwd > 0 and not ch.unforwarded and any(e[0] == "put_char" for v, tr in outs for e in tr)
    return {"cursor-decoder": ok1, "return-value": ok2, "forward": ok4, "returns": sorted(set(rets))}


def run(ctx):
    prog = ctx.prog
    ctx.explanation = CLAIM["text"]
    ctx.trust("SHAPE-INV", "in-window positions of a Shape built by the audited constructors map to distinct in-bounds offsets (C07 U3)")

    # ---------------- (b) writer fold ------------------------------------------------------------------
    ctx.rule("WRITER-FOLD", "io::Write adapters: one Cursor over buf, decoder state in self, every item forwarded, returns cursor.position()", floor=9)
    for path, dec_rx, may_fill in WRITERS:
        b = prog.inlined(path) if prog.body(path) is not None else None
        if b is None:
            ctx.anchor("WRITER-FOLD", path)
            continue
        cfg = b.cfg()
        curs = [(bb, t) for bb, t in b.calls() if call_matches(t, r"^std::io::Cursor::<T>::new$")]
        decs = [(bb, t) for bb, t in b.calls() if call_matches(t, dec_rx)]
        ok1 = len(curs) == 1 and expr(b, curs[0][1]["args"][0]) == "arg2" and len(decs) == 1 \
            and expr(b, decs[0][1]["args"][0]) == "arg1.decoder" and expr(b, decs[0][1]["args"][1]) == "Cursor::new(arg2)"
        if not ok1:
            # the decode / forward steps may live in the closures of a lazy iterator chain: decide the same clauses by abstract execution
            cf = _chain_fold(prog, path, b, dec_rx, may_fill)
            if cf is not None and cf["cursor-decoder"]:
                ctx.instance("WRITER-FOLD", {"fn": path, "hyp": "single Cursor::new(buf) handed to self.decoder.decode (iterator chain)", "ok": True})
                ctx.instance("WRITER-FOLD", {"fn": path, "hyp": "returns cursor.position(); buf.len() only on the sink-full edge", "returns": cf["returns"], "ok": cf["return-value"]})
                if not cf["return-value"]:
                    ctx.violation("WRITER-FOLD", path, "return-value", "write() reports a byte count other than the bytes handed to the decoder (returns %s): a caller's retry would duplicate or drop bytes at chunk borders" % cf["returns"], sites=[b.loc])
                ctx.instance("WRITER-FOLD", {"fn": path, "hyp": "decoded items are forwarded to the cell sink", "sinks": ["put_char"], "ok": cf["forward"]})
                if not cf["forward"]:
                    ctx.violation("WRITER-FOLD", path, "forward", "decoded items are not forwarded to the CellWrite sink", sites=[b.loc])
                continue
        ctx.instance("WRITER-FOLD", {"fn": path, "hyp": "single Cursor::new(buf) handed to self.decoder.decode", "ok": ok1})
        if not ok1:
            ctx.violation("WRITER-FOLD", path, "cursor-decoder", "write() must feed `buf` through exactly one Cursor to the decoder stored in self (state must survive between writes)", sites=[b.loc])
            continue
        # other reads of buf
        other = []
        for bb, t in b.calls():
            if t is curs[0][1]:
                continue
            for a in t["args"]:
                if expr(b, a) == "arg2" and not call_matches(t, r"slice::<impl \[T\]>::(len|is_empty)$"):
                    other.append(callee_name(t))
        # returns
        rets = []
        for i, si, s in b.assigns():
            if s["place"]["l"] == 0 and not s["place"]["p"] and s["rv"]["k"] == "agg" and s["rv"].get("variant") == "Ok":
                rets.append((i, expr(b, s["rv"]["fields"][0]), s))
        pos_rets = [r for r in rets if r[1] == "(Cursor::position(Cursor::new(arg2)) as usize)"]
        len_rets = [r for r in rets if r[1] == "slice::len(arg2)"]
        # an exact fast path for the empty buffer: `Ok(0)` / `Ok(buf.len())` on an edge taken only when buf is empty is what the general path returns
        # there (a Cursor over nothing stays at position 0; by C03's fold theorem the decoder takes no step on zero bytes)
        empty_edges = _empty_buf_edges(b)
        empty_rets = [r for r in rets if r[1] in ("0", "slice::len(arg2)") and any(cfg.edge_dominates(sb, tg, r[0]) for sb, tg in empty_edges)]
        len_rets = [r for r in len_rets if r not in empty_rets]
        bad_rets = [r for r in rets if r not in pos_rets and r not in len_rets and r not in empty_rets]
        ok2 = bool(pos_rets) and not bad_rets and not other
        # len(buf) return only where the sink said it is full: dominated by the false edge of put_char's result
        ok3 = True
        for i, e, s in len_rets:
            ok3 = False
            if not may_fill:
                break
            for bb, t in b.calls():
                if call_matches(t, r"render::CellWrite::put_char$"):
                    bt = _bool_test(b, bb, t)
                    if bt is not None and cfg.edge_dominates(bt[0], bt[2], i):
                        ok3 = True
        ctx.instance("WRITER-FOLD", {"fn": path, "hyp": "returns cursor.position(); buf.len() only on the sink-full edge", "returns": [r[1] for r in rets], "ok": ok2 and ok3})
        if not (ok2 and ok3):
            ctx.violation("WRITER-FOLD", path, "return-value", "write() reports a byte count other than the bytes handed to the decoder (returns %s, other readers of buf %s): a caller's retry would duplicate or drop bytes at chunk borders" % ([r[1] for r in rets], other), sites=[b.loc])
        # every decoded item is forwarded: the Continue payload reaches a CellWrite call on every path of the Some edge (TTY: selected variants)
        fwd = [(bb, t) for bb, t in b.calls() if call_matches(t, r"render::CellWrite::(put_char|put_image|set_face|put_cell|put_glyph)$")]
        ok4 = bool(fwd)
        if may_fill and fwd:
            # the loop body is: decode -> Some(ch) -> put_char(ch)
            ok4 = all("Decoder::decode(arg1.decoder, Cursor::new(arg2))" in expr(b, t["args"][1]) for bb, t in fwd)
        ctx.instance("WRITER-FOLD", {"fn": path, "hyp": "decoded items are forwarded to the cell sink", "sinks": sorted({callee_name(t).split('::')[-1] for bb, t in fwd}), "ok": ok4})
        if not ok4:
            ctx.violation("WRITER-FOLD", path, "forward", "decoded items are not forwarded to the CellWrite sink", sites=[b.loc])

    # ---------------- (a) containment ---------------------------------------------------------------------
    ctx.rule("CONTAIN", "TerminalWriter mutates its surface only via get_mut(pos) and the cursor-fill loop over shape.offset within 0..width x start.row..min(cursor.row+1,height)", floor=3)
    tw_bodies = [b for b in prog.bodies if (b.impl_self or "").startswith("render::TerminalWriter") or b.path.startswith("render::TerminalWriter")]
    tw_paths = {b.path for b in tw_bodies}
    inl_into = _inlined_into(prog)
    PC = "<render::TerminalWriter<'_> as render::CellWrite>::put_cell"
    allowed = {(PC, "get_mut"), (PC, "data_mut"), ("render::TerminalWriter::<'a>::new", "as_mut")}
    for b in tw_bodies:
        # a helper that is expanded into other TerminalWriter bodies is judged there (its sites belong to the function it was extracted from)
        if inl_into.get(b.path) and inl_into[b.path] <= tw_paths:
            continue
        bi = prog.inlined(b.path) or b
        for bb, t in bi.calls():
            if call_matches(t, SURF_MUTATORS) and t["args"] and expr(bi, t["args"][0]) in ("arg1.surf", "arg2"):
                nm = callee_name(t).split("::")[-1]
                owner = bi.blocks[bb].get("inl_from") or b.path
                ok = (b.path, nm) in allowed or (_root_of(prog, b), nm) in allowed or (owner, nm) in allowed
                ctx.instance("CONTAIN", {"fn": b.path, "op": nm, "allowed": ok, "in_helper": owner if owner != b.path else None})
                if not ok:
                    ctx.violation("CONTAIN", b.path, nm, "TerminalWriter mutates its surface through %s outside the audited sites" % nm, sites=["%s:%d" % (b.file, t["line"])])
    pc = prog.inlined(PC) if prog.body(PC) is not None else None
    if pc is None:
        ctx.anchor("CONTAIN", "TerminalWriter::put_cell")
    else:
        # every access to the raw storage handed out by data_mut: `data[i]` (BoundsCheck) and slice get/get_mut(i)
        idx = []
        for bb, t in pc.terms():
            if t["k"] == "assert" and t["msg"]["kind"] == "BoundsCheck":
                idx.append((bb, t, expr(pc, t["msg"]["index"]), expr(pc, t["msg"]["len"])))
            elif t["k"] == "call" and call_matches(t, r"slice::<impl \[T\]>::(get|get_mut|get_unchecked|get_unchecked_mut|swap)$|ops::Index(Mut)?>?::index(_mut)?$") and len(t["args"]) >= 2:
                idx.append((bb, t, expr(pc, t["args"][1]), expr(pc, t["args"][0])))
        n = 0
        for bb, t, ie, le in idx:
            if "SurfaceMut::data_mut(arg1.surf)" not in le and "Shape::offset" not in ie:
                continue
            n += 1
            ok, why = _contained_index(ie, le)
            ctx.instance("CONTAIN", {"fn": pc.path, "index": ie[:200], "len": le[:80], "ok": ok})
            if not ok:
                ctx.violation("CONTAIN", pc.path, "fill-loop", "the cursor-fill loop indexes the surface data outside rows start..min(cursor.row+1, height) x cols 0..width (%s): %s" % (why, ie[:200]), sites=["%s:%d" % (pc.file, t["line"])])
        if n == 0:
            ctx.anchor("CONTAIN", "put_cell/fill-loop")
        # get_mut receives the position returned by Cell::layout
        gm = [(bb, t) for bb, t in pc.calls() if call_matches(t, r"SurfaceMut::get_mut$")]
        okg = len(gm) == 1 and re.match(r"^Cell::layout\(.*\)@Some\.0$", expr(pc, gm[0][1]["args"][1])) is not None
        ctx.instance("CONTAIN", {"fn": pc.path, "get_mut_position": expr(pc, gm[0][1]["args"][1])[:100] if gm else None, "ok": okg})
        if not okg:
            ctx.violation("CONTAIN", pc.path, "get_mut-pos", "the written cell is not addressed by the position Cell::layout returned", sites=[pc.loc])

    # ---------------- (c) shared layout routine -------------------------------------------------------------
    ctx.rule("SHARED-LAYOUT", "Cell::layout is the only cell placement routine: called by put_cell (writing) and the Text/str layout closures (measuring) with corresponding arguments", floor=3)
    # call sites of Cell::layout, attributed to the function they belong to: closures count for the function that builds them, small private
    # single-caller helpers for the function they were extracted from (prog.inlined); argument terms are in that function's vocabulary
    callers = {}      # root path -> [(site body path, [argument terms])]
    for b in prog.bodies:
        if not b.file.startswith("src/") or len(prog.by_path[b.path]) != 1 or inl_into.get(b.path):
            continue       # (an expanded helper is seen inside its caller)
        bi = prog.inlined(b.path) or b
        up = None
        for bb, t in bi.calls():
            if not call_matches(t, r"^render::Cell::layout$"):
                continue
            if up is None:
                up = _upvar_env(prog, b)
            args = [_thru_getters(prog, re.sub(r"\barg1\.\d+\b", lambda m: up.get(m.group(0), m.group(0)), expr(bi, a))) for a in t["args"]]
            callers.setdefault(_root_of(prog, b), []).append((b.path, args))
    # A site left in a private helper that several functions share (prog.inlined expands single-caller helpers only) belongs to each of the
    # functions that call the helper: the helper is expanded into every caller (multi=True) and the site is judged there, with the argument
    # terms in the caller's vocabulary.  Repeated for helpers of helpers; a helper that is `pub`, a trait method, has no caller or is not
    # expanded at some call site stays an unaudited caller (fail closed).
    from .. import inline as _inline
    expected_roots = {PC, "<view::text::Text as view::View>::layout", "view::text::<impl view::View for str>::layout"}
    absorbed, seen_sites = set(), set()
    for _round in range(_inline.MAX_DEPTH):
        moved = False
        for hp in sorted(p_ for p_ in callers if p_ not in expected_roots):
            hb = prog.body(hp)
            if hb is None or hb.kind not in ("Fn", "AssocFn") or hb.impl_trait or (hb.j.get("vis") or "") == "Public":
                continue
            users = sorted(_inline.callers_of(prog, hp))
            views = []
            for c in users:
                cb = prog.body(c)
                ci = prog.inlined(c, multi=True) if cb is not None and len(prog.by_path[c]) == 1 else None
                if ci is None or not any(blk["term"].get("inl_call") == hp for blk in ci.blocks) \
                        or any(call_matches(t, "^" + re.escape(hp) + "$") for bb, t in ci.calls() if not ci.blocks[bb]["cleanup"]):
                    views = None
                    break
                views.append((cb, ci))
            if not views:
                continue
            absorbed.add(hp)
            del callers[hp]
            moved = True
            for cb, ci in views:
                up = _upvar_env(prog, cb)
                for bb, t in ci.calls():
                    if call_matches(t, r"^render::Cell::layout$") and ci.blocks[bb].get("inl_from") in absorbed and (cb.path, bb) not in seen_sites:
                        seen_sites.add((cb.path, bb))
                        args = [_thru_getters(prog, re.sub(r"\barg1\.\d+\b", lambda m: up.get(m.group(0), m.group(0)), expr(ci, a))) for a in t["args"]]
                        callers.setdefault(_root_of(prog, cb), []).append((ci.blocks[bb]["inl_from"], args))
        if not moved:
            break
    exp = {
        PC: {"width": r"^TerminalWriter::size\(arg1\)\.width$", "wraps": r"^arg1\.wraps$"},
        "<view::text::Text as view::View>::layout": {"width": r"^arg3\.max\.width$", "wraps": r"^arg1\.wraps$"},
        "view::text::<impl view::View for str>::layout": {"width": r"^arg3\.max\.width$", "wraps": r"^1$"},
    }
    for p, sites in sorted(callers.items()):
        e = exp.get(p)
        for site, args in sites:
            ctx.instance("SHARED-LAYOUT", {"caller": p, "site": site if site != p else None, "args": [a[:70] for a in args], "expected_caller": e is not None})
            if e is None:
                ctx.violation("SHARED-LAYOUT", p, "caller", "Cell::layout is called from an unaudited place: measuring and writing may diverge", sites=[])
                continue
            if len(args) < 4 or not re.search(e["width"], args[2]) or not re.search(e["wraps"], args[3]):
                ctx.violation("SHARED-LAYOUT", p, "args", "Cell::layout is called with width=%s wraps=%s (expected %s / %s)" % (args[2:3], args[3:4], e["width"], e["wraps"]), sites=[])
    for p in exp:
        if p not in callers:
            ctx.violation("SHARED-LAYOUT", p, "missing", "%s no longer calls Cell::layout: text measuring and text writing use different routines" % p, sites=[])

    # ---------------- (c') the writer a view renders through is configured with the wraps flag its layout measured with -----
    ctx.rule("WRAPS-AGREE", "every put_cell reached from a text view's render goes to a writer whose wraps flag is the term its layout passed to Cell::layout "
             "(default of TerminalWriter::new, with_wraps/set_wraps, followed through closures and helper bodies)", floor=6)
    default = None
    nb = prog.body("render::TerminalWriter::<'a>::new") or prog.one(r"^render::TerminalWriter::<[^<>]*>::new$")
    if nb is not None:
        for i, si, s in nb.assigns():
            rv = s["rv"]
            if rv["k"] == "agg" and rv["ak"] == "adt" and rv["adt"] == "render::TerminalWriter" and "wraps" in (rv.get("fnames") or []) and s["place"]["l"] == 0:
                default = expr(nb, rv["fields"][rv["fnames"].index("wraps")])
    wb = prog.one(r"TerminalSurfaceExt>::writer$")
    ok_new = default is not None and re.match(r"^\d+$", default) is not None and wb is not None \
        and expr(wb, {"k": "copy", "place": {"l": 0, "p": []}}).startswith("TerminalWriter::new(")
    ctx.instance("WRAPS-AGREE", {"anchor": "TerminalWriter::new / TerminalSurfaceExt::writer start with a constant wraps flag", "default": default, "ok": ok_new})
    if not ok_new:
        ctx.anchor("WRAPS-AGREE", "TerminalWriter::new/wraps-default")
    # with_wraps(self, w) == { self.set_wraps(w); self }  and  TerminalWriter::set_wraps stores w into self.wraps (the field put_cell hands to Cell::layout)
    ww = prog.body("render::CellWrite::with_wraps")
    ok_ww = False
    if ww is not None:
        sc = [(bb, t) for bb, t in ww.calls() if call_matches(t, r"CellWrite::set_wraps$")]
        ok_ww = len(sc) == 1 and expr(ww, sc[0][1]["args"][0]) == "arg1" and expr(ww, sc[0][1]["args"][1]) == "arg2" \
            and expr(ww, {"k": "copy", "place": {"l": 0, "p": []}}) == "arg1" and len(list(ww.calls())) == 1
    ctx.instance("WRAPS-AGREE", {"anchor": "with_wraps(self, w) = set_wraps(w); self", "ok": ok_ww})
    if not ok_ww:
        ctx.anchor("WRAPS-AGREE", "CellWrite::with_wraps")
    sw = prog.body("<render::TerminalWriter<'_> as render::CellWrite>::set_wraps")
    ok_sw = False
    if sw is not None:
        rc = [(bb, t) for bb, t in sw.calls()]
        wr = [x for x in writes_to_field(sw, r"^\(\*_1\)\.wraps$") if x[1] != "term"]
        # either mem::replace(&mut self.wraps, w) or `let old = self.wraps; self.wraps = w; old`
        ok_sw = (len(rc) == 1 and call_matches(rc[0][1], r"^std::mem::(replace|swap)$") and arg_place(sw, rc[0][1], 0) == "(*_1).wraps" and expr(sw, rc[0][1]["args"][1]) == "arg2" and not wr) \
            or (not rc and len(wr) == 1 and wr[0][3]["rv"]["k"] == "use" and expr(sw, wr[0][3]["rv"]["a"]) == "arg2")
    ctx.instance("WRAPS-AGREE", {"anchor": "TerminalWriter::set_wraps stores its argument in self.wraps", "ok": ok_sw})
    if not ok_sw:
        ctx.anchor("WRAPS-AGREE", "TerminalWriter::set_wraps")
    tw = prog.body("<view::text::Text as render::CellWrite>::wraps")
    ok_tw = tw is not None and expr(tw, {"k": "copy", "place": {"l": 0, "p": []}}) == "arg1.wraps"
    ctx.instance("WRAPS-AGREE", {"anchor": "Text::wraps() returns self.wraps (terms CellWrite::wraps(x) are read as x.wraps)", "ok": ok_tw})
    if not ok_tw:
        ctx.anchor("WRAPS-AGREE", "Text::wraps")
    for lp, largs in sorted((p, args) for p, sites in callers.items() for site, args in sites):
        root = prog.body(lp)
        if root is None or root.impl_trait != "view::View" or root.name != "layout" or len(largs) < 4:
            continue
        rpath = re.sub(r"::layout$", "::render", root.path)
        rb = prog.body(rpath)
        if rb is None:
            ctx.anchor("WRAPS-AGREE", rpath)
            continue
        want = largs[3]
        wf = WrapsFlow(prog, default if ok_new else UNKNOWN)
        wf.scan(rb, {}, None)
        used = wf.leaves + [(st, ch, site) for st, ch, site, nm in wf.opaque]
        if not used:
            ctx.violation("WRAPS-AGREE", rpath, "no-writer", "no put_cell on a writer built by surf.writer(ctx)/TerminalWriter::new is reached from render: the cells its layout measured are not written through an audited path", sites=[rb.loc])
            continue
        for st, ch, site in used:
            ok = st == want
            ctx.instance("WRAPS-AGREE", {"render": rpath, "layout_wraps": want, "writer_wraps": st, "via": [c.split("::")[-1] if not c.endswith("}") else "::".join(c.split("::")[-2:]) for c in ch[1:]], "ok": ok})
            if not ok:
                ctx.violation("WRAPS-AGREE", rpath, "wraps",
                              "render writes cells (via %s) through a writer whose wraps flag is `%s`, while layout measured the same cells with wraps=`%s`: "
                              "with the two disagreeing, a line longer than the width is wrapped into rows that layout assigned to the following lines (or the reverse), "
                              "so cells inside the right edge are overwritten or pushed out" % (" -> ".join(c.split("::")[-1] for c in ch) or "?", st, want), sites=[rb.loc, site])

    # ---------------- (d) measuring a glyph fallback == writing it --------------------------------------------------
    ctx.rule("MEASURE-FALLBACK", "Cell::size measures a fallback glyph as the sum of the same per-character width that a single Char cell gets", floor=2)
    cs = prog.inlined("render::Cell::size") if prog.body("render::Cell::size") is not None else None
    if cs is None:
        ctx.anchor("MEASURE-FALLBACK", "Cell::size")
    else:
        char_w = None
        for bb, t in cs.calls():
            if call_matches(t, r"^terminal::Size::new$") and expr(cs, t["args"][0]) == "1":
                e = expr(cs, t["args"][1])
                if "@Char.0" in e:
                    char_w = re.sub(r"arg1\.kind@Char\.0", "C", e)
        for i, si, s_ in cs.assigns():      # `Size { height: 1, width: .. }` literal
            rv = s_["rv"]
            if char_w is None and rv["k"] == "agg" and rv["ak"] == "adt" and rv["adt"] == "terminal::Size" and "width" in (rv.get("fnames") or []):
                e = expr(cs, rv["fields"][rv["fnames"].index("width")])
                if "@Char.0" in e and expr(cs, rv["fields"][rv["fnames"].index("height")]) == "1":
                    char_w = re.sub(r"arg1\.kind@Char\.0", "C", e)
        CHARS = r"str::chars\(Glyph::fallback_str\(arg1\.kind@Glyph\.0\)\)"

        # closures built anywhere in the (helper-expanded) body: short name -> def paths; a closure of an expanded helper is `helper::{closure#k}`
        cl_defs = {}
        for i, si, s_ in cs.assigns():
            if s_["rv"]["k"] == "agg" and s_["rv"]["ak"] == "closure":
                d_ = s_["rv"]["def"]
                if d_ not in cl_defs.setdefault(d_.split("::")[-1], []):
                    cl_defs[d_.split("::")[-1]].append(d_)
        origin = [cs.path]      # function the term being read was written in (the expanded helper for blocks that carry inl_from)

        def _closure_ret(name, subst):
            cands = cl_defs.get(name, [])
            if len(cands) > 1:
                cands = [d_ for d_ in cands if d_ == origin[0] + "::" + name]
            cb = prog.inlined(cands[0]) if len(cands) == 1 and prog.body(cands[0]) is not None else None
            if cb is None:
                return None, None
            e = expr(cb, {"k": "copy", "place": {"l": 0, "p": []}})
            return re.sub(r"\barg(\d)\b(?!\.)", lambda m: subst.get(m.group(0), m.group(0)), e), cb.local_ty(0)

        def _apply(f, item, want_option=False):
            """the term `f(item)` for a closure without captures or a function item handed to an adaptor; with want_option only when it yields an Option"""
            m = re.fullmatch(r"closure:(\{closure#\d+\})\[\]", f)
            if m:
                r, ty = _closure_ret(m.group(1), {"arg2": item})
                if r is None or (want_option and not (ty or "").startswith("std::option::Option<")):
                    return None
                return r
            m = re.fullmatch(r"fn:(?:[\w<> ]+::)*?(\w+::\w+)", f)
            if m and (not want_option or m.group(1) == "UnicodeWidthChar::width"):
                return "%s(%s)" % (m.group(1), item)
            return None

        def _item_term(e, outer):
            """the value one fallback character contributes to `sum(e)`, as a term over that character `C`: e is the fallback characters seen through
            map (any depth) and, outermost only (0 is neutral for the sum, but not for a later map), the adaptors that drop None: filter_map(f),
            flat_map(f) and map(f).flatten() with f -> Option all contribute f(c).unwrap_or(0)"""
            if re.fullmatch(CHARS, e):
                return "C"
            a = _app(e)
            if not a or a[2] != "":
                return None
            head, args = a[0], a[1]
            if head in ("IntoIterator::into_iter", "Iterator::by_ref", "Iterator::fuse") and len(args) == 1:
                return _item_term(args[0], outer)
            if head == "Iterator::map" and len(args) == 2:
                inner = _item_term(args[0], False)
                return _apply(args[1], inner) if inner else None
            if head in ("Iterator::filter_map", "Iterator::flat_map") and outer and len(args) == 2:
                inner = _item_term(args[0], False)
                r = _apply(args[1], inner, want_option=True) if inner else None
                return "Option::unwrap_or(%s, 0)" % r if r else None
            if head == "Iterator::flatten" and outer and len(args) == 1:
                sub = _app(args[0])
                if sub and sub[0] == "Iterator::map" and sub[2] == "" and len(sub[1]) == 2:
                    inner = _item_term(sub[1][0], False)
                    r = _apply(sub[1][1], inner, want_option=True) if inner else None
                    return "Option::unwrap_or(%s, 0)" % r if r else None
            return None

        def _canon_w(e):
            """Option::unwrap_or_default(x) on usize is Option::unwrap_or(x, 0)"""
            a = _app(e) if e else None
            if not a or not e.startswith(a[0] + "("):
                return e
            args = [_canon_w(x) for x in a[1]]
            head = a[0]
            if head == "Option::unwrap_or_default" and len(args) == 1:
                head, args = "Option::unwrap_or", args + ["0"]
            return "%s(%s)%s" % (head, ", ".join(args), a[2])
        # the fallback width is a sum over the fallback characters of a per-character term: chars().map(f).sum(), a None-dropping adaptor before the sum,
        # or chars().fold(0, |acc, c| acc + f(c))
        totals, cl_w, n_tot = [], None, 0
        for bb, t in cs.calls():
            origin[0] = cs.blocks[bb].get("inl_from") or cs.path
            if call_matches(t, r"Iterator::sum$"):
                n_tot += 1
                r_ = _item_term(expr(cs, t["args"][0]), True)
                if r_ and r_ != "C":
                    totals.append(r_)
            elif call_matches(t, r"Iterator::fold$") and len(t["args"]) == 3:
                n_tot += 1
                m = re.match(r"^closure:(\{closure#\d+\})\[\]$", expr(cs, t["args"][2]))
                item = _item_term(expr(cs, t["args"][0]), False)
                if m and item and expr(cs, t["args"][1]) == "0":
                    r_ = _closure_ret(m.group(1), {"arg2": "ACC", "arg3": item})[0] or ""
                    a = _app(r_)
                    if a and a[0] == "Add" and a[2] == "" and len(a[1]) == 2 and "ACC" in a[1]:
                        totals.append([x for x in a[1] if x != "ACC"][0] if a[1].count("ACC") == 1 else None)
        char_w = _canon_w(char_w)
        totals = [_canon_w(x) for x in totals]
        ok = False
        if char_w and n_tot == 1 and len(totals) == 1 and totals[0]:
            cl_w = totals[0]
            ok = cl_w == char_w
        ctx.instance("MEASURE-FALLBACK", {"char_width": char_w, "fallback_per_char_width": cl_w, "agree": ok})
        ctx.instance("MEASURE-FALLBACK", {"fallback_is_sum_over_chars": n_tot == 1 and len(totals) == 1})
        if not ok:
            ctx.violation("MEASURE-FALLBACK", cs.path, "fallback-width", "a glyph without glyph support is measured differently from how its fallback characters are written one by one (char width %s vs per-char %s): layout and render disagree for wide/zero-width characters" % (char_w, cl_w), sites=[cs.loc])

    # ---------------- (e) the sink-full signal ------------------------------------------------------------------------
    ctx.rule("SINK-FULL", "TerminalWriter::put_cell returns false only where get_mut(pos) found no cell (or from the recursive fallback)", floor=1)
    if pc is not None:
        cfg = pc.cfg()
        gm = [(bb, t) for bb, t in pc.calls() if call_matches(t, r"SurfaceMut::get_mut$")]
        none_edge = None
        if len(gm) == 1:
            # the branch on the discriminant of get_mut's result (wherever it is placed): its None edge
            for nb, tt in pc.terms():
                if tt["k"] == "switch" and not pc.blocks[nb]["cleanup"] and cfg.dominates(gm[0][0], nb) \
                        and re.fullmatch(r"discr\(SurfaceMut::get_mut\(arg1\.surf, .*\)\)", expr(pc, tt["d"])):
                    if "0" in tt["vals"]:
                        none_edge = (nb, tt["targets"][tt["vals"].index("0")])
                    elif tt["vals"] == ["1"]:
                        none_edge = (nb, tt["otherwise"])
                    break
        falses, others, opaque = [], [], []
        for kind, i, x in _ret_sources(pc):
            if kind == "const":
                if x == 0:
                    falses.append((i, x))
            elif kind == "call":
                others.append((i, x))
            else:
                opaque.append((i, x))
        # `self.surf.get_mut(pos).map(..).is_some()`-style returns: false exactly when get_mut found no cell
        def _from_get_mut(t):
            return call_matches(t, r"Option::<T>::(is_some|is_some_and)$") and len(gm) == 1 and \
                re.match(r"^(Option::map\()*SurfaceMut::get_mut\(arg1\.surf, ", expr(pc, t["args"][0])) is not None
        ok = (not falses or none_edge is not None) and all(cfg.edge_dominates(none_edge[0], none_edge[1], i) for i, _ in falses) \
            and (bool(falses) or any(_from_get_mut(x) for i, x in others)) and not opaque
        ok_other = all(call_matches(x, r"Iterator::all$") or _from_get_mut(x) for i, x in others)
        ctx.instance("SINK-FULL", {"false_returns": len(falses), "on_get_mut_none_edge": ok, "other_non_constant_returns": len(others), "only_recursive_fallback": ok_other})
        if not (ok and ok_other):
            ctx.violation("SINK-FULL", pc.path, "false-return", "put_cell can report `false` (sink full: the io::Write adapters then discard the rest of the buffer) on a path where the surface is not exhausted", sites=[pc.loc])
