MUTANTS = [
    {"id": "C07-orig-set-debug-assert", "prop": "C07", "expect": "U2-GET",
     "edits": [("src/surface.rs", "        assert!(\n            pos.row < shape.height,", "        debug_assert!(\n            pos.row < shape.height,")]},
    {"id": "C07-unsafe-guard-removed", "prop": "C07", "expect": "U1-UNSAFE",
     "edits": [("src/surface.rs", "        if offset >= self.data.len() {\n            None\n        } else {\n            // this is safe, iterator is always progressing and never\n            // returns a mutable reference to the same location.\n            let ptr = self.data.as_mut_ptr();\n            let item = unsafe { &mut *ptr.add(offset) };\n            Some(item)\n        }",
                "        let ptr = self.data.as_mut_ptr();\n        let item = unsafe { &mut *ptr.add(offset) };\n        Some(item)")]},
    {"id": "C07-unsafe-guard-off-by-one", "prop": "C07", "expect": "U1-UNSAFE",
     "edits": [("src/surface.rs", "        if offset >= self.data.len() {\n            None\n        } else {\n            // this is safe", "        if offset > self.data.len() {\n            None\n        } else {\n            // this is safe")]},
    {"id": "C07-unsafe-other-offset", "prop": "C07", "expect": "U1-UNSAFE",
     "edits": [("src/surface.rs", "let item = unsafe { &mut *ptr.add(offset) };", "let item = unsafe { &mut *ptr.add(offset + self.shape.col_stride - 1) };")]},
    {"id": "C07-get-no-col-guard", "prop": "C07", "expect": "U2-GET",
     "edits": [("src/surface.rs", "    fn get(&self, pos: Position) -> Option<&Self::Item> {\n        let shape = self.shape();\n        if pos.row >= shape.height || pos.col >= shape.width {", "    fn get(&self, pos: Position) -> Option<&Self::Item> {\n        let shape = self.shape();\n        if pos.row >= shape.height {")]},
    {"id": "C07-get-mut-guard-swapped-axes", "prop": "C07", "expect": "U2-GET",
     "edits": [("src/surface.rs", "    fn get_mut(&mut self, pos: Position) -> Option<&mut Self::Item> {\n        let shape = self.shape();\n        if pos.row >= shape.height || pos.col >= shape.width {", "    fn get_mut(&mut self, pos: Position) -> Option<&mut Self::Item> {\n        let shape = self.shape();\n        if pos.row >= shape.width || pos.col >= shape.height {")]},
    {"id": "C07-transpose-no-stride-swap", "prop": "C07", "expect": "U3-SHAPE",
     "edits": [("src/surface.rs", "            col_stride: shape.row_stride,\n            row_stride: shape.col_stride,\n", "")]},
    {"id": "C07-view-rows-cols-mixed", "prop": "C07", "expect": "U3-SHAPE",
     "edits": [("src/surface.rs", "match (cols.view_bounds(self.width), rows.view_bounds(self.height)) {", "match (rows.view_bounds(self.width), cols.view_bounds(self.height)) {")]},
    {"id": "C07-view-start-wrong-corner", "prop": "C07", "expect": "U3-SHAPE",
     "edits": [("src/surface.rs", "let start = self.offset(Position::new(row_start, col_start));", "let start = self.offset(Position::new(col_start, row_start));")]},
    {"id": "C07-from-size-stride-height", "prop": "C07", "expect": "U3-SHAPE",
     "edits": [("src/surface.rs", "            row_stride: size.width,\n            col_stride: 1,", "            row_stride: size.height,\n            col_stride: 1,")]},
    {"id": "C07-offset-formula", "prop": "C07", "expect": "U3-SHAPE",
     "edits": [("src/surface.rs", "self.start + pos.row * self.row_stride + pos.col * self.col_stride", "self.start + pos.row * self.col_stride + pos.col * self.row_stride")]},
    {"id": "C07-new-shape-literal-elsewhere", "prop": "C07", "expect": "U3-SHAPE",
     "edits": [("src/surface.rs", "    fn as_ref(&self) -> SurfaceView<'_, Self::Item> {\n        SurfaceView {\n            shape: self.shape(),", "    fn as_ref(&self) -> SurfaceView<'_, Self::Item> {\n        SurfaceView {\n            shape: Shape { width: self.shape().width + 1, ..self.shape() },")]},
    {"id": "C07-nth-col-plain", "prop": "C07", "expect": "U4-NTH",
     "edits": [("src/surface.rs", "        let col = n - row * self.width;", "        let col = n - row * self.height;")], "expect_alt": "U4"},
    {"id": "C07-nth-row-le", "prop": "C07", "expect": "U4-NTH",
     "edits": [("src/surface.rs", "(row < self.height).then_some(Position { row, col })", "(row <= self.height).then_some(Position { row, col })")]},
    {"id": "C07-fill-loop-swapped-bounds", "prop": "C07", "expect": "U5-LOOPS",
     "edits": [("src/surface.rs", "        let shape = self.shape();\n        let data = self.data_mut();\n        for row in 0..shape.height {\n            for col in 0..shape.width {\n                data[shape.offset(Position::new(row, col))] = item.clone();", "        let shape = self.shape();\n        let data = self.data_mut();\n        for row in 0..shape.width {\n            for col in 0..shape.height {\n                data[shape.offset(Position::new(row, col))] = item.clone();")]},
    {"id": "C07-clear-inclusive-range", "prop": "C07", "expect": "U5-LOOPS",
     "edits": [("src/surface.rs", "            for col in 0..shape.width {\n                data[shape.offset(Position::new(row, col))] = Default::default();", "            for col in 0..=shape.width {\n                data[shape.offset(Position::new(row, col))] = Default::default();")]},
    {"id": "C07-iter-mut-index-not-advanced", "prop": "C07", "expect": "U6-PROGRESS",
     "edits": [("src/surface.rs", "    fn nth(&mut self, n: usize) -> Option<Self::Item> {\n        self.index += n + 1;\n        let pos = self.shape.nth(self.index - 1)?;\n        let offset = self.shape.offset(pos);\n\n        if offset >= self.data.len() {", "    fn nth(&mut self, n: usize) -> Option<Self::Item> {\n        self.index += n;\n        let pos = self.shape.nth(self.index)?;\n        let offset = self.shape.offset(pos);\n\n        if offset >= self.data.len() {")]},
    {"id": "C07-benign-rename-offset", "prop": "C07", "benign": True,
     "edits": [("src/surface.rs", "        let offset = self.shape.offset(pos);\n\n        if offset >= self.data.len() {\n            None\n        } else {\n            // this is safe, iterator is always progressing and never\n            // returns a mutable reference to the same location.\n            let ptr = self.data.as_mut_ptr();\n            let item = unsafe { &mut *ptr.add(offset) };", "        let off = self.shape.offset(pos);\n\n        if off >= self.data.len() {\n            None\n        } else {\n            // this is safe, iterator is always progressing and never\n            // returns a mutable reference to the same location.\n            let ptr = self.data.as_mut_ptr();\n            let item = unsafe { &mut *ptr.add(off) };")]},
    {"id": "C07-benign-get-guard-positive", "prop": "C07", "benign": True,
     "edits": [("src/surface.rs", "    fn get(&self, pos: Position) -> Option<&Self::Item> {\n        let shape = self.shape();\n        if pos.row >= shape.height || pos.col >= shape.width {\n            None\n        } else {\n            self.data().get(shape.offset(pos))\n        }", "    fn get(&self, pos: Position) -> Option<&Self::Item> {\n        let shape = self.shape();\n        if pos.row < shape.height && pos.col < shape.width {\n            self.data().get(shape.offset(pos))\n        } else {\n            None\n        }")]},
    # ---- U8-INDEX: window (row-major) indices vs storage offsets ----
    {"id": "C07-seedC-insert-storage-offset", "prop": "C07", "expect": "U8-INDEX",
     "edits": [("src/surface.rs", 'let index = pos.row * self.width() + pos.col;', "let index = self.shape().offset(pos);")]},
    {"id": "C07-insert-index-by-height", "prop": "C07", "expect": "U8-INDEX",
     "edits": [("src/surface.rs", 'let index = pos.row * self.width() + pos.col;', "let index = pos.row * self.height() + pos.col;")]},
    {"id": "C07-insert-index-by-row-stride", "prop": "C07", "expect": "U8-INDEX",
     "edits": [("src/surface.rs", 'let index = pos.row * self.width() + pos.col;', "let index = pos.row * self.shape().row_stride + pos.col;")]},
    {"id": "C07-insert-index-col-major", "prop": "C07", "expect": "U8-INDEX",
     "edits": [("src/surface.rs", 'let index = pos.row * self.width() + pos.col;', "let index = pos.col * self.width() + pos.row;")]},
    {"id": "C07-insert-nth-off-by-one", "prop": "C07", "expect": "U8-INDEX",
     "edits": [("src/surface.rs", "            iter.nth(index - 1);", "            iter.nth(index);")]},
    {"id": "C07-fill-data-by-window-index", "prop": "C07", "expect": "U8-INDEX",
     "edits": [("src/surface.rs", '            for col in 0..shape.width {\n                data[shape.offset(Position::new(row, col))] = item.clone();', '            for col in 0..shape.width {\n                data[shape.index(Position::new(row, col))] = item.clone();')]},
    {"id": "C07-benign-insert-shape-index", "prop": "C07", "benign": True,
     "edits": [("src/surface.rs", 'let index = pos.row * self.width() + pos.col;', "let index = self.shape().index(pos);")]},
    {"id": "C07-benign-insert-commuted", "prop": "C07", "benign": True,
     "edits": [("src/surface.rs", 'let index = pos.row * self.width() + pos.col;', "let cells_per_row = self.shape().width;\n        let index = pos.col + cells_per_row * pos.row;")]},
    {"id": "C07-benign-insert-skip", "prop": "C07", "benign": True,
     "edits": [("src/surface.rs", '        let index = pos.row * self.width() + pos.col;\n        let mut iter = self.iter_mut();\n        if index > 0 {\n            iter.nth(index - 1);\n        }\n        for (src, dst) in items.into_iter().zip(iter) {\n', '        let index = pos.row * self.width() + pos.col;\n        for (src, dst) in items.into_iter().zip(self.iter_mut().skip(index)) {\n')]},
]

MUTANTS += [
    {"id": "C07-image-serialize-rows-from-data", "prop": "C07", "expect": "U8-INDEX",
     "edits": [("src/image.rs", "        for pixel in self.iter() {\n            writer.write_all(&pixel.to_rgba()).map_err(|err| {\n                ser::Error::custom(format!(\"[Image] faield to serialize data: {err}\"))\n            })?;\n        }",
                "        let shape = self.shape();\n        for row in 0..shape.height {\n            let start = row * shape.row_stride;\n            for pixel in &self.data[start..start + shape.width] {\n                writer.write_all(&pixel.to_rgba()).map_err(|err| {\n                    ser::Error::custom(format!(\"[Image] faield to serialize data: {err}\"))\n                })?;\n            }\n        }")]},
]

# ---- behaviour-preserving refactorings the rules must see through (robustness round) ----
_GET = "    fn get(&self, pos: Position) -> Option<&Self::Item> {\n        let shape = self.shape();\n        if pos.row >= shape.height || pos.col >= shape.width {\n            None\n        } else {\n            self.data().get(shape.offset(pos))\n        }"
_GET_MUT_HEAD = "    fn get_mut(&mut self, pos: Position) -> Option<&mut Self::Item> {\n        let shape = self.shape();\n        if pos.row >= shape.height || pos.col >= shape.width {"
_GET_HEAD = "    fn get(&self, pos: Position) -> Option<&Self::Item> {\n        let shape = self.shape();\n        if pos.row >= shape.height || pos.col >= shape.width {"
_NTH_TAIL = "        if offset >= self.data.len() {\n            None\n        } else {\n            // this is safe, iterator is always progressing and never\n            // returns a mutable reference to the same location.\n            let ptr = self.data.as_mut_ptr();\n            let item = unsafe { &mut *ptr.add(offset) };\n            Some(item)\n        }"
_CLEAR_LOOP = "        for row in 0..shape.height {\n            for col in 0..shape.width {\n                data[shape.offset(Position::new(row, col))] = Default::default();\n            }\n        }"
_FILL_LOOP = "        for row in 0..shape.height {\n            for col in 0..shape.width {\n                data[shape.offset(Position::new(row, col))] = item.clone();\n            }\n        }"
_IMPL_SHAPE = "impl Shape {\n    /// Convert row and col to offset."

MUTANTS += [
    # helper predicate shared by get and get_mut (two callers)
    {"id": "C07-benign-guard-helper-shared", "prop": "C07", "benign": True,
     "edits": [("src/surface.rs", _IMPL_SHAPE, "impl Shape {\n    fn is_outside(&self, pos: Position) -> bool {\n        pos.row >= self.height || pos.col >= self.width\n    }\n\n    /// Convert row and col to offset."),
               ("src/surface.rs", _GET_HEAD, "    fn get(&self, pos: Position) -> Option<&Self::Item> {\n        let shape = self.shape();\n        if shape.is_outside(pos) {"),
               ("src/surface.rs", _GET_MUT_HEAD, "    fn get_mut(&mut self, pos: Position) -> Option<&mut Self::Item> {\n        let shape = self.shape();\n        if shape.is_outside(pos) {")]},
    # the same helper with a wrong predicate must be caught through the helper
    {"id": "C07-guard-helper-swapped-axes", "prop": "C07", "expect": "U2-GET",
     "edits": [("src/surface.rs", _IMPL_SHAPE, "impl Shape {\n    fn is_outside(&self, pos: Position) -> bool {\n        pos.row >= self.width || pos.col >= self.height\n    }\n\n    /// Convert row and col to offset."),
               ("src/surface.rs", _GET_HEAD, "    fn get(&self, pos: Position) -> Option<&Self::Item> {\n        let shape = self.shape();\n        if shape.is_outside(pos) {"),
               ("src/surface.rs", _GET_MUT_HEAD, "    fn get_mut(&mut self, pos: Position) -> Option<&mut Self::Item> {\n        let shape = self.shape();\n        if shape.is_outside(pos) {")]},
    {"id": "C07-guard-helper-and-instead-of-or", "prop": "C07", "expect": "U2-GET",
     "edits": [("src/surface.rs", _IMPL_SHAPE, "impl Shape {\n    fn is_outside(&self, pos: Position) -> bool {\n        pos.row >= self.height && pos.col >= self.width\n    }\n\n    /// Convert row and col to offset."),
               ("src/surface.rs", _GET_HEAD, "    fn get(&self, pos: Position) -> Option<&Self::Item> {\n        let shape = self.shape();\n        if shape.is_outside(pos) {")]},
    # early returns, operands flipped
    {"id": "C07-benign-get-early-returns", "prop": "C07", "benign": True,
     "edits": [("src/surface.rs", _GET, "    fn get(&self, pos: Position) -> Option<&Self::Item> {\n        let shape = self.shape();\n        if shape.height <= pos.row {\n            return None;\n        }\n        if !(shape.width > pos.col) {\n            return None;\n        }\n        self.data().get(shape.offset(pos))")]},
    # a bool local, match instead of if
    {"id": "C07-benign-get-bool-local-match", "prop": "C07", "benign": True,
     "edits": [("src/surface.rs", _GET, "    fn get(&self, pos: Position) -> Option<&Self::Item> {\n        let shape = self.shape();\n        let inside = pos.row < shape.height && pos.col < shape.width;\n        match inside {\n            true => self.data().get(shape.offset(pos)),\n            false => None,\n        }")]},
    # Range::contains
    {"id": "C07-benign-get-range-contains", "prop": "C07", "benign": True,
     "edits": [("src/surface.rs", _GET, "    fn get(&self, pos: Position) -> Option<&Self::Item> {\n        let shape = self.shape();\n        if (0..shape.height).contains(&pos.row) && (0..shape.width).contains(&pos.col) {\n            self.data().get(shape.offset(pos))\n        } else {\n            None\n        }")]},
    {"id": "C07-get-range-contains-inclusive", "prop": "C07", "expect": "U2-GET",
     "edits": [("src/surface.rs", _GET, "    fn get(&self, pos: Position) -> Option<&Self::Item> {\n        let shape = self.shape();\n        if (0..=shape.height).contains(&pos.row) && (0..shape.width).contains(&pos.col) {\n            self.data().get(shape.offset(pos))\n        } else {\n            None\n        }")]},
    # debug_assert! of something that holds, in front of the real guard
    {"id": "C07-benign-get-debug-assert", "prop": "C07", "benign": True,
     "edits": [("src/surface.rs", _GET_HEAD, "    fn get(&self, pos: Position) -> Option<&Self::Item> {\n        let shape = self.shape();\n        debug_assert!(shape.start <= shape.end);\n        if pos.row >= shape.height || pos.col >= shape.width {")]},
    # unsafe guard: condition negated and branches swapped / operands flipped
    {"id": "C07-benign-unsafe-guard-positive", "prop": "C07", "benign": True,
     "edits": [("src/surface.rs", _NTH_TAIL, "        if self.data.len() > offset {\n            let ptr = self.data.as_mut_ptr();\n            let item = unsafe { &mut *ptr.add(offset) };\n            Some(item)\n        } else {\n            None\n        }")]},
    {"id": "C07-benign-unsafe-guard-hoisted-len", "prop": "C07", "benign": True,
     "edits": [("src/surface.rs", _NTH_TAIL, "        let len = self.data.len();\n        if !(offset < len) {\n            return None;\n        }\n        let ptr = self.data.as_mut_ptr();\n        let item = unsafe { &mut *ptr.add(offset) };\n        Some(item)")]},
    {"id": "C07-unsafe-guard-positive-le", "prop": "C07", "expect": "U1-UNSAFE",
     "edits": [("src/surface.rs", _NTH_TAIL, "        if self.data.len() >= offset {\n            let ptr = self.data.as_mut_ptr();\n            let item = unsafe { &mut *ptr.add(offset) };\n            Some(item)\n        } else {\n            None\n        }")]},
    # Shape::nth: remainder operator, if/else instead of then_some, lazy then
    {"id": "C07-benign-nth-rem", "prop": "C07", "benign": True,
     "edits": [("src/surface.rs", "        let col = n - row * self.width;", "        let col = n % self.width;")]},
    {"id": "C07-benign-nth-if-else", "prop": "C07", "benign": True,
     "edits": [("src/surface.rs", "        (row < self.height).then_some(Position { row, col })", "        if self.height > row {\n            Some(Position::new(row, col))\n        } else {\n            None\n        }")]},
    {"id": "C07-benign-nth-then-closure", "prop": "C07", "benign": True,
     "edits": [("src/surface.rs", "        let col = n - row * self.width;\n        (row < self.height).then_some(Position { row, col })", "        let col = n - self.width * row;\n        (row < self.height).then(|| Position { row, col })")]},
    {"id": "C07-nth-rem-by-height", "prop": "C07", "expect": "U4-NTH",
     "edits": [("src/surface.rs", "        let col = n - row * self.width;", "        let col = n % self.height;")]},
    {"id": "C07-nth-if-else-no-guard", "prop": "C07", "expect": "U4-NTH",
     "edits": [("src/surface.rs", "        (row < self.height).then_some(Position { row, col })", "        if self.height >= row {\n            Some(Position::new(row, col))\n        } else {\n            None\n        }")]},
    # loops as iterator chains
    {"id": "C07-benign-clear-iterator-chain", "prop": "C07", "benign": True,
     "edits": [("src/surface.rs", _CLEAR_LOOP, "        (0..shape.height)\n            .flat_map(|row| (0..shape.width).map(move |col| Position::new(row, col)))\n            .for_each(|pos| data[shape.offset(pos)] = Default::default());")]},
    {"id": "C07-benign-fill-nested-for-each", "prop": "C07", "benign": True,
     "edits": [("src/surface.rs", _FILL_LOOP, "        (0..shape.height).for_each(|row| {\n            (0..shape.width).for_each(|col| data[shape.offset(Position::new(row, col))] = item.clone())\n        });")]},
    {"id": "C07-clear-iterator-chain-swapped", "prop": "C07", "expect": "U5-LOOPS",
     "edits": [("src/surface.rs", _CLEAR_LOOP, "        (0..shape.width)\n            .flat_map(|row| (0..shape.height).map(move |col| Position::new(row, col)))\n            .for_each(|pos| data[shape.offset(pos)] = Default::default());")]},
    # hoisted loop invariants
    {"id": "C07-benign-fill-hoisted-bounds", "prop": "C07", "benign": True,
     "edits": [("src/surface.rs", _FILL_LOOP, "        let (rows, cols) = (shape.height, shape.width);\n        for row in 0..rows {\n            for col in 0..cols {\n                let offset = shape.offset(Position::new(row, col));\n                data[offset] = item.clone();\n            }\n        }")]},
    # iterator progress: addends reordered
    {"id": "C07-benign-progress-reordered-sum", "prop": "C07", "benign": True,
     "edits": [("src/surface.rs", "        self.index += n + 1;\n        let pos = self.shape.nth(self.index - 1)?;\n        let offset = self.shape.offset(pos);\n\n        if offset >= self.data.len() {", "        self.index = 1 + self.index + n;\n        let pos = self.shape.nth(self.index - 1)?;\n        let offset = self.shape.offset(pos);\n\n        if offset >= self.data.len() {")]},
    # the empty window built by a private helper of Shape::view; offset formula re-associated
    {"id": "C07-benign-view-empty-helper", "prop": "C07", "benign": True,
     "edits": [("src/surface.rs", "            _ => Shape {\n                height: 0,\n                width: 0,\n                row_stride: 0,\n                col_stride: 0,\n                start: 0,\n                end: 0,\n            },\n        }\n    }\n}", "            _ => Shape::empty_window(),\n        }\n    }\n\n    fn empty_window() -> Self {\n        Shape {\n            height: 0,\n            width: 0,\n            row_stride: 0,\n            col_stride: 0,\n            start: 0,\n            end: 0,\n        }\n    }\n}")]},
    {"id": "C07-benign-offset-reassociated", "prop": "C07", "benign": True,
     "edits": [("src/surface.rs", "self.start + pos.row * self.row_stride + pos.col * self.col_stride", "self.col_stride * pos.col + (self.start + self.row_stride * pos.row)")]},
]

MUTANTS += [
    # the guard and the offset computed by one private helper (two callers), `?` on its result
    {"id": "C07-benign-checked-offset-helper", "prop": "C07", "benign": True,
     "edits": [("src/surface.rs", _IMPL_SHAPE, "impl Shape {\n    fn checked_offset(&self, pos: Position) -> Option<usize> {\n        if pos.row >= self.height || pos.col >= self.width {\n            None\n        } else {\n            Some(self.offset(pos))\n        }\n    }\n\n    /// Convert row and col to offset."),
               ("src/surface.rs", _GET, "    fn get(&self, pos: Position) -> Option<&Self::Item> {\n        let shape = self.shape();\n        self.data().get(shape.checked_offset(pos)?)"),
               ("src/surface.rs", _GET_MUT_HEAD + "\n            None\n        } else {\n            self.data_mut().get_mut(shape.offset(pos))\n        }", "    fn get_mut(&mut self, pos: Position) -> Option<&mut Self::Item> {\n        let shape = self.shape();\n        let offset = shape.checked_offset(pos)?;\n        self.data_mut().get_mut(offset)")]},
    {"id": "C07-checked-offset-helper-no-col", "prop": "C07", "expect": "U2-GET",
     "edits": [("src/surface.rs", _IMPL_SHAPE, "impl Shape {\n    fn checked_offset(&self, pos: Position) -> Option<usize> {\n        if pos.row >= self.height {\n            None\n        } else {\n            Some(self.offset(pos))\n        }\n    }\n\n    /// Convert row and col to offset."),
               ("src/surface.rs", _GET, "    fn get(&self, pos: Position) -> Option<&Self::Item> {\n        let shape = self.shape();\n        self.data().get(shape.checked_offset(pos)?)")]},
]

MUTANTS += [
    # `if index > 0 { nth(index - 1) }` <-> `if let Some(skip) = index.checked_sub(1) { nth(skip) }`
    {"id": "C07-benign-insert-checked-sub", "prop": "C07", "benign": True,
     "edits": [("src/surface.rs", "        if index > 0 {\n            iter.nth(index - 1);\n        }", "        if let Some(skip) = index.checked_sub(1) {\n            iter.nth(skip);\n        }")]},
    {"id": "C07-insert-checked-sub-two", "prop": "C07", "expect": "U8-INDEX",
     "edits": [("src/surface.rs", "        if index > 0 {\n            iter.nth(index - 1);\n        }", "        if let Some(skip) = index.checked_sub(2) {\n            iter.nth(skip);\n        }")]},
]

# the guarded access sits in a closure the function runs (bool::then receiver = the guard, Option combinators)
_GM = "        if pos.row >= shape.height || pos.col >= shape.width {\n            None\n        } else {\n            self.data_mut().get_mut(shape.offset(pos))\n        }\n"
_G = "        if pos.row >= shape.height || pos.col >= shape.width {\n            None\n        } else {\n            self.data().get(shape.offset(pos))\n        }\n"
MUTANTS += [
    {"id": "C07-benign-get-mut-then-flatten", "prop": "C07", "benign": True,
     "edits": [("src/surface.rs", _GM, "        let inside = pos.row < shape.height && pos.col < shape.width;\n        inside\n            .then(|| self.data_mut().get_mut(shape.offset(pos)))\n            .flatten()\n")]},
    {"id": "C07-benign-get-then-negated-receiver", "prop": "C07", "benign": True,
     "edits": [("src/surface.rs", _G, "        let outside = shape.height <= pos.row || shape.width <= pos.col;\n        (!outside).then(|| self.data().get(shape.offset(pos)))?\n")]},
    {"id": "C07-benign-get-guard-inside-closure", "prop": "C07", "benign": True,
     "edits": [("src/surface.rs", _G, "        Some(shape).and_then(|sh| {\n            if pos.row >= shape.height || pos.col >= shape.width {\n                return None;\n            }\n            let _ = sh;\n            self.data().get(shape.offset(pos))\n        })\n")]},
    {"id": "C07-get-mut-then-row-only", "prop": "C07", "expect": "U2-GET/surface::SurfaceMut::get_mut/missing-col-guard",
     "edits": [("src/surface.rs", _GM, "        let inside = pos.row < shape.height;\n        inside\n            .then(|| self.data_mut().get_mut(shape.offset(pos)))\n            .flatten()\n")]},
    {"id": "C07-get-then-receiver-inverted", "prop": "C07", "expect": "U2-GET/surface::Surface::get/missing-",
     "edits": [("src/surface.rs", _G, "        let outside = shape.height <= pos.row || shape.width <= pos.col;\n        outside.then(|| self.data().get(shape.offset(pos)))?\n")]},
    {"id": "C07-get-unwrap-or-else-unguarded", "prop": "C07", "expect": "U2-GET/surface::Surface::get/missing-",
     "edits": [("src/surface.rs", _G, "        let inside = pos.row < shape.height && pos.col < shape.width;\n        inside.then_some(()).map_or_else(|| self.data().get(shape.offset(pos)), |_| None)\n")]},
]

# the offset computed by one stage of the chain and used as the index by the next (`.map(|pos| shape.offset(pos)).for_each(|o| data[o] = v)`),
# a `for` loop over the chain of offsets
_CHAIN_POS = "        (0..shape.height)\n            .flat_map(|row| (0..shape.width).map(move |col| Position::new(row, col)))\n"
MUTANTS += [
    {"id": "C07-benign-fill-offset-stage-chain", "prop": "C07", "benign": True,
     "edits": [("src/surface.rs", _FILL_LOOP, _CHAIN_POS + "            .map(|pos| shape.offset(pos))\n            .for_each(|offset| data[offset] = item.clone());")]},
    {"id": "C07-benign-clear-offset-stage-chain", "prop": "C07", "benign": True,
     "edits": [("src/surface.rs", _CLEAR_LOOP, _CHAIN_POS + "            .map(|pos| shape.offset(pos))\n            .for_each(|offset| data[offset] = Default::default());")]},
    {"id": "C07-benign-clear-offset-stage-inspect", "prop": "C07", "benign": True,
     "edits": [("src/surface.rs", _CLEAR_LOOP, "        let offsets = (0..shape.height)\n            .flat_map(|row| (0..shape.width).map(move |col| shape.offset(Position::new(row, col))));\n        offsets.for_each(|at| data[at] = Default::default());")]},
    {"id": "C07-clear-index-stage-chain", "prop": "C07", "expect": "U8-INDEX/surface::SurfaceMut::clear::{closure#2}/data-index",
     "edits": [("src/surface.rs", _CLEAR_LOOP, _CHAIN_POS + "            .map(|pos| shape.index(pos))\n            .for_each(|offset| data[offset] = Default::default());")]},
    {"id": "C07-fill-offset-stage-chain-swapped", "prop": "C07", "expect": "U5-LOOPS",
     "edits": [("src/surface.rs", _FILL_LOOP, "        (0..shape.width)\n            .flat_map(|row| (0..shape.height).map(move |col| Position::new(row, col)))\n            .map(|pos| shape.offset(pos))\n            .for_each(|offset| data[offset] = item.clone());")]},
    {"id": "C07-fill-offset-stage-plus-one", "prop": "C07", "expect": "U8-INDEX/surface::SurfaceMut::fill::{closure#2}/data-index",
     "edits": [("src/surface.rs", _FILL_LOOP, _CHAIN_POS + "            .map(|pos| shape.offset(pos))\n            .for_each(|offset| data[offset + 1] = item.clone());")]},
    {"id": "C07-benign-fill-for-over-offsets", "prop": "C07", "benign": True,
     "edits": [("src/surface.rs", _FILL_LOOP, "        for offset in (0..shape.height)\n            .flat_map(|row| (0..shape.width).map(move |col| Position::new(row, col)))\n            .map(|pos| shape.offset(pos))\n        {\n            data[offset] = item.clone();\n        }")]},
]

MUTANTS += [
    {"id": "C07-fill-for-over-indices", "prop": "C07", "expect": "U8-INDEX/surface::SurfaceMut::fill/data-index",
     "edits": [("src/surface.rs", _FILL_LOOP, "        for offset in (0..shape.height)\n            .flat_map(|row| (0..shape.width).map(move |col| Position::new(row, col)))\n            .map(|pos| shape.index(pos))\n        {\n            data[offset] = item.clone();\n        }")]},
    {"id": "C07-fill-for-over-offsets-swapped", "prop": "C07", "expect": "U5-LOOPS",
     "edits": [("src/surface.rs", _FILL_LOOP, "        for offset in (0..shape.width)\n            .flat_map(|row| (0..shape.height).map(move |col| Position::new(row, col)))\n            .map(|pos| shape.offset(pos))\n        {\n            data[offset] = item.clone();\n        }")]},
]
