"""C06 mutants: breaking edits (must be reported, still compile) and benign edits (must stay silent).
edits: (file, old text occurring exactly once, new text).  Based on /repo after the four C06 repairs (strike->STRIKE, assign
operators delegating to the binary ones, apply replacing the underline style, sgr_color bounded by take(4)) and the
component-range fix; the `C06-orig-*` entries restore each original defect and must be caught."""
E = "src/encoder.rs"
D = "src/decoder.rs"
F = "src/face.rs"

_FLAG_LOOP = """                for (flag, on, off) in [
                    (face_modify.bold, b"1", b"21"),
                    (face_modify.italic, b"3", b"23"),
                    (face_modify.blink, b"5", b"25"),
                    (face_modify.strike, b"9", b"29"),
                ] {
                    match flag {
                        None => {}
                        Some(true) => self.chunks.push(on),
                        Some(false) => self.chunks.push(off),
                    }
                }
"""
_FLAG_LOOP_RENAMED = """                for (modifier, set_code, clear_code) in [
                    (face_modify.strike, b"9", b"29"),
                    (face_modify.bold, b"1", b"21"),
                    (face_modify.blink, b"5", b"25"),
                    (face_modify.italic, b"3", b"23"),
                ] {
                    match modifier {
                        Some(false) => self.chunks.push(clear_code),
                        Some(true) => self.chunks.push(set_code),
                        None => {}
                    }
                }
"""
_RESET_PUSH = """                if face_modify.reset {
                    self.chunks.push(b"0");
                }
"""
_DEC_BOLD_ITALIC = """            // bold
            Some(1) => face.bold = Some(true),
            Some(21) => face.bold = Some(false),
            // italic
            Some(3) => face.italic = Some(true),
            Some(23) => face.italic = Some(false),
"""
_DEC_ITALIC_BOLD = """            // italic
            Some(23) => face.italic = Some(false),
            Some(3) => face.italic = Some(true),
            // bold
            Some(21) => face.bold = Some(false),
            Some(1) => face.bold = Some(true),
"""
_APPLY_FG_BG = """        if let Some(fg) = self.fg {
            face.fg = Some(fg);
        }
        if let Some(bg) = self.bg {
            face.bg = Some(bg);
        }
"""
_APPLY_BG_FG = """        if let Some(background) = self.bg {
            face.bg = Some(background);
        }
        if let Some(foreground) = self.fg {
            face.fg = Some(foreground);
        }
"""

MUTANTS = [
    # ---- (a) SGR-TABLE
    # (b"3" and b"23" have different array types, so on/off cannot be swapped inside one row; swap across rows / digits instead)
    {"id": "C06-italic-blink-on-codes-swapped", "prop": "C06", "expect": "SGR-TABLE/TTYEncoder::encode/FaceModify/italic-on",
     "edits": [(E, '                    (face_modify.italic, b"3", b"23"),\n                    (face_modify.blink, b"5", b"25"),\n',
                '                    (face_modify.italic, b"5", b"23"),\n                    (face_modify.blink, b"3", b"25"),\n')]},
    {"id": "C06-italic-off-code-25", "prop": "C06", "expect": "SGR-TABLE/TTYEncoder::encode/FaceModify/italic-off",
     "edits": [(E, '(face_modify.italic, b"3", b"23"),', '(face_modify.italic, b"3", b"25"),')]},
    {"id": "C06-italic-on-off-swapped-in-decoder", "prop": "C06", "expect": "SGR-TABLE/TTYEncoder::encode/FaceModify/italic-on",
     "edits": [(D, "            Some(3) => face.italic = Some(true),\n            Some(23) => face.italic = Some(false),\n",
                "            Some(3) => face.italic = Some(false),\n            Some(23) => face.italic = Some(true),\n")]},
    {"id": "C06-decoder-23-is-blink", "prop": "C06", "expect": "SGR-TABLE/TTYEncoder::encode/FaceModify/italic-off",
     "edits": [(D, "Some(23) => face.italic = Some(false),", "Some(23) => face.blink = Some(false),")]},
    {"id": "C06-encoder-double-underline-code", "prop": "C06", "expect": "SGR-TABLE/TTYEncoder::encode/FaceModify/underline-Double",
     "edits": [(E, 'Some(UnderlineStyle::Double) => self.chunks.push(b"4:2"),', 'Some(UnderlineStyle::Double) => self.chunks.push(b"4:3"),')]},
    {"id": "C06-decoder-curly-is-dotted", "prop": "C06", "expect": "underline-Curly",
     "edits": [(D, "Some(3) => face.underline = Some(UnderlineStyle::Curly),", "Some(3) => face.underline = Some(UnderlineStyle::Dotted),")]},
    {"id": "C06-decoder-24-sets-straight", "prop": "C06", "expect": "SGR-TABLE/TTYEncoder::encode/FaceModify/underline-None",
     "edits": [(D, "Some(24) => face.underline = Some(UnderlineStyle::None),", "Some(24) => face.underline = Some(UnderlineStyle::Straight),")]},
    {"id": "C06-encoder-true-false-arms-swapped", "prop": "C06", "expect": "SGR-TABLE/TTYEncoder::encode/FaceModify/bold-on",
     "edits": [(E, "                        Some(true) => self.chunks.push(on),\n                        Some(false) => self.chunks.push(off),\n",
                "                        Some(true) => self.chunks.push(off),\n                        Some(false) => self.chunks.push(on),\n")]},
    {"id": "C06-face-arm-strike-code", "prop": "C06", "expect": "SGR-TABLE/TTYEncoder::encode/Face/strike-on",
     "edits": [(E, '(FaceAttrs::STRIKE, b"9"),', '(FaceAttrs::STRIKE, b"8"),')]},
    {"id": "C06-face-arm-bold-italic-codes-swapped", "prop": "C06", "expect": "SGR-TABLE/TTYEncoder::encode/Face/bold-on",
     "edits": [(E, '                        (FaceAttrs::BOLD, b"1"),\n                        (FaceAttrs::ITALIC, b"3"),\n', '                        (FaceAttrs::BOLD, b"3"),\n                        (FaceAttrs::ITALIC, b"1"),\n')]},
    {"id": "C06-fg-written-as-background", "prop": "C06", "expect": "SGR-TABLE/TTYEncoder::encode/FaceModify/fg-colour",
     "edits": [(E, "                if let Some(fg) = face_modify.fg {\n                    color_sgr_encode(\n                        &mut self.chunks,\n                        fg,\n                        self.caps.depth,\n                        SGRColorType::Foreground,",
                "                if let Some(fg) = face_modify.fg {\n                    color_sgr_encode(\n                        &mut self.chunks,\n                        fg,\n                        self.caps.depth,\n                        SGRColorType::Background,")]},
    {"id": "C06-decoder-58-is-bg", "prop": "C06", "expect": "SGR-TABLE/TTYEncoder::encode/FaceModify/underline_color-colour",
     "edits": [(D, "Some(58) => face.underline_color = sgr_color_thunk(),", "Some(58) => face.bg = sgr_color_thunk(),")]},
    {"id": "C06-encoder-strike-row-missing", "prop": "C06", "expect": "SGR-TABLE/TTYEncoder::encode/FaceModify/missing-strike",
     "edits": [(E, '                    (face_modify.strike, b"9", b"29"),\n', "")]},
    {"id": "C06-decoder-reverse-read-as-blink", "prop": "C06", "expect": "SGR-TABLE/TTYEncoder::encode/Face/REVERSE-misread",
     "edits": [(D, "            // strike\n            Some(9) => face.strike = Some(true),", "            Some(7) => face.blink = Some(true),\n            // strike\n            Some(9) => face.strike = Some(true),")]},
    {"id": "C06-decoder-reset-keeps-fields", "prop": "C06", "expect": "SGR-TABLE/TTYEncoder::encode/FaceModify/reset",
     "edits": [(D, "                face = FaceModify {\n                    reset: true,\n                    ..FaceModify::default()\n                }\n", "                face.reset = face.bold.is_none();\n")]},
    # ---- SGR-COLOR
    {"id": "C06-decoder-rgb-order", "prop": "C06", "expect": "SGR-COLOR/decoder::sgr_color/component-order",
     "edits": [(D, "Some(RGBA::new(r?, g?, b?, 255))", "Some(RGBA::new(b?, g?, r?, 255))")]},
    {"id": "C06-encoder-rgb-order", "prop": "C06", "expect": "SGR-COLOR/decoder::sgr_color/component-order",
     "edits": [(E, "for c in [r, g, b] {", "for c in [b, g, r] {")]},
    {"id": "C06-thunk-always-colon-iterator", "prop": "C06", "expect": "SGR-COLOR/decoder::sgr_face/thunk-iterators",
     "edits": [(D, "                sgr_color(groups.by_ref().take(4))\n", "                sgr_color(&mut args)\n")]},
    # (the ';' form then yields no colour while the ':' form still does: the same diagnosis as for the thunk above)
    {"id": "C06-take-too-short", "prop": "C06", "expect": "SGR-COLOR/decoder::sgr_face/thunk-iterators",
     "edits": [(D, "                sgr_color(groups.by_ref().take(4))\n", "                sgr_color(groups.by_ref().take(3))\n")]},
    {"id": "C06-take-5-reads-next-parameter", "prop": "C06", "expect": "SGR-COLOR/decoder::sgr_color/swallows-next-parameter",
     "edits": [(D, "                sgr_color(groups.by_ref().take(4))\n", "                sgr_color(groups.by_ref().take(5))\n")]},
    {"id": "C06-orig-truncating-component-cast", "prop": "C06", "expect": "SGR-COLOR/decoder::sgr_color/component-overflow",
     "edits": [(D, "                    let [r, g, b] = [r, g, b].map(|c| u8::try_from(c).ok());\n                    Some(RGBA::new(r?, g?, b?, 255))\n",
                "                    Some(RGBA::new(r as u8, g as u8, b as u8, 255))\n")]},
    # ---- SGR-FRAME
    {"id": "C06-reset-pushed-last", "prop": "C06", "expect": "SGR-FRAME/TTYEncoder::encode/FaceModify/reset-not-first",
     "edits": [(E, _RESET_PUSH, ""), (E, _FLAG_LOOP, _FLAG_LOOP + _RESET_PUSH)]},
    {"id": "C06-chunks-joined-by-colon", "prop": "C06", "expect": "SGR-FRAME/TTYEncoder::encode/FaceModify/framing",
     "edits": [(E, '                    self.chunks.drain(b";", &mut out)?;', '                    self.chunks.drain(b":", &mut out)?;')]},
    {"id": "C06-decoder-payload-keeps-m", "prop": "C06", "expect": "SGR-FRAME/GraphicRenditionMatcher::decode/payload",
     "edits": [(D, "Some(sgr_face(&data[2..data.len() - 1]))", "Some(sgr_face(&data[2..data.len()]))")]},
    # ---- (b) APPLY-TABLE
    {"id": "C06-apply-italic-to-blink", "prop": "C06", "expect": "APPLY-TABLE/FaceModify::apply/italic->BLINK",
     "edits": [(F, "            (self.italic, FaceAttrs::ITALIC),\n", "            (self.italic, FaceAttrs::BLINK),\n")]},
    {"id": "C06-apply-insert-remove-swapped", "prop": "C06", "expect": "APPLY-TABLE/FaceModify::apply/set-clear-arms",
     "edits": [(F, "                Some(true) => face.attrs = face.attrs.insert(flag),\n                Some(false) => face.attrs = face.attrs.remove(flag),\n",
                "                Some(true) => face.attrs = face.attrs.remove(flag),\n                Some(false) => face.attrs = face.attrs.insert(flag),\n")]},
    {"id": "C06-apply-blink-row-missing", "prop": "C06", "expect": "APPLY-TABLE/FaceModify::apply/coverage",
     "edits": [(F, "            (self.blink, FaceAttrs::BLINK),\n            (self.strike,", "            (self.strike,")]},
    # applying the bold update twice is idempotent (insert/remove of the same flag): behaviour-preserving, so the observed table must not mind
    {"id": "C06-benign-apply-bold-row-twice", "prop": "C06", "benign": True,
     "edits": [(F, "            (self.italic, FaceAttrs::ITALIC),\n", "            (self.italic, FaceAttrs::ITALIC),\n            (self.bold, FaceAttrs::BOLD),\n")]},
    # ---- APPLY-SEMANTICS
    {"id": "C06-apply-reset-keeps-colours", "prop": "C06", "expect": "APPLY-SEMANTICS/FaceModify::apply/reset",
     "edits": [(F, "            face = Face::default();\n", "            face.attrs = FaceAttrs::EMPTY;\n")]},
    {"id": "C06-apply-fg-sets-bg", "prop": "C06", "expect": "APPLY-SEMANTICS/FaceModify::apply/fg",
     "edits": [(F, "            face.fg = Some(fg);\n", "            face.bg = Some(fg);\n")]},
    {"id": "C06-remove-toggles-flag", "prop": "C06", "expect": "APPLY-SEMANTICS/FaceModify::apply/bold",
     "edits": [(F, "Self::pack(under, self_flags & (other_flags ^ Self::ALL_FLAGS))", "Self::pack(under, self_flags ^ (other_flags & Self::ALL_FLAGS))")]},
    {"id": "C06-insert-replaces-flags", "prop": "C06", "expect": "APPLY-SEMANTICS/FaceModify::apply/bold",
     "edits": [(F, "        Self::pack(under, self_flags | other_flags)\n", "        Self::pack(under, (self_flags & 0) | other_flags)\n")]},
    # ---- (d) BIT-LAYOUT
    {"id": "C06-all-flags-15", "prop": "C06", "expect": "BIT-LAYOUT/FaceAttrs/ALL_FLAGS",
     "edits": [(F, "const ALL_FLAGS: u16 = 31;", "const ALL_FLAGS: u16 = 15;")]},
    {"id": "C06-unpack-shift-2", "prop": "C06", "expect": "BIT-LAYOUT/FaceAttrs::unpack/layout",
     "edits": [(F, "(self.underline(), self.bits >> 3)", "(self.underline(), self.bits >> 2)")]},
    {"id": "C06-underline-mask-2-bits", "prop": "C06", "expect": "BIT-LAYOUT/FaceAttrs::underline/layout",
     "edits": [(F, "match 0b111 & self.bits {", "match 0b11 & self.bits {")]},
    {"id": "C06-pack-double-curly-swapped", "prop": "C06", "expect": "BIT-LAYOUT/FaceAttrs::pack/layout",
     "edits": [(F, "            UnderlineStyle::Double => 2,\n            UnderlineStyle::Curly => 3,\n", "            UnderlineStyle::Double => 3,\n            UnderlineStyle::Curly => 2,\n")]},
    {"id": "C06-pack-shift-4", "prop": "C06", "expect": "BIT-LAYOUT/FaceAttrs::pack/layout",
     "edits": [(F, "bits: underline_bits | (flags << 3),", "bits: underline_bits | (flags << 4),")]},
    {"id": "C06-italic-collides-with-bold", "prop": "C06", "expect": "BIT-LAYOUT/FaceAttrs/const-ITALIC",
     "edits": [(F, "bits: 2 << Self::UNDERLINE_BITS,", "bits: 1 << Self::UNDERLINE_BITS,")]},
    {"id": "C06-underline-curly-const-6", "prop": "C06", "expect": "BIT-LAYOUT/FaceAttrs/const-UNDERLINE_CURLY",
     "edits": [(F, "pub const UNDERLINE_CURLY: Self = FaceAttrs { bits: 3 };", "pub const UNDERLINE_CURLY: Self = FaceAttrs { bits: 6 };")]},
    {"id": "C06-underline-bits-2", "prop": "C06", "expect": "BIT-LAYOUT/FaceAttrs/UNDERLINE_BITS",
     "edits": [(F, "const UNDERLINE_BITS: u16 = 3;", "const UNDERLINE_BITS: u16 = 2;")]},
    # ---- characters
    {"id": "C06-char-debug-format", "prop": "C06", "expect": "CHAR-VERBATIM",
     "edits": [(E, 'Char(c) => write!(out, "{}", c)?,', 'Char(c) => write!(out, "{:?}", c)?,')]},
    # ---- benign
    {"id": "C06-benign-encoder-rename-reorder-rows", "prop": "C06", "benign": True, "edits": [(E, _FLAG_LOOP, _FLAG_LOOP_RENAMED)]},
    {"id": "C06-benign-decoder-arms-reordered", "prop": "C06", "benign": True, "edits": [(D, _DEC_BOLD_ITALIC, _DEC_ITALIC_BOLD)]},
    {"id": "C06-benign-apply-statements-reordered", "prop": "C06", "benign": True, "edits": [(F, _APPLY_FG_BG, _APPLY_BG_FG)]},
    {"id": "C06-benign-apply-rows-reordered", "prop": "C06", "benign": True,
     "edits": [(F, "            (self.bold, FaceAttrs::BOLD),\n            (self.italic, FaceAttrs::ITALIC),\n", "            (self.italic, FaceAttrs::ITALIC),\n            (self.bold, FaceAttrs::BOLD),\n")]},
    {"id": "C06-benign-face-arm-rows-reordered", "prop": "C06", "benign": True,
     "edits": [(E, '                        (FaceAttrs::BOLD, b"1"),\n                        (FaceAttrs::ITALIC, b"3"),\n', '                        (FaceAttrs::ITALIC, b"3"),\n                        (FaceAttrs::BOLD, b"1"),\n')]},
    {"id": "C06-benign-flag-consts-as-literals", "prop": "C06", "benign": True,
     "edits": [(F, "bits: 16 << Self::UNDERLINE_BITS,", "bits: 128,")]},
    # ---- breaks only the combination of several flag updates
    {"id": "C06-flags-combined-broken", "prop": "C06", "expect": "APPLY-SEMANTICS/FaceModify::apply/flags-combined",
     "edits": [(F, "                Some(false) => face.attrs = face.attrs.remove(flag),\n",
                "                Some(false) => face.attrs = if self.bold == Some(true) { face.attrs } else { face.attrs.remove(flag) },\n")]},
    # ---- the original defects of the tree (repaired in /repo by 97ddd8a, 731bf05, b5ccb64, 462e7d1): each must be caught
    {"id": "C06-orig-strike-to-bold", "prop": "C06", "expect": "APPLY-TABLE/FaceModify::apply/strike->BOLD",
     "edits": [(F, "            (self.strike, FaceAttrs::STRIKE),\n", "            (self.strike, FaceAttrs::BOLD),\n")]},
    {"id": "C06-orig-strike-to-bold-semantics", "prop": "C06", "expect": "APPLY-SEMANTICS/FaceModify::apply/strike",
     "edits": [(F, "            (self.strike, FaceAttrs::STRIKE),\n", "            (self.strike, FaceAttrs::BOLD),\n")]},
    {"id": "C06-orig-bitor-assign-raw-bits", "prop": "C06", "expect": "SIBLING-OPS/FaceAttrs/BitOrAssign",
     "edits": [(F, "        *self = *self | rhs\n", "        self.bits |= rhs.bits\n")]},
    {"id": "C06-orig-bitand-assign-raw-bits", "prop": "C06", "expect": "SIBLING-OPS/FaceAttrs/BitAndAssign",
     "edits": [(F, "        *self = *self & rhs\n", "        self.bits &= rhs.bits\n")]},
    {"id": "C06-orig-bitxor-assign-raw-bits", "prop": "C06", "expect": "SIBLING-OPS/FaceAttrs/BitXorAssign",
     "edits": [(F, "        *self = *self ^ rhs\n", "        self.bits ^= rhs.bits\n")]},
    {"id": "C06-bitand-assign-uses-or", "prop": "C06", "expect": "SIBLING-OPS/FaceAttrs/BitAndAssign",
     "edits": [(F, "        *self = *self & rhs\n", "        *self = *self | rhs\n")]},
    {"id": "C06-orig-apply-underline-or-assign", "prop": "C06", "expect": "APPLY-SEMANTICS/FaceModify::apply/underline",
     "edits": [(F, "            face.attrs = FaceAttrs::pack(underline, face.attrs.unpack().1);\n", "            face.attrs |= underline.into();\n")]},
    {"id": "C06-orig-apply-underline-and-raw-ops", "prop": "C06", "expect": "APPLY-SEMANTICS/FaceModify::apply/underline",
     "edits": [(F, "            face.attrs = FaceAttrs::pack(underline, face.attrs.unpack().1);\n", "            face.attrs |= underline.into();\n"),
               (F, "        *self = *self | rhs\n", "        self.bits |= rhs.bits\n")]},
    {"id": "C06-orig-sgr-color-unbounded", "prop": "C06", "expect": "SGR-COLOR/decoder::sgr_color/swallows-next-parameter",
     "edits": [(D, "sgr_color(groups.by_ref().take(4))", "sgr_color(&mut groups)")]},
    {"id": "C06-benign-take-via-ref-mut", "prop": "C06", "benign": True,
     "edits": [(D, "sgr_color(groups.by_ref().take(4))", "sgr_color((&mut groups).take(4))")]},
    # ---- UTF8-LANG: the UTF-8 grammar of the decoders (utf8_nfa) must admit the RFC 3629 encoding of every character
    # the seed C06-D: exclusive range drops lead byte 0xF4 (plane 16)
    {"id": "C06-utf8-four-lead-exclusive-range", "prop": "C06", "expect": "UTF8-LANG/UTF8Matcher(NotEscape)/4-byte-lead-f4",
     "edits": [(D, "let utf8_four = NFA::predicate(|b| b >> 3 == 0b11110);", "let utf8_four = NFA::predicate(|b| (0xf0..0xf4).contains(&b));")]},
    {"id": "C06-utf8-four-lead-in-automaton", "prop": "C06", "expect": "UTF8-LANG/TTY_COMMAND_AUTOMATA/4-byte-lead-f4",
     "edits": [(D, "let utf8_four = NFA::predicate(|b| b >> 3 == 0b11110);", "let utf8_four = NFA::predicate(|b| b >= 0xf0 && b < 0xf4);")]},
    {"id": "C06-utf8-two-lead-exclusive-range", "prop": "C06", "expect": "UTF8-LANG/UTF8Matcher(NotEscape)/2-byte-lead-df",
     "edits": [(D, "let utf8_two = NFA::predicate(|b| b >> 5 == 0b110);", "let utf8_two = NFA::predicate(|b| (0xc2..0xdf).contains(&b));")]},
    {"id": "C06-utf8-three-lead-shift", "prop": "C06", "expect": "UTF8-LANG/UTF8DFA/3-byte-lead-e0",
     "edits": [(D, "let utf8_three = NFA::predicate(|b| b >> 4 == 0b1110);", "let utf8_three = NFA::predicate(|b| b >> 4 == 0b1110 && b & 0x0f != 0);")]},
    {"id": "C06-utf8-tail-exclusive-range", "prop": "C06", "expect": "UTF8-LANG/UTF8Matcher(NotEscape)/2-byte-continuation-after-c2..df",
     "edits": [(D, "let utf8_tail = NFA::predicate(|b| b >> 6 == 0b10);", "let utf8_tail = NFA::predicate(|b| (0x80..0xbf).contains(&b));")]},
    {"id": "C06-utf8-notescape-drops-controls", "prop": "C06", "expect": "UTF8-LANG/UTF8Matcher(NotEscape)/1-byte-lead-00..1a",
     "edits": [(D, "UTF8Mode::NotEscape => NFA::predicate(|b| b >> 7 == 0b0 && b != b'\\x1b'),", "UTF8Mode::NotEscape => NFA::predicate(|b| b >> 7 == 0b0 && b > b'\\x1b'),")]},
    {"id": "C06-utf8-command-uses-printable", "prop": "C06", "expect": "UTF8-LANG/UTF8Matcher(Printable)/1-byte-lead-",
     "edits": [(D, "UTF8Matcher::new(UTF8Mode::Printable)\n", "UTF8Matcher::new(UTF8Mode::NotEscape)\n"),
               (D, "UTF8Matcher::new(UTF8Mode::NotEscape).map(TerminalCommand::Char)", "UTF8Matcher::new(UTF8Mode::Printable).map(TerminalCommand::Char)")]},
    # a predicate form the grammar evaluator does not fold is an anchor (fail closed), not a crash and not silence
    {"id": "C06-utf8-unfoldable-predicate", "prop": "C06", "expect": "UTF8-LANG/ANCHOR/grammar-",
     "edits": [(D, "let utf8_four = NFA::predicate(|b| b >> 3 == 0b11110);", "let utf8_four = NFA::predicate(|b| b.reverse_bits() & 0x1f == 0x0f);")]},
    # the same classes written differently, or tightened towards RFC 3629 without losing a scalar value
    {"id": "C06-benign-utf8-four-inclusive-range", "prop": "C06", "benign": True,
     "edits": [(D, "let utf8_four = NFA::predicate(|b| b >> 3 == 0b11110);", "let utf8_four = NFA::predicate(|b| (0xf0..=0xf7).contains(&b));")]},
    {"id": "C06-benign-utf8-four-mask", "prop": "C06", "benign": True,
     "edits": [(D, "let utf8_four = NFA::predicate(|b| b >> 3 == 0b11110);", "let utf8_four = NFA::predicate(|b| b & 0xf8 == 0xf0);")]},
    {"id": "C06-benign-utf8-four-rfc-tight", "prop": "C06", "benign": True,
     "edits": [(D, "let utf8_four = NFA::predicate(|b| b >> 3 == 0b11110);", "let utf8_four = NFA::predicate(|b| matches!(b, 0xf0..=0xf4));")]},
    {"id": "C06-benign-utf8-four-leading-ones", "prop": "C06", "benign": True,
     "edits": [(D, "let utf8_four = NFA::predicate(|b| b >> 3 == 0b11110);", "let utf8_four = NFA::predicate(|b| b.leading_ones() == 4);")]},
    {"id": "C06-benign-utf8-two-no-overlong", "prop": "C06", "benign": True,
     "edits": [(D, "let utf8_two = NFA::predicate(|b| b >> 5 == 0b110);", "let utf8_two = NFA::predicate(|b| (0xc2..=0xdf).contains(&b));")]},
    {"id": "C06-benign-utf8-tail-signed-compare", "prop": "C06", "benign": True,
     "edits": [(D, "let utf8_tail = NFA::predicate(|b| b >> 6 == 0b10);", "let utf8_tail = NFA::predicate(|b| (b as i8) < -64);")]},
]

# ---------------- behaviour-preserving refactorings the rules must stay silent on (robustness) ----------------
_MATCH_FLAG = """                    match flag {
                        None => {}
                        Some(true) => self.chunks.push(on),
                        Some(false) => self.chunks.push(off),
                    }
"""
_SELECTOR_FN = """fn sgr_color_selector(sgr_color_type: &SGRColorType) -> &'static [u8] {
    match sgr_color_type {
        SGRColorType::Underline => b"58",
        SGRColorType::Background => b"48",
        SGRColorType::Foreground => b"38",
    }
}

"""
_SELECTOR_MATCH = """            match sgr_color_type {
                SGRColorType::Foreground => chunks.push(b"38"),
                SGRColorType::Background => chunks.push(b"48"),
                SGRColorType::Underline => chunks.push(b"58"),
            }
"""
_FACE_FLAGS = """                    for (flag, code) in [
                        (FaceAttrs::BOLD, b"1"),
                        (FaceAttrs::ITALIC, b"3"),
                        (FaceAttrs::BLINK, b"5"),
                        (FaceAttrs::REVERSE, b"7"),
                        (FaceAttrs::STRIKE, b"9"),
                    ] {
                        if face.attrs.contains(flag) {
                            self.chunks.push(code);
                        }
                    }
"""
_FACE_FLAGS_ITER = """                    [
                        (FaceAttrs::BOLD, b"1"),
                        (FaceAttrs::ITALIC, b"3"),
                        (FaceAttrs::BLINK, b"5"),
                        (FaceAttrs::REVERSE, b"7"),
                        (FaceAttrs::STRIKE, b"9"),
                    ]
                    .iter()
                    .filter(|(flag, _)| face.attrs.contains(*flag))
                    .for_each(|(_, code)| self.chunks.push(*code));
"""
_NUMBER_DECODE = """    let mut result = 0usize;
    for b in data.iter() {
        match b {
            b'0'..=b'9' => {
                // numbers that do not fit are reported as unrecognized
                result = result.checked_mul(10)?.checked_add((b - b'0') as usize)?;
            }
            _ => return None,
        }
    }
    Some(result)
"""
_NUMBER_DECODE_FOLD = """    let mut result = Some(0usize);
    data.iter().for_each(|b| {
        result = match (result, b) {
            (Some(acc), b'0'..=b'9') => acc.checked_mul(10).and_then(|v| v.checked_add((b - b'0') as usize)),
            _ => None,
        }
    });
    result
"""
_APPLY_LOOP = """        for (update, flag) in [
            (self.bold, FaceAttrs::BOLD),
            (self.italic, FaceAttrs::ITALIC),
            (self.blink, FaceAttrs::BLINK),
            (self.strike, FaceAttrs::STRIKE),
        ] {
            match update {
                Some(true) => face.attrs = face.attrs.insert(flag),
                Some(false) => face.attrs = face.attrs.remove(flag),
                _ => {}
            }
        }
"""
_APPLY_ITER = """        let updates = [
            (self.strike, FaceAttrs::STRIKE),
            (self.blink, FaceAttrs::BLINK),
            (self.italic, FaceAttrs::ITALIC),
            (self.bold, FaceAttrs::BOLD),
        ];
        updates.into_iter().for_each(|(update, flag)| {
            if let Some(on) = update {
                face.attrs = if on {
                    face.attrs.insert(flag)
                } else {
                    face.attrs.remove(flag)
                };
            }
        });
"""
_APPLY_FAST_PATH = """        let flags = [self.bold, self.italic, self.blink, self.strike];
        if !self.reset
            && self.fg.is_none()
            && self.bg.is_none()
            && self.underline.is_none()
            && flags.iter().all(Option::is_none)
        {
            return face;
        }
"""
MUTANTS += [
    # if-let + conditional expression instead of a three-arm match (seeded/benign/C05-B)
    {"id": "C06-benign-flag-loop-if-let", "prop": "C06", "benign": True,
     "edits": [(E, _MATCH_FLAG, "                    if let Some(enabled) = flag {\n                        self.chunks.push(if enabled { &on[..] } else { &off[..] });\n                    }\n")]},
    # helpers extracted: flush of the parameter list, selector of a colour role (seeded/benign/C05-A, C06-A, C20-A)
    {"id": "C06-benign-sgr-flush-helper", "prop": "C06", "benign": True,
     "edits": [(E, "    fn kitty_level<W: Write>(&self, mut out: W, level: usize) -> Result<(), Error> {",
                "    fn sgr_begin(&mut self) {\n        self.chunks.clear();\n    }\n\n    fn sgr_flush<W: Write>(&mut self, mut out: W) -> Result<(), Error> {\n        out.write_all(b\"\\x1b[\")?;\n        self.chunks.drain(b\";\", &mut out)?;\n        out.write_all(b\"m\")?;\n        Ok(())\n    }\n\n    fn kitty_level<W: Write>(&self, mut out: W, level: usize) -> Result<(), Error> {"),
               (E, "            Face(face) => {\n                self.chunks.clear();\n", "            Face(face) => {\n                self.sgr_begin();\n"),
               (E, "                out.write_all(b\"\\x1b[\")?;\n                self.chunks.drain(b\";\", &mut out)?;\n                out.write_all(b\"m\")?;\n            }\n            FaceModify(face_modify) => {\n                self.chunks.clear();\n",
                "                self.sgr_flush(&mut out)?;\n            }\n            FaceModify(face_modify) => {\n                self.sgr_begin();\n"),
               (E, "                if !self.chunks.is_empty() {\n                    out.write_all(b\"\\x1b[\")?;\n                    self.chunks.drain(b\";\", &mut out)?;\n                    out.write_all(b\"m\")?;\n                }",
                "                if !self.chunks.is_empty() {\n                    self.sgr_flush(out)?;\n                }")]},
    {"id": "C06-benign-colour-selector-helper", "prop": "C06", "benign": True,
     "edits": [(E, "/// Encode color as SGR sequence\n", _SELECTOR_FN + "/// Encode color as SGR sequence\n"),
               (E, "            let [r, g, b] = color.to_rgb();\n" + _SELECTOR_MATCH + "            chunks.push(b\"2\");\n            for c in [r, g, b] {\n                write!(chunks, \"{}\", c)?;",
                "            let components = color.to_rgb();\n            chunks.push(sgr_color_selector(&sgr_color_type));\n            chunks.push(b\"2\");\n            for component in components {\n                write!(chunks, \"{}\", component)?;"),
               (E, _SELECTOR_MATCH, "            chunks.push(sgr_color_selector(&sgr_color_type));\n")]},
    # named constants for literals
    {"id": "C06-benign-named-sgr-consts", "prop": "C06", "benign": True,
     "edits": [(E, "/// Encode color as SGR sequence\n", "const SGR_RESET: &[u8] = b\"0\";\nconst SGR_SEP: &[u8] = b\";\";\n\n/// Encode color as SGR sequence\n"),
               (E, "                self.chunks.clear();\n                self.chunks.push(b\"0\");", "                self.chunks.clear();\n                self.chunks.push(SGR_RESET);"),
               (E, "                if face_modify.reset {\n                    self.chunks.push(b\"0\");", "                if face_modify.reset {\n                    self.chunks.push(SGR_RESET);"),
               (E, "                if !self.chunks.is_empty() {\n                    out.write_all(b\"\\x1b[\")?;\n                    self.chunks.drain(b\";\", &mut out)?;",
                "                if !self.chunks.is_empty() {\n                    write!(out, \"\\x1b[\")?;\n                    self.chunks.drain(SGR_SEP, &mut out)?;")]},
    # loop <-> iterator chain: encoder table, decoder number parser, apply's table
    {"id": "C06-benign-face-flags-iterator", "prop": "C06", "benign": True, "edits": [(E, _FACE_FLAGS, _FACE_FLAGS_ITER)]},
    {"id": "C06-benign-number-decode-for-each", "prop": "C06", "benign": True, "edits": [(D, _NUMBER_DECODE, _NUMBER_DECODE_FOLD)]},
    {"id": "C06-benign-apply-iterator", "prop": "C06", "benign": True, "edits": [(F, _APPLY_LOOP, _APPLY_ITER)]},
    # while-let <-> loop + let-else; range pattern <-> guard
    {"id": "C06-benign-decoder-loop-let-else", "prop": "C06", "benign": True,
     "edits": [(D, "    while let Some(group) = groups.next() {\n        let mut args = group.split(|b| matches!(b, b':'));",
                "    loop {\n        let Some(group) = groups.next() else { break };\n        let mut args = group.split(|b| *b == b':');")]},
    {"id": "C06-benign-decoder-guard-arm", "prop": "C06", "benign": True,
     "edits": [(D, "            Some(v @ 30..=37) => face.fg = Some(COLORS[v - 30]),", "            Some(v) if (30..=37).contains(&v) => face.fg = Some(COLORS[v - 30]),")]},
    # exact fast path and statements under debug_assert! (seeded/benign/C06-C)
    {"id": "C06-benign-apply-fast-path", "prop": "C06", "benign": True,
     "edits": [(F, "    pub fn apply(&self, mut face: Face) -> Face {\n", "    pub fn apply(&self, mut face: Face) -> Face {\n" + _APPLY_FAST_PATH)]},
    {"id": "C06-benign-chunks-mark-debug-assert", "prop": "C06", "benign": True,
     "edits": [(E, "        self.offsets.push(self.buffer.len());\n", "        let end = self.buffer.len();\n        debug_assert!(self.offsets.last().map_or(true, |last| *last <= end));\n        self.offsets.push(end);\n"),
               (E, "        self.buffer.extend(chunk);\n", "        self.buffer.extend_from_slice(chunk);\n")]},
    # ... while the same shapes with a wrong value are still caught
    {"id": "C06-flag-loop-if-let-swapped", "prop": "C06", "expect": "SGR-TABLE/TTYEncoder::encode/FaceModify/bold-on",
     "edits": [(E, _MATCH_FLAG, "                    if let Some(enabled) = flag {\n                        self.chunks.push(if enabled { &off[..] } else { &on[..] });\n                    }\n")]},
    {"id": "C06-selector-helper-wrong-role", "prop": "C06", "expect": "SGR-TABLE/TTYEncoder::encode/FaceModify/underline_color-colour",
     "edits": [(E, "/// Encode color as SGR sequence\n", _SELECTOR_FN.replace('Underline => b"58"', 'Underline => b"48"') + "/// Encode color as SGR sequence\n"),
               (E, "            let [r, g, b] = color.to_rgb();\n" + _SELECTOR_MATCH, "            let [r, g, b] = color.to_rgb();\n            chunks.push(sgr_color_selector(&sgr_color_type));\n"),
               (E, _SELECTOR_MATCH, "            chunks.push(sgr_color_selector(&sgr_color_type));\n")]},
    {"id": "C06-apply-iterator-wrong-direction", "prop": "C06", "expect": "APPLY-TABLE/FaceModify::apply/set-clear-arms",
     "edits": [(F, _APPLY_LOOP, _APPLY_ITER.replace("face.attrs = if on {", "face.attrs = if !on {"))]},
    {"id": "C06-apply-fast-path-ignores-underline", "prop": "C06", "expect": "APPLY-SEMANTICS/FaceModify::apply/underline",
     "edits": [(F, "    pub fn apply(&self, mut face: Face) -> Face {\n", "    pub fn apply(&self, mut face: Face) -> Face {\n" + _APPLY_FAST_PATH.replace("            && self.underline.is_none()\n", ""))]},
]

_UNDERLINE_MATCH = """                match face_modify.underline {
                    None => {}
                    Some(UnderlineStyle::None) => self.chunks.push(b"24"),
                    Some(UnderlineStyle::Straight) => self.chunks.push(b"4"),
                    Some(UnderlineStyle::Double) => self.chunks.push(b"4:2"),
                    Some(UnderlineStyle::Curly) => self.chunks.push(b"4:3"),
                    Some(UnderlineStyle::Dotted) => self.chunks.push(b"4:4"),
                    Some(UnderlineStyle::Dashed) => self.chunks.push(b"4:5"),
                }
"""
_UNDERLINE_IF_LET = """                if let Some(style) = face_modify.underline {
                    let code: &[u8] = match style {
                        UnderlineStyle::Dashed => b"4:5",
                        UnderlineStyle::Dotted => b"4:4",
                        UnderlineStyle::Curly => b"4:3",
                        UnderlineStyle::Double => b"4:2",
                        UnderlineStyle::Straight => b"4",
                        UnderlineStyle::None => b"24",
                    };
                    self.chunks.push(code);
                }
"""
_UNDERLINE_TABLE = """                if let Some(style) = face_modify.underline {
                    const CODES: [&[u8]; 6] = [b"24", b"4", b"4:2", b"4:3", b"4:4", b"4:5"];
                    self.chunks.push(CODES[style as usize]);
                }
"""
MUTANTS += [
    {"id": "C06-benign-underline-if-let-match-expr", "prop": "C06", "benign": True, "edits": [(E, _UNDERLINE_MATCH, _UNDERLINE_IF_LET)]},
    {"id": "C06-underline-if-let-match-expr-swapped", "prop": "C06", "expect": "SGR-TABLE/TTYEncoder::encode/FaceModify/underline-D",
     "edits": [(E, _UNDERLINE_MATCH, _UNDERLINE_IF_LET.replace('Dashed => b"4:5"', 'Dashed => b"4:4"').replace('Dotted => b"4:4"', 'Dotted => b"4:5"'))]},
    {"id": "C06-benign-underline-code-table", "prop": "C06", "benign": True, "edits": [(E, _UNDERLINE_MATCH, _UNDERLINE_TABLE)]},
    # components written without the fmt machinery (a correct version of seeded/C06-E)
    {"id": "C06-benign-components-to-string", "prop": "C06", "benign": True,
     "edits": [(E, "            for c in [r, g, b] {\n                write!(chunks, \"{}\", c)?;\n                chunks.mark();\n            }",
                "            for c in [r, g, b] {\n                chunks.push(c.to_string().as_bytes());\n            }")]},
    {"id": "C06-components-hand-rolled-digits-off-by-one", "prop": "C06", "expect": "SGR-COLOR/encoder::color_sgr_encode/component-value",
     "edits": [(E, "            for c in [r, g, b] {\n                write!(chunks, \"{}\", c)?;\n                chunks.mark();\n            }",
                "            for c in [r, g, b] {\n                let mut digits = Vec::new();\n                if c > 100 {\n                    digits.push(b'0' + c / 100);\n                }\n                if c > 10 {\n                    digits.push(b'0' + c / 10 % 10);\n                }\n                digits.push(b'0' + c % 10);\n                chunks.push(&digits);\n            }")]},
]

# ---- Char written without the fmt machinery: the UTF-8 encoding through encode_utf8 / to_string (what Display of a char writes);
# ---- and the same shapes writing something else (first byte only, a buffer too small for 3- and 4-byte characters)
_CHAR_ARM = 'Char(c) => write!(out, "{}", c)?,'
MUTANTS += [
    {"id": "C06-benign-char-encode-utf8", "prop": "C06", "benign": True,
     "edits": [(E, _CHAR_ARM, "Char(c) => out.write_all(c.encode_utf8(&mut [0u8; 4]).as_bytes())?,")]},
    {"id": "C06-benign-char-to-string-bytes", "prop": "C06", "benign": True,
     "edits": [(E, _CHAR_ARM, "Char(c) => out.write_all(c.to_string().as_bytes())?,")]},
    {"id": "C06-benign-char-encode-utf8-larger-buffer", "prop": "C06", "benign": True,
     "edits": [(E, _CHAR_ARM, "Char(c) => out.write_all(c.encode_utf8(&mut [0; 8]).as_bytes())?,")]},
    {"id": "C06-char-first-byte-only", "prop": "C06", "expect": "CHAR-VERBATIM/",
     "edits": [(E, _CHAR_ARM, "Char(c) => out.write_all(&c.encode_utf8(&mut [0u8; 4]).as_bytes()[..1])?,")]},
    {"id": "C06-char-encode-utf8-short-buffer", "prop": "C06", "expect": "CHAR-VERBATIM/",
     "edits": [(E, _CHAR_ARM, "Char(c) => out.write_all(c.encode_utf8(&mut [0u8; 2]).as_bytes())?,")]},
]
MUTANTS += [
    {"id": "C06-benign-char-string-from-bytes", "prop": "C06", "benign": True,
     "edits": [(E, _CHAR_ARM, "Char(c) => out.write_all(String::from(c).as_bytes())?,")]},
    {"id": "C06-benign-char-to-string-into-bytes", "prop": "C06", "benign": True,
     "edits": [(E, _CHAR_ARM, "Char(c) => out.write_all(&c.to_string().into_bytes())?,")]},
    {"id": "C06-benign-char-display-of-encoded-str", "prop": "C06", "benign": True,
     "edits": [(E, _CHAR_ARM, 'Char(c) => write!(out, "{}", c.encode_utf8(&mut [0u8; 4]))?,')]},
    {"id": "C06-benign-char-inline-format-arg", "prop": "C06", "benign": True,
     "edits": [(E, _CHAR_ARM, 'Char(c) => write!(out, "{c}")?,')]},
    {"id": "C06-char-debug-of-encoded-str", "prop": "C06", "expect": "CHAR-VERBATIM/",
     "edits": [(E, _CHAR_ARM, 'Char(c) => write!(out, "{:?}", c.encode_utf8(&mut [0u8; 4]))?,')]},
]

# ---- APPLY-PRODUCT: fields of ONE modification combined (reset + underline + colours + flags), seeded/C06-H
_APPLY_HEAD = """    pub fn apply(&self, mut face: Face) -> Face {
        if self.reset {
            face = Face::default();
        }
"""
_APPLY_UNDERLINE = """        if let Some(underline) = self.underline {
            face.attrs = FaceAttrs::pack(underline, face.attrs.unpack().1);
        }
"""
_APPLY_WHOLE = _APPLY_HEAD + _APPLY_FG_BG + _APPLY_UNDERLINE + "        // TODO: underline_color\n" + _APPLY_LOOP + "        face\n    }\n"


def _apply_expr(flags_from, colours_from="base"):
    # the expression-style rewrite of seeded/C06-H; flags_from="base" is the correct refactoring, "face" the seed
    return """    pub fn apply(&self, face: Face) -> Face {
        let base = if self.reset { Face::default() } else { face };
        let mut attrs = match self.underline {
            Some(underline) => FaceAttrs::pack(underline, %s.attrs.unpack().1),
            None => base.attrs,
        };
        // TODO: underline_color
        for (update, flag) in [
            (self.bold, FaceAttrs::BOLD),
            (self.italic, FaceAttrs::ITALIC),
            (self.blink, FaceAttrs::BLINK),
            (self.strike, FaceAttrs::STRIKE),
        ] {
            match update {
                Some(true) => attrs = attrs.insert(flag),
                Some(false) => attrs = attrs.remove(flag),
                None => {}
            }
        }
        Face {
            fg: self.fg.or(%s.fg),
            bg: self.bg.or(%s.bg),
            attrs,
        }
    }
""" % (flags_from, colours_from, colours_from)


_APPLY_UNWRAP_OR = """    pub fn apply(&self, face: Face) -> Face {
        let start = if self.reset { Face::default() } else { face };
        let (old_style, old_flags) = start.attrs.unpack();
        let style = self.underline.unwrap_or(old_style);
        let attrs = [
            (self.strike, FaceAttrs::STRIKE),
            (self.bold, FaceAttrs::BOLD),
            (self.blink, FaceAttrs::BLINK),
            (self.italic, FaceAttrs::ITALIC),
        ]
        .into_iter()
        .fold(FaceAttrs::pack(style, old_flags), |acc, (update, flag)| match update {
            Some(true) => acc.insert(flag),
            Some(false) => acc.remove(flag),
            None => acc,
        });
        Face {
            fg: match self.fg {
                Some(color) => Some(color),
                None => start.fg,
            },
            bg: if self.bg.is_some() { self.bg } else { start.bg },
            attrs,
        }
    }
"""
_APPLY_RESET_RECURSE = """    pub fn apply(&self, mut face: Face) -> Face {
        if self.reset {
            let rest = FaceModify {
                reset: false,
                ..*self
            };
            return rest.apply(Face::default());
        }
"""
_APPLY_UNDERLINE_SNAPSHOT = """    pub fn apply(&self, mut face: Face) -> Face {
        let old_flags = face.attrs.unpack().1;
        if self.reset {
            face = Face::default();
        }
"""
MUTANTS += [
    # the seed itself: in the Some(underline) arm the flags come from the incoming face, not from the possibly reset base
    {"id": "C06-product-seed-H-expression-style", "prop": "C06", "expect": "APPLY-PRODUCT/FaceModify::apply/reset+underline:flags",
     "edits": [(F, _APPLY_WHOLE, _apply_expr("face"))]},
    # the same slip in today's imperative spelling: flags snapshotted before the reset
    {"id": "C06-product-underline-flags-snapshot-before-reset", "prop": "C06", "expect": "APPLY-PRODUCT/FaceModify::apply/reset+underline:flags",
     "edits": [(F, _APPLY_HEAD, _APPLY_UNDERLINE_SNAPSHOT),
               (F, "            face.attrs = FaceAttrs::pack(underline, face.attrs.unpack().1);\n", "            face.attrs = FaceAttrs::pack(underline, old_flags);\n")]},
    # near misses: each single field still right, only a combination is wrong
    {"id": "C06-product-colours-from-incoming-face", "prop": "C06", "expect": "APPLY-SEMANTICS/FaceModify::apply/reset",
     "edits": [(F, _APPLY_WHOLE, _apply_expr("base", "face"))]},
    {"id": "C06-product-reset-returns-early", "prop": "C06", "expect": "APPLY-PRODUCT/FaceModify::apply/reset+fg:fg",
     "edits": [(F, "            face = Face::default();\n", "            return Face::default();\n")]},
    {"id": "C06-product-reset-after-colours", "prop": "C06", "expect": "APPLY-PRODUCT/FaceModify::apply/reset+bg:bg",
     "edits": [(F, _APPLY_HEAD + _APPLY_FG_BG, "    pub fn apply(&self, mut face: Face) -> Face {\n" + _APPLY_FG_BG + "        if self.reset {\n            face = Face::default();\n        }\n")]},
    {"id": "C06-product-bg-only-without-fg", "prop": "C06", "expect": "APPLY-PRODUCT/FaceModify::apply/fg+bg:bg",
     "edits": [(F, "            face.fg = Some(fg);\n        }\n        if let Some(bg) = self.bg {\n", "            face.fg = Some(fg);\n        } else if let Some(bg) = self.bg {\n")]},
    {"id": "C06-product-underline-after-loop-stale-flags", "prop": "C06", "expect": "APPLY-PRODUCT/FaceModify::apply/underline+",
     "edits": [(F, _APPLY_UNDERLINE + "        // TODO: underline_color\n" + _APPLY_LOOP,
                "        let before = face.attrs.unpack().1;\n" + _APPLY_LOOP + _APPLY_UNDERLINE.replace("face.attrs.unpack().1", "before"))]},
    # benign: the correct version of the refactoring the seed disguises itself as, and other spellings of the same function
    {"id": "C06-benign-apply-expression-style", "prop": "C06", "benign": True, "edits": [(F, _APPLY_WHOLE, _apply_expr("base"))]},
    {"id": "C06-benign-apply-unwrap-or-fold", "prop": "C06", "benign": True, "edits": [(F, _APPLY_WHOLE, _APPLY_UNWRAP_OR)]},
    {"id": "C06-benign-apply-underline-after-loop", "prop": "C06", "benign": True,
     "edits": [(F, _APPLY_UNDERLINE + "        // TODO: underline_color\n" + _APPLY_LOOP, _APPLY_LOOP + _APPLY_UNDERLINE)]},
    {"id": "C06-benign-apply-reset-recurses-on-default", "prop": "C06", "benign": True, "edits": [(F, _APPLY_HEAD, _APPLY_RESET_RECURSE)]},
    {"id": "C06-benign-apply-colours-via-with", "prop": "C06", "benign": True,
     "edits": [(F, _APPLY_FG_BG, "        face = face.with_fg(self.fg.or(face.fg)).with_bg(self.bg.or(face.bg));\n")]},
    {"id": "C06-benign-apply-debug-assert-reset", "prop": "C06", "benign": True,
     "edits": [(F, "            face = Face::default();\n", "            face = Face::default();\n            debug_assert!(face.fg.is_none() && face.attrs == FaceAttrs::EMPTY);\n")]},
]

# ---------------- round 6: literals of sgr_color as named constants used as match patterns ----------------
_SGR_COLOR_FN = "fn sgr_color<'a>(mut cmds: impl Iterator<Item = &'a [u8]>) -> Option<RGBA> {\n    match number_decode(cmds.next()?)? {\n        5 => {\n"


def _sgr_color_consts(palette, rgb):
    return ("const SGR_COLOR_PALETTE: usize = %d;\nconst SGR_COLOR_RGB: usize = %d;\n\n" % (palette, rgb)
            + _SGR_COLOR_FN.replace("        5 => {\n", "        SGR_COLOR_PALETTE => {\n"))


_CUBE_MUT = ("                index -= 16;\n                let ri = index / 36;\n                index -= ri * 36;\n                let gi = index / 6;\n"
             "                index -= gi * 6;\n                let bi = index;\n")
MUTANTS += [
    {"id": "C06-benign-sgr-color-const-patterns", "prop": "C06", "benign": True,
     "edits": [(D, _SGR_COLOR_FN, _sgr_color_consts(5, 2)), (D, "        2 => {\n            // true color\n", "        SGR_COLOR_RGB => {\n            // true color\n")]},
    {"id": "C06-benign-sgr-color-cube-offset-div-mod", "prop": "C06", "benign": True,
     "edits": [(D, "            let mut index = number_decode(cmds.next()?)?;\n            if index < 16 {", "            let index = number_decode(cmds.next()?)?;\n            if index < 16 {"),
               (D, _CUBE_MUT, "                let offset = index - 16;\n                let ri = offset / 36;\n                let gi = offset / 6 % 6;\n                let bi = offset % 6;\n"
                              "                debug_assert!(ri < CUBE.len() && gi < CUBE.len() && bi < CUBE.len());\n")]},
    {"id": "C06-sgr-color-const-patterns-swapped", "prop": "C06", "expect": "SGR-COLOR/decoder::sgr_color",
     "edits": [(D, _SGR_COLOR_FN, _sgr_color_consts(2, 5)), (D, "        2 => {\n            // true color\n", "        SGR_COLOR_RGB => {\n            // true color\n")]},
]
