"""Path-sensitive symbolic evaluation of loop-free MIR regions (static: no repository code is run).

`paths(body, start, stop)` enumerates every control-flow path of a region and evaluates it over symbolic
terms, so that multi-definition locals (`let (a, b) = if c {..} else {..}`, `color = blend(color)`) are
resolved per path.  Each path carries the branch facts that hold on it, the calls it makes (with argument
terms), the stores through references and the returned term.  Terms are nested tuples:

  ("c", text)                   constant (integers as decimal text)
  ("arg", n)                    n-th argument (references and derefs are transparent, as in flow.expr)
  ("var", l)                    local with several definitions outside the evaluated region
  ("f", t, name)                field            ("dc", t, variant)   enum downcast
  ("ix", t, i)                  index            ("bin", op, a, b)    ("un", op, a)   ("cast", ty, a)
  ("agg", name, variant, (fields..), (fnames..))      ("tuple", (fields..))     ("discr", t)
  ("try", t)                    `t?` (Try::branch): ("f", ("dc", ("try", t), "Continue"), "0") is the unwrapped value
  ("upd", t, why)               value of a local after it was modified through `&mut` (call `why`) or a store; t = value before
  ("call", name, (args..), tag)  tag: "#<bb>" for calls taking `&mut` (every occurrence is distinct), "@<epoch>" for
                                 pure calls (equal arguments in the same memory epoch give equal terms)
Facts are canonical: ("lt", a, b) ("le", a, b) ("eq", a, b) ("ne", a, b) ("is", t, discr) ("isnot", t, (discrs..))
("true", t) ("false", t).   `a > b` is ("lt", b, a); a negated `a < b` is ("le", b, a)."""
import re
from .mir import call_matches
from .flow import TRANSPARENT_CALLS, _short_path


class TooManyPaths(Exception):
    pass


class Call:
    __slots__ = ("bb", "name", "names", "args", "term", "t", "epoch", "pos", "body")

    def __init__(self, bb, t, args, term, epoch, pos, body=None):
        self.body = body        # the Body the call is written in (a closure body when the call was reached through an expanded combinator)
        f = t["fn"]
        self.bb = bb
        self.t = t
        self.name = f.get("resolved") or f.get("path") or "<indirect>"
        self.names = [n for n in (f.get("path"), f.get("resolved")) if n]
        self.args = args
        self.term = term
        self.epoch = epoch
        self.pos = pos          # ordinal of the event on the path (calls and stores share the counter)

    def matches(self, rx):
        return any(re.search(rx, n) for n in self.names)


class Path:
    def __init__(self):
        self.blocks = []
        self.facts = []
        self.asserts = []
        self.calls = []
        self.stores = []      # (target term, value term, bb, pos)
        self.ret = None
        self.end = None       # ("return"|"stop"|"loop"|"unreachable"|"diverge", bb)
        self.env = None

    def has(self, fact):
        return fact in self.facts


def is_const(t):
    return isinstance(t, tuple) and t[0] == "c"


def const_int(t):
    if is_const(t):
        try:
            return int(t[1])
        except (TypeError, ValueError):
            return None
    return None


def strip(t):
    """term without call tags (for matching across epochs)"""
    if not isinstance(t, tuple) or not t:
        return t
    if t[0] == "call" and len(t) == 4:
        return ("call", t[1], tuple(strip(a) for a in t[2]), None)
    return tuple(strip(x) for x in t)


def subterms(t):
    if isinstance(t, tuple):
        yield t
        for x in t[1:]:
            if isinstance(x, tuple):
                if x and isinstance(x[0], str):
                    yield from subterms(x)
                else:
                    for y in x:
                        yield from subterms(y)


def show(t):
    if not isinstance(t, tuple):
        return str(t)
    k = t[0]
    if k == "c":
        return str(t[1])
    if k == "arg":
        return "arg%d" % t[1]
    if k == "var":
        return "var%d" % t[1]
    if k == "f":
        return "%s.%s" % (show(t[1]), t[2])
    if k == "dc":
        return "%s@%s" % (show(t[1]), t[2])
    if k == "ix":
        return "%s[%s]" % (show(t[1]), show(t[2]))
    if k == "bin":
        return "%s(%s, %s)" % (t[1], show(t[2]), show(t[3]))
    if k == "un":
        return "%s(%s)" % (t[1], show(t[2]))
    if k == "cast":
        return "(%s as %s)" % (show(t[2]), t[1])
    if k == "discr":
        return "discr(%s)" % show(t[1])
    if k == "try":
        return "%s?" % show(t[1])
    if k == "upd":
        return "%s'%s" % (show(t[1]), t[2])
    if k == "call":
        return "%s(%s)" % (_short_path(t[1]), ", ".join(show(a) for a in t[2]))
    if k == "agg":
        nm = t[1].split("::")[-1] + ("::" + t[2] if t[2] and t[2] != t[1].split("::")[-1] else "")
        if t[4] and not t[4][0].isdigit():
            return "%s{%s}" % (nm, ", ".join("%s: %s" % (n, show(f)) for n, f in zip(t[4], t[3])))
        return "%s(%s)" % (nm, ", ".join(show(f) for f in t[3]))
    if k == "tuple":
        return "(%s)" % ", ".join(show(f) for f in t[1])
    if k in ("lt", "le", "eq", "ne"):
        return "%s %s %s" % (show(t[1]), {"lt": "<", "le": "<=", "eq": "==", "ne": "!="}[k], show(t[2]))
    if k in ("is", "isnot"):
        return "discr(%s) %s %s" % (show(t[1]), "==" if k == "is" else "not in", t[2])
    if k in ("true", "false"):
        return ("" if k == "true" else "!") + show(t[1])
    return "%s(%s)" % (k, ", ".join(show(x) if isinstance(x, tuple) else str(x) for x in t[1:]))


_CMP = {"Lt": ("lt", False), "Le": ("le", False), "Gt": ("lt", True), "Ge": ("le", True)}


def norm_fact(d, truth):
    """canonical fact for `d evaluates to truth`"""
    if isinstance(d, tuple) and d[0] == "un" and d[1] == "Not":
        return norm_fact(d[2], not truth)
    if isinstance(d, tuple) and d[0] == "bin":
        op, a, b = d[1], d[2], d[3]
        if op in _CMP:
            k, flip = _CMP[op]
            if flip:
                a, b = b, a
            if not truth:           # !(a < b) == b <= a ; !(a <= b) == b < a
                k, a, b = ("le" if k == "lt" else "lt"), b, a
            # integer constants on the right: x <= k  ==  x < k+1 ;  k <= x == k-1 < x  (canonical: strict)
            if k == "le" and const_int(b) is not None:
                k, b = "lt", ("c", str(const_int(b) + 1))
            elif k == "le" and const_int(a) is not None:
                k, a = "lt", ("c", str(const_int(a) - 1))
            return (k, a, b)
        if op in ("Eq", "Ne"):
            k = "eq" if (op == "Eq") == truth else "ne"
            if repr(b) < repr(a) and not is_const(b):
                a, b = b, a
            if is_const(a) and not is_const(b):
                a, b = b, a
            return (k, a, b)
    return ("true" if truth else "false", d)


class Evaluator:
    def __init__(self, body, max_paths=4000, combinators=False):
        self.body = body
        self.max_paths = max_paths
        self._glob = {}
        self._busy = set()
        # combinators=True: calls of Option::{map, filter, unwrap_or, unwrap_or_else, map_or, map_or_else, and_then, or, or_else, copied, cloned} and
        # bool::{then, then_some} are evaluated by their definition (a case split on Some/None resp. true/false, closure bodies evaluated in place with
        # their captures), so that a path carries the same facts, calls and value terms as the `match` / `if` the combinator chain stands for
        self.combinators = combinators
        self.tagp = ""          # prefix of the "#<bb>" call tags (closure bodies evaluated in place get their own name space)
        self.depth = 0

    # ---- terms -------------------------------------------------------------------------------------
    def operand(self, o, env):
        if o["k"] == "const":
            c = o["c"]
            if "int" in c:
                return ("c", c["int"])
            if "fn" in c:
                return ("c", "fn:" + (c["fn"].get("resolved") or c["fn"]["path"]))
            if c.get("static"):
                return ("c", "static:" + c["static"])
            return ("c", c.get("def") or c.get("text", "?"))
        return self.place(o["place"], env)

    def local(self, l, env):
        if env is not None and l in env:
            return env[l]
        b = self.body
        if 0 < l <= b.arg_count:
            return ("arg", l)
        if l in self._glob:
            return self._glob[l]
        if l in self._busy:
            return ("var", l)
        ds = b.defs_of(l)
        if len(ds) != 1:
            return ("var", l)
        self._busy.add(l)
        try:
            bb, si, rv = ds[0]
            if si == "term":
                t = self.call_term(bb, rv, None, tag="@g" if self.value_call(rv) else "#%d" % bb)
            else:
                t = self.rvalue(rv, None)
        finally:
            self._busy.discard(l)
        self._glob[l] = t
        return t

    def place(self, place, env):
        t = self.local(place["l"], env)
        for e in place["p"]:
            t = self.project(t, e, env)
        return t

    def project(self, t, e, env):
        k = e["k"]
        if k == "deref":
            return t
        if k == "field":
            if t[0] == "agg" and e["i"] < len(t[3]):
                return t[3][e["i"]]
            if t[0] == "tuple" and e["i"] < len(t[1]):
                return t[1][e["i"]]
            if t[0] == "bin" and t[1].endswith("WithOverflow"):
                return ("bin", t[1].replace("WithOverflow", ""), t[2], t[3]) if e["i"] == 0 else ("ovf", t)
            return ("f", t, e["name"])
        if k == "downcast":
            if t[0] == "agg" and t[2] == e["variant"]:
                return t
            return ("dc", t, e["variant"])
        if k == "index":
            return ("ix", t, self.local(e["l"], env))
        if k == "cindex" and not e["from_end"]:
            return ("ix", t, ("c", str(e["offset"])))
        return ("proj", t, repr(sorted((a, b) for a, b in e.items() if not isinstance(b, (dict, list)))))

    def rvalue(self, rv, env):
        k = rv["k"]
        if k == "use":
            return self.operand(rv["a"], env)
        if k in ("ref", "rawptr"):
            return self.place(rv["place"], env)
        if k == "bin":
            return ("bin", rv["op"], self.operand(rv["a"], env), self.operand(rv["b"], env))
        if k == "un":
            return ("un", rv["op"], self.operand(rv["a"], env))
        if k == "cast":
            a = self.operand(rv["a"], env)
            if rv["ck"].startswith("PointerCoercion"):
                return a
            if rv["ck"] in ("Transmute", "PtrToPtr") and a[0] == "f" and a[2] == "pointer" and a[1][0] == "f" and a[1][2] == "0":
                return a[1][1]      # Box<T> deref as lowered by rustc (box.0.pointer transmuted to *const T): transparent like references
            return ("cast", rv["ty"], a) if rv["ck"] == "IntToInt" else ("cast", rv["ck"] + ":" + rv["ty"], a)
        if k == "discr":
            return ("discr", self.place(rv["place"], env))
        if k == "agg":
            fs = tuple(self.operand(f, env) for f in rv["fields"])
            if rv["ak"] == "tuple":
                return ("tuple", fs)
            if rv["ak"] == "adt":
                return ("agg", rv["adt"], rv["variant"], fs, tuple(rv["fnames"]))
            if rv["ak"] == "closure":
                return ("agg", "closure:" + rv["def"], "", fs, ())
            return ("agg", rv["ak"], "", fs, ())
        if k == "repeat":
            return ("repeat", self.operand(rv["a"], env), ("c", str(rv.get("n"))))
        return ("rv", k, rv.get("text", ""))

    @staticmethod
    def impure(t):
        return any(re.match(r"^&('\w+ )?mut ", ty) for ty in t.get("arg_tys", []))

    _SCALAR = re.compile(r"^(u8|u16|u32|u64|u128|usize|i8|i16|i32|i64|i128|isize|bool|char|f32|f64)$")

    def value_call(self, t):
        """pure call returning a primitive scalar: equal arguments (same memory epoch) give equal values; every other call
        occurrence is a distinct term (fresh objects such as Vec::new() must not be conflated)"""
        d = t["dest"]
        return not self.impure(t) and not d["p"] and bool(self._SCALAR.match(self.body.local_ty(d["l"])))

    def transparent(self, t):
        return bool(t["args"]) and any(call_matches(t, p) for p in TRANSPARENT_CALLS)

    def call_term(self, bb, t, env, tag):
        args = tuple(self.operand(a, env) for a in t["args"])
        if args and call_matches(t, r"^std::ops::Try::branch$|^<.* as std::ops::Try>::branch$"):
            return ("try", args[0])     # `x?`: discriminant 0 = Continue (payload of Some/Ok), 1 = Break
        if any(call_matches(t, p) for p in TRANSPARENT_CALLS) and args:
            return args[0]
        f = t["fn"]
        name = f.get("resolved") or f.get("path") or "<indirect>"
        return ("call", name, args, tag)

    # ---- which local does a reference temporary point into -------------------------------------------------
    def root_of(self, l, depth=0):
        """the local whose storage reference-typed local l points into (l itself when unknown / an argument)"""
        b = self.body
        if depth > 12 or 0 < l <= b.arg_count:
            return l
        ds = b.defs_of(l)
        if len(ds) != 1:
            return l
        bb, si, rv = ds[0]
        if si == "term":
            for a in rv["args"]:
                if a["k"] in ("copy", "move") and re.match(r"^&|^\*", b.local_ty(a["place"]["l"])):
                    return self.root_of(a["place"]["l"], depth + 1)
            return l
        if rv["k"] in ("ref", "rawptr"):
            pl = rv["place"]
            if pl["p"] and pl["p"][0]["k"] == "deref":
                return self.root_of(pl["l"], depth + 1)
            return pl["l"]
        if rv["k"] in ("use", "cast") and rv["a"]["k"] in ("copy", "move"):
            return self.root_of(rv["a"]["place"]["l"], depth + 1)
        return l

    def _havoc(self, env, l, why):
        """the value held in local l was modified through a `&mut` (call or store): it is a new, unknown value"""
        ty = self.body.local_ty(l)
        if re.match(r"^&|^\*", ty):
            return          # a reference: the pointee is outside this frame (memory is not modelled)
        env[l] = ("upd", self.local(l, env), why)

    # ---- paths -----------------------------------------------------------------------------------------
    def paths(self, start=0, stop=(), env=None, epoch=0, pos=0):
        out = []
        stop = set(stop)
        self._walk(start, dict(env or {}), Path(), stop, out, epoch, pos, True)
        return out

    # ---- combinators evaluated by their definition -------------------------------------------------------
    _COMB = re.compile(r"^(?:std|core)::option::Option::<T>::(map|filter|unwrap_or|unwrap_or_else|map_or|map_or_else|and_then|or|or_else|copied|cloned)$"
                       r"|^(?:std|core)::bool::<impl bool>::(then|then_some)$")
    OPTION = "std::option::Option"

    @classmethod
    def some(cls, v):
        return ("agg", cls.OPTION, "Some", (v,), ("0",))

    @classmethod
    def none(cls):
        return ("agg", cls.OPTION, "None", (), ())

    def _invoke(self, f, args, epoch, pos, site):
        """outcomes [(facts, asserts, calls, stores, value, epoch, pos)] of calling closure term f with argument terms; None when f is not a closure
        of this crate whose body is loop free and returns on every path"""
        if not (isinstance(f, tuple) and f[0] == "agg" and f[1].startswith("closure:")) or self.depth >= 4:
            return None
        cb = self.body.prog.body(f[1][len("closure:"):])
        if cb is None or cb.arg_count != 1 + len(args):
            return None
        sub = Evaluator(cb, self.max_paths, True)
        sub.depth = self.depth + 1
        sub.tagp = "%s%d~" % (self.tagp, site)
        env = {1: f}
        for i, a in enumerate(args):
            env[2 + i] = a
        try:
            ps = sub.paths(0, (), env, epoch, pos)
        except TooManyPaths:
            return None
        outs = []
        for p in ps:
            if p.end[0] in ("infeasible", "unreachable"):
                continue
            if p.end[0] != "return" or p.ret is None:
                return None
            outs.append((p.facts, p.asserts, p.calls, p.stores, p.ret, p.epoch, p.pos))
        return outs or None

    @staticmethod
    def _bool_const(t):
        if is_const(t):
            if t[1] in ("true", "false"):
                return t[1] == "true"
            if const_int(t) in (0, 1):
                return const_int(t) == 1
        return None

    def _opt_split(self, opt, facts):
        """[(is_some, payload, new facts)] of an Option-valued term under the facts of the path"""
        if opt[0] == "agg" and opt[1] == self.OPTION:
            return [(True, opt[3][0], [])] if opt[2] == "Some" and opt[3] else [(False, None, [])]
        payload = ("f", ("dc", opt, "Some"), "0")
        for f in facts:
            if f[0] == "is" and f[1] == opt:
                return [(True, payload, [])] if f[2] == "1" else [(False, None, [])]
            if f[0] == "isnot" and f[1] == opt and set(f[2]) & {"0", "1"}:
                return [(False, None, [])] if "1" in f[2] else [(True, payload, [])]
        return [(True, payload, [("is", opt, "1")]), (False, None, [("is", opt, "0")])]

    def _combinator(self, t, args, facts, epoch, pos, site):
        """outcomes (as _invoke) of a combinator call evaluated by its definition; None: treat as an ordinary call"""
        f = t["fn"]
        m = None
        for n in (f.get("resolved"), f.get("path")):
            m = m or (self._COMB.match(n) if n else None)
        if m is None or not args:
            return None
        op = m.group(1) or m.group(2)
        plain = lambda fs, v: (list(fs), [], [], [], v, epoch, pos)     # noqa: E731

        def called(fs, fn, fargs, wrap):
            rs = self._invoke(fn, fargs, epoch, pos, site)
            if rs is None:
                return None
            return [(list(fs) + list(r[0]), r[1], r[2], r[3], wrap(r[4]), r[5], r[6]) for r in rs]
        ident = lambda v: v     # noqa: E731
        outs = []
        if op in ("then", "then_some"):
            b = self._bool_const(args[0])
            for truth in (True, False):
                if b is not None and b != truth:
                    continue
                fs = [] if b is not None else [norm_fact(args[0], truth)]
                if not truth:
                    outs.append(plain(fs, self.none()))
                elif op == "then_some":
                    outs.append(plain(fs, self.some(args[1])))
                else:
                    r = called(fs, args[1], (), self.some)
                    if r is None:
                        return None
                    outs += r
            return outs
        for is_some, x, fs in self._opt_split(args[0], facts):
            r = None
            if op == "map":
                r = called(fs, args[1], (x,), self.some) if is_some else [plain(fs, self.none())]
            elif op in ("copied", "cloned"):
                r = [plain(fs, self.some(x) if is_some else self.none())]
            elif op == "filter":
                if not is_some:
                    r = [plain(fs, self.none())]
                else:
                    rs = called(fs, args[1], (x,), ident)
                    if rs is not None:
                        r = []
                        for o in rs:
                            b = self._bool_const(o[4])
                            for truth in (True, False):
                                if b is not None and b != truth:
                                    continue
                                extra = [] if b is not None else [norm_fact(o[4], truth)]
                                r.append((o[0] + extra, o[1], o[2], o[3], self.some(x) if truth else self.none(), o[5], o[6]))
            elif op == "unwrap_or":
                r = [plain(fs, x if is_some else args[1])]
            elif op == "unwrap_or_else":
                r = [plain(fs, x)] if is_some else called(fs, args[1], (), ident)
            elif op == "map_or":
                r = called(fs, args[2], (x,), ident) if is_some else [plain(fs, args[1])]
            elif op == "map_or_else":
                r = called(fs, args[2], (x,), ident) if is_some else called(fs, args[1], (), ident)
            elif op == "and_then":
                r = called(fs, args[1], (x,), ident) if is_some else [plain(fs, self.none())]
            elif op == "or":
                r = [plain(fs, (args[0] if args[0][0] == "agg" else self.some(x)) if is_some else args[1])]
            elif op == "or_else":
                r = [plain(fs, args[0] if args[0][0] == "agg" else self.some(x))] if is_some else called(fs, args[1], (), ident)
            if r is None:
                return None
            outs += r
        return outs or None

    def _walk(self, bb, env, path, stop, out, epoch, pos, first):
        body = self.body
        while True:
            if not first and bb in stop:
                path.end = ("stop", bb)
                break
            if bb in path.blocks:
                path.end = ("loop", bb)
                break
            first = False
            path.blocks.append(bb)
            blk = body.blocks[bb]
            for s in blk["stmts"]:
                if s["k"] != "assign":
                    continue
                pl = s["place"]
                val = self.rvalue(s["rv"], env)
                if not pl["p"]:
                    env[pl["l"]] = val
                elif pl["p"][0]["k"] != "deref" and all(e["k"] == "field" for e in pl["p"]) and len(pl["p"]) == 1:
                    cur = env.get(pl["l"])
                    i = pl["p"][0]["i"]
                    if cur is not None and cur[0] == "tuple" and i < len(cur[1]):
                        env[pl["l"]] = ("tuple", cur[1][:i] + (val,) + cur[1][i + 1:])
                    elif cur is not None and cur[0] == "agg" and i < len(cur[3]):
                        env[pl["l"]] = cur[:3] + (cur[3][:i] + (val,) + cur[3][i + 1:],) + cur[4:]
                    else:
                        pos += 1
                        path.stores.append((self.place(pl, env), val, bb, pos))
                else:
                    pos += 1
                    epoch += 1
                    path.stores.append((self.place(pl, env), val, bb, pos))
                    if pl["p"][0]["k"] == "deref":
                        r = self.root_of(pl["l"])
                        if r != pl["l"]:
                            self._havoc(env, r, "store#%d.%d" % (bb, pos))
                    else:
                        self._havoc(env, pl["l"], "store#%d.%d" % (bb, pos))
            t = blk["term"]
            k = t["k"]
            if k == "goto":
                bb = t["t"]
                continue
            if k == "drop":
                bb = t["t"]
                continue
            if k == "assert":
                c = self.operand(t["cond"], env)
                path.asserts.append(norm_fact(c, bool(t["expected"])))
                bb = t["t"]
                continue
            if k == "call":
                imp = self.impure(t)
                tag = "@%d" % epoch if self.value_call(t) else "#%s%d" % (self.tagp, bb)
                outs = self._combinator(t, tuple(self.operand(a, env) for a in t["args"]), path.facts, epoch, pos, bb) if self.combinators and t["t"] >= 0 else None
                if outs:
                    d = t["dest"]
                    last = len(outs) - 1
                    for i, (fs, asr, cs, sts, val, ep2, pos2) in enumerate(outs):
                        p2 = self._fork(path) if i < last else path
                        e2 = dict(env) if i < last else env
                        p2.facts += [f for f in fs if f not in p2.facts]
                        p2.asserts += asr
                        p2.calls += cs
                        p2.stores += sts
                        if not d["p"]:
                            e2[d["l"]] = val
                        else:
                            p2.stores.append((self.place(d, e2), val, bb, pos2))
                        if i < last:
                            if len(out) > self.max_paths:
                                raise TooManyPaths(self.body.path)
                            self._walk(t["t"], e2, p2, stop, out, ep2, pos2, False)
                        else:
                            epoch, pos = ep2, pos2
                    bb = t["t"]
                    continue
                term = self.call_term(bb, t, env, tag)
                if not self.transparent(t):
                    pos += 1
                    path.calls.append(Call(bb, t, tuple(self.operand(a, env) for a in t["args"]), term, epoch, pos, body))
                if imp:
                    epoch += 1
                    for a, ty in zip(t["args"], t.get("arg_tys", [])):
                        if re.match(r"^&('\w+ )?mut ", ty) and a["k"] in ("copy", "move") and not a["place"]["p"]:
                            r = self.root_of(a["place"]["l"])
                            if r != a["place"]["l"]:
                                self._havoc(env, r, "%s#%d" % (term[1].split("::")[-1] if term[0] == "call" else "call", bb))
                d = t["dest"]
                if not d["p"]:
                    env[d["l"]] = term
                else:
                    path.stores.append((self.place(d, env), term, bb, pos))
                if t["t"] < 0:
                    path.end = ("diverge", bb)
                    break
                bb = t["t"]
                continue
            if k == "switch":
                d = self.operand(t["d"], env)
                succ = {}
                for v, tg in zip(t["vals"], t["targets"]):
                    succ.setdefault(tg, []).append(v)
                ci = const_int(d)
                if d[0] == "discr" and d[1][0] == "agg" and isinstance(d[1][2], str):
                    vi = self._variant_index(d[1])
                    if vi is not None:
                        ci = vi
                if ci is not None:
                    bb = t["targets"][t["vals"].index(str(ci))] if str(ci) in t["vals"] else t["otherwise"]
                    continue
                edges = []
                for tg, vs in succ.items():
                    edges.append((tg, vs, False))
                if t["otherwise"] not in succ:
                    edges.append((t["otherwise"], list(t["vals"]), True))
                else:
                    # otherwise shares a target with listed values: no fact on that edge
                    edges = [(tg, vs, False) if tg != t["otherwise"] else (tg, None, False) for tg, vs, _ in edges]
                isbool = t.get("dty") == "bool"
                edges = [e for e in edges if not (body.blocks[e[0]]["term"]["k"] == "unreachable" and not body.blocks[e[0]]["stmts"])]
                if not edges:
                    path.end = ("unreachable", bb)
                    break
                # an edge whose fact contradicts a fact already on the path is infeasible (only for terms that denote
                # immutable values: by-value arguments, constants and pure operators over them)
                live = []
                for tg, vs, other in edges:
                    fs = self._switch_facts(d, vs, other, isbool) if vs is not None else []
                    if self.stable(d) and any(self._negated(f) in path.facts for f in fs):
                        continue
                    live.append((tg, fs))
                if not live:
                    path.end = ("infeasible", bb)
                    break
                for tg, fs in live[:-1]:
                    p2 = self._fork(path)
                    p2.facts += fs
                    if len(out) > self.max_paths:
                        raise TooManyPaths(self.body.path)
                    self._walk(tg, dict(env), p2, stop, out, epoch, pos, False)
                tg, fs = live[-1]
                path.facts += fs
                bb = tg
                continue
            if k == "return":
                path.ret = self.local(0, env)
                path.end = ("return", bb)
                break
            path.end = (k, bb)
            break
        path.env = env
        path.epoch, path.pos = epoch, pos
        out.append(path)

    def stable(self, d):
        if d[0] == "c":
            return True
        if d[0] == "arg":
            ty = self.body.local_ty(d[1])
            return not (ty.startswith("&") or ty.startswith("*"))
        if d[0] in ("bin",):
            return self.stable(d[2]) and self.stable(d[3])
        if d[0] in ("un", "cast"):
            return self.stable(d[2])
        return False

    @staticmethod
    def _negated(f):
        k = f[0]
        if k == "true":
            return ("false", f[1])
        if k == "false":
            return ("true", f[1])
        if k == "eq":
            return ("ne", f[1], f[2])
        if k == "ne":
            return ("eq", f[1], f[2])
        if k == "lt":
            return norm_fact(("bin", "Lt", f[1], f[2]), False)
        if k == "le":
            return norm_fact(("bin", "Le", f[1], f[2]), False)
        return None

    @staticmethod
    def _fork(p):
        q = Path()
        q.blocks = list(p.blocks)
        q.facts = list(p.facts)
        q.asserts = list(p.asserts)
        q.calls = list(p.calls)
        q.stores = list(p.stores)
        return q

    def _variant_index(self, agg):
        vs = self.body.prog.enum_variants(agg[1])
        if not vs:
            return None
        for i, (n, d) in enumerate(vs):
            if n == agg[2]:
                return d if d is not None else i
        return None

    @staticmethod
    def _switch_facts(d, vals, other, isbool):
        if d[0] == "discr":
            return [("isnot", d[1], tuple(vals))] if other else ([("is", d[1], vals[0])] if len(vals) == 1 else [])
        if isbool or (d[0] == "bin" and d[1] in ("Lt", "Le", "Gt", "Ge", "Eq", "Ne")) or (d[0] == "un" and d[1] == "Not"):
            # bool: vals == ["0"] -> false edge; otherwise -> true edge
            if other:
                return [norm_fact(d, "0" in vals)] if len(vals) == 1 else []
            return [norm_fact(d, vals[0] != "0")] if len(vals) == 1 else []
        if other:
            return [("ne", d, ("c", v)) for v in vals]
        return [("eq", d, ("c", vals[0]))] if len(vals) == 1 else []


def evaluator(body, max_paths=4000, combinators=False):
    return Evaluator(body, max_paths, combinators)


# ---- order reasoning over facts -----------------------------------------------------------------------
def implies_le(facts, a, b):
    """do the lt/le/eq facts imply a <= b (reflexive-transitive closure; no arithmetic)"""
    if a == b:
        return True
    edges = {}
    for f in facts:
        if f[0] in ("lt", "le"):
            edges.setdefault(f[1], set()).add(f[2])
        elif f[0] == "eq":
            edges.setdefault(f[1], set()).add(f[2])
            edges.setdefault(f[2], set()).add(f[1])
    seen, st = {a}, [a]
    while st:
        x = st.pop()
        for y in edges.get(x, ()):
            if y == b:
                return True
            if y not in seen:
                seen.add(y)
                st.append(y)
    return False


def implies_le_const(facts, a, k):
    """do the facts imply a <= k for the integer k (order closure of implies_le plus the constant bounds on the facts' terms)"""
    if const_int(a) is not None:
        return const_int(a) <= k
    for f in facts:
        x = None
        if f[0] == "eq":
            for u, v in ((f[1], f[2]), (f[2], f[1])):
                if const_int(v) is not None and const_int(u) is None and const_int(v) <= k:
                    x = u
        elif f[0] == "lt" and const_int(f[2]) is not None and const_int(f[2]) - 1 <= k:
            x = f[1]
        elif f[0] == "le" and const_int(f[2]) is not None and const_int(f[2]) <= k:
            x = f[1]
        if x is not None and implies_le(facts, a, x):
            return True
    return False
