MUTANTS = [
    {"id": "C18-trie-override-shallow", "prop": "C18", "expect": "TRIE-WRITERS",
     "edits": [("src/keys.rs", "        other.for_each(|chord, value| {\n            self.register(chord, value.clone());\n        })", "        for (key, entry) in other.mapping.iter() {\n            self.mapping.insert(*key, entry.clone());\n        }")]},
    {"id": "C18-trie-state-slides", "prop": "C18", "expect": "TRIE-STATE",
     "edits": [("src/keys.rs", "                KeyMapResult::Failure => {\n                    chord.clear();\n                    chord.push(key);\n                }", "                KeyMapResult::Failure => {\n                    chord.remove(0);\n                }")]},
    {"id": "C18-trie-success-keeps-state", "prop": "C18", "expect": "TRIE-STATE",
     "edits": [("src/keys.rs", "                KeyMapResult::Success(value) => {\n                    chord.clear();\n                    return Some(value);", "                KeyMapResult::Success(value) => {\n                    return Some(value);")]},
    {"id": "C18-trie-failure-no-repush", "prop": "C18", "expect": "TRIE-STATE",
     "edits": [("src/keys.rs", "                KeyMapResult::Failure => {\n                    chord.clear();\n                    chord.push(key);\n                }", "                KeyMapResult::Failure => {\n                    chord.clear();\n                }")]},
    {"id": "C18-trie-no-supersede", "prop": "C18", "expect": "TRIE-REGISTER",
     "edits": [("src/keys.rs", "                        .and_modify(|r| {\n                            if r.is_ok() {\n                                *r = Err(KeyMap::new())\n                            }\n                        })\n", "")]},
    {"id": "C18-trie-benign-rename", "prop": "C18", "benign": True,
     "edits": [("src/keys.rs", "        other.for_each(|chord, value| {\n            self.register(chord, value.clone());\n        })", "        other.for_each(|keys, bound| {\n            self.register(keys, bound.clone());\n        })")]},
]
