"""C20 — colours reduced for 256-colour and grey terminals are the closest available (table / value clauses).

Decided on the *value* the source denotes, not on its shape: `color_sgr_encode`, `nearest` and `sgr_color` are given their
denotation by sa.consteval.StdInterp (the repository is never run) with the dependency items modelled at the boundary
(`LinColor::from/new/into/distance`, `to_rgb`, `luma`).  The EightBit arm is evaluated for EVERY combination of the four
table indices `nearest` can return and for both outcomes of the distance comparison (the indices and the distances are
supplied by the harness, so the enumeration is exhaustive over the abstract state, independent of any colour sample); the
arguments the arm hands to `nearest`, `LinColor::new` and `distance` are compared by value with what the clause demands.
`nearest` itself is evaluated for every table and insertion point.  Helper extraction, renamed locals, named constants,
hoisted table reads, Horner forms, flipped comparisons, `if`/`match`/early-return forms, `debug_assert!`s and capacity
hints therefore do not change the verdict; reference data comes from sa/refs/xterm256.json.
"""
import json
import os

from ..src import expr_text, pat_text
from ..consteval import (StdInterp, Frame, Unsupported, Panic, PreconditionViolated, StructV, EnumV, NONE, some,
                         emissions, subst, strip_try, pat_names)

ENC = "src/encoder.rs"
DEC = "src/decoder.rs"
FN = "encoder::color_sgr_encode"
REFS = os.path.join(os.path.dirname(os.path.dirname(os.path.abspath(__file__))), "refs", "xterm256.json")
ROLES = ("Foreground", "Background", "Underline")

CLAIM = {
    "text": "Decides, from the source trees of the current tree: the encoder's f32 CUBE/GREYS tables equal the sRGB->linear transform of the "
            "xterm cube levels {0,95,135,175,215,255} and grey levels 8+10i to the printed 6 digits, are strictly increasing, and the decoder's "
            "integer tables are those levels; the emitted index is 16+36r+6g+b / 232+i with r,g,b,i the `nearest` indices of the matching "
            "channels / channel mean and stays inside 16..231 / 232..255 (the EightBit arm evaluated for all 6x6x6x24 index combinations and both "
            "outcomes of the comparison); `nearest` returns, for every table and every insertion point, the "
            "index of the closest entry (both edges, interior compares both neighbours; ties to the upper one); the cube/grey choice compares "
            "color.distance(grey candidate) with color.distance(cube candidate) built from the same indices; grey depth uses four increasing "
            "thresholds mapped to 30,90,37,97 (increasing reference luminance), +10 for background, nothing for underline colour; true-colour "
            "holes are the to_rgb() channels in order. With per-channel nearest in a sorted table = Euclidean nearest in the cube, and nearest "
            "grey to the channel mean = Euclidean nearest grey, this yields the minimal-distance palette entry for opaque colours away from "
            "f32 midpoints. NOT decided: optimality at f32 rounding near midpoints, translucent colours (LinColor::from premultiplies alpha "
            "while distance() un-multiplies; dependency code is outside the facts), the luma formula itself.",
    "technique": "constant-table comparison against xterm/sRGB reference; exhaustive denotational evaluation (sa.consteval) of the colour-depth arms over all "
                 "index combinations / comparison outcomes with the dependency calls checked by value at the boundary, and of `nearest` over all tables and insertion points",
    "design_ref": "DESIGN.md §5 C20",
}


# ----------------------------------------------------------------------------------------- helpers
def srgb_to_linear(level, ref):
    c = level / 255.0
    if c <= ref["threshold"]:
        return c / ref["linear_divisor"]
    return ((c + ref["offset"]) / ref["scale"]) ** ref["gamma"]


def luma709(rgb):
    return 0.2126 * rgb[0] / 255.0 + 0.7152 * rgb[1] / 255.0 + 0.0722 * rgb[2] / 255.0


def unref(e):
    while isinstance(e, dict) and e.get("k") in ("ref", "paren", "try"):
        e = e["e"]
    return e


def array_lits(expr):
    """literal nodes of `&[..]` / `[..]`"""
    e = unref(expr)
    if e is None or e.get("k") != "array":
        return None
    out = []
    for x in e["elems"]:
        if x.get("k") != "lit":
            return None
        out.append(x)
    return out


def decimals(lit):
    v = str(lit["v"])
    return len(v.split(".")[1]) if "." in v and "e" not in v.lower() else 0


def block_value(b):
    """trailing expression of a block (or the expression itself)"""
    if b is None:
        return None
    if b.get("k") == "block":
        st = b.get("stmts") or []
        if len(st) == 1 and st[0]["k"] == "expr" and not st[0].get("semi"):
            return block_value(st[0]["e"])
        return None
    return b


def _near(a, b, tol=1e-9):
    return isinstance(a, (int, float)) and isinstance(b, (int, float)) and not isinstance(a, bool) and abs(a - b) <= tol * max(1.0, abs(a), abs(b))


# ----------------------------------------------------------------------------------------- boundary values
class LinV:
    """value of rasterize's LinColor at the boundary: four f32 components (linear r, g, b, alpha)"""
    __slots__ = ("c",)

    def __init__(self, c):
        self.c = tuple(float(x) for x in c)

    def __eq__(self, o):
        return isinstance(o, LinV) and o.c == self.c

    def __ne__(self, o):
        return not self.__eq__(o)

    def __hash__(self):
        return hash(self.c)

    def __repr__(self):
        return "LinColor(%s)" % ", ".join("%g" % x for x in self.c)


class ColorV:
    """the generic colour argument `C: Color`: what its trait methods return is chosen by the harness"""
    __slots__ = ("rgb", "lin", "luma")

    def __init__(self, rgb=(0, 0, 0), lin=None, luma=0.0):
        self.rgb = tuple(rgb)
        self.lin = lin if lin is not None else LinV((0.0, 0.0, 0.0, 1.0))
        self.luma = luma

    def __repr__(self):
        return "Color(rgb=%s, lin=%r, luma=%g)" % (self.rgb, self.lin, self.luma)


class Abort(Exception):
    """the evaluated code handed something to a boundary call that the clause does not allow (shape, message)"""

    def __init__(self, rule, shape, msg):
        Exception.__init__(self, msg)
        self.rule = rule
        self.shape = shape
        self.msg = msg


class Harness:
    """color_sgr_encode under sa.consteval with the dependency boundary modelled; `on_nearest` / `on_distance` let a rule supply
    the results of those calls (None = evaluate the repository's `nearest` / the Euclidean distance in linear RGB)"""

    def __init__(self, src):
        self.src = src
        self.it = StdInterp(src)
        self.problem = None
        self.fn = src.fn("color_sgr_encode", file=ENC)
        if self.fn is None:
            c = [(f, item) for (f, s, tr, item, t) in src.fns if not t and f == ENC and s is None
                 and {"ColorDepth", "SGRColorType"} <= {i["ty"].replace(" ", "") for i in item["sig"]["inputs"]}]
            self.fn = c[0] if len(c) == 1 else None
        self.nearest = src.fn("nearest", file=ENC)
        if self.nearest is None:
            c = [(f, item) for (f, s, tr, item, t) in src.fns if not t and f == ENC and s is None
                 and [i["ty"].replace(" ", "") for i in item["sig"]["inputs"]] == ["f32", "&[f32]"] and (item["sig"].get("output") or "").replace(" ", "") == "usize"]
            self.nearest = c[0] if len(c) == 1 else None
        self.on_nearest = None
        self.on_distance = None
        self.log = []
        it = self.it
        it.extern_fns["LinColor::from"] = self._lin_from
        it.extern_fns["LinColor::new"] = self._lin_new
        it.extern_methods["to_rgb"] = lambda recv, a: list(recv.rgb) if isinstance(recv, ColorV) and not a else _unsup("to_rgb on %r" % (recv,))
        it.extern_methods["luma"] = self._luma
        it.extern_methods["distance"] = self._distance
        it.extern_methods["into"] = self._into
        if self.nearest is not None:
            it.extern_fns[self.nearest[1]["name"]] = self._nearest

    # ---- boundary models
    def _lin_from(self, a):
        if len(a) == 1 and isinstance(a[0], ColorV):
            self.log.append(("lin-from", a[0]))
            return a[0].lin
        if len(a) == 1 and isinstance(a[0], LinV):
            return a[0]
        raise Unsupported("LinColor::from of %r" % (a,))

    def _lin_new(self, a):
        if len(a) == 4 and all(isinstance(x, (int, float)) and not isinstance(x, bool) for x in a):
            return LinV(a)
        raise Unsupported("LinColor::new of %r" % (a,))

    def _luma(self, recv, a):
        if isinstance(recv, ColorV) and not a:
            self.log.append(("luma", recv))
            return recv.luma
        raise Unsupported("luma on %r" % (recv,))

    def _into(self, recv, a):
        if isinstance(recv, LinV) and not a:
            return list(recv.c)
        if isinstance(recv, ColorV) and not a:
            self.log.append(("lin-from", recv))
            return recv.lin
        raise Unsupported("into() on %s" % type(recv).__name__)

    def _distance(self, recv, a):
        if not (isinstance(recv, LinV) and len(a) == 1 and isinstance(a[0], LinV)):
            raise Unsupported("distance on %r" % (recv,))
        self.log.append(("distance", recv, a[0]))
        if self.on_distance is not None:
            return self.on_distance(recv, a[0])
        return sum((x - y) ** 2 for x, y in zip(recv.c[:3], a[0].c[:3])) ** 0.5

    def _nearest(self, a):
        if len(a) != 2 or isinstance(a[0], bool) or not isinstance(a[0], (int, float)) or not isinstance(a[1], list):
            raise Unsupported("nearest(%r)" % (a,))
        v, table = float(a[0]), [float(x) for x in a[1]]
        self.log.append(("nearest", v, table))
        if self.on_nearest is not None:
            return self.on_nearest(v, table)
        return self.call_nearest(v, table)

    def call_nearest(self, v, table):
        return self.it.call_item(self.nearest[1], None, [v, list(table)], self.nearest[0])

    def new_chunks(self):
        try:
            return self.it.default_of("Chunks")
        except Unsupported:
            st = self.src.struct("Chunks", file=ENC)
            if st is None:
                raise
            return StructV("Chunks", {f["name"]: self.it.default_of(f["ty"]) for f in st[1]["fields"]})

    # ---- one evaluation
    def run(self, depth, role, color):
        """-> (return value, [chunk bytes], unmarked tail bytes); raises Unsupported / Abort"""
        it = self.it
        it._memo.clear()          # the boundary models are stateful (they log and answer per run): no results carried over between runs
        self.log = []
        chunks = None
        args = []
        left = []
        for inp in self.fn[1]["sig"]["inputs"]:
            ty = inp["ty"].replace(" ", "")
            if ty.endswith("Chunks"):
                chunks = self.new_chunks()
                args.append(chunks)
            elif ty == "ColorDepth":
                args.append(EnumV("ColorDepth", depth))
            elif ty == "SGRColorType":
                args.append(EnumV("SGRColorType", role))
            else:
                left.append(len(args))
                args.append(color)
        if chunks is None or len(left) != 1:
            raise Unsupported("parameters of color_sgr_encode are not (chunks, colour, depth, role)")
        ret = it.call_item(self.fn[1], None, args, self.fn[0], memo=False)
        buf, off = chunks.fields.get("buffer"), chunks.fields.get("offsets")
        if not (isinstance(buf, list) and isinstance(off, list) and all(isinstance(x, int) for x in buf + off)
                and all(0 <= x <= len(buf) for x in off) and off == sorted(off)):
            raise Unsupported("Chunks is not {buffer: bytes, offsets: chunk ends}")
        out, start = [], 0
        for end in off:
            out.append(bytes(buf[start:end]))
            start = end
        return ret, out, bytes(buf[start:])


def _unsup(msg):
    raise Unsupported(msg)


def _show(chunks, tail=b""):
    return ";".join(c.decode("latin-1") for c in chunks) + (("+unmarked:" + tail.decode("latin-1")) if tail else "")


# ----------------------------------------------------------------------------------------- shared with C06
def truecolor_template(src):
    """What the true-colour arm of color_sgr_encode writes, read off its evaluation (shared with C06).
    -> dict(prefix={role: bytes}, selector=bytes, holes=[channel position in to_rgb() or None ...], fmts=[..], marks=bool,
            source=text, order_ok=bool, problems=[...], line=int, seq=[..], color_param=name)   or None if not evaluable"""
    h = Harness(src)
    if h.fn is None:
        return None
    item = h.fn[1]
    params = [i["name"] for i in item["sig"]["inputs"]]
    cpar = [i["name"] for i in item["sig"]["inputs"] if i["ty"].replace(" ", "") not in ("ColorDepth", "SGRColorType") and not i["ty"].replace(" ", "").endswith("Chunks")]
    t = {"prefix": {}, "selector": None, "holes": [], "fmts": [], "marks": True, "source": None, "problems": [], "line": item.get("line", 0), "seq": [],
         "order_ok": False, "color_param": cpar[0] if len(cpar) == 1 else (params[1] if len(params) > 1 else None)}
    probe = (171, 205, 239)         # decimal and hexadecimal renderings of the three channels are pairwise different
    shapes = {}
    for role in ROLES:
        try:
            ret, chunks, tail = h.run("TrueColor", role, ColorV(rgb=probe))
        except (Unsupported, Abort, KeyError, TypeError, IndexError, AttributeError):
            return None
        if ret != ("Ok", ()):
            t["problems"].append("%s: returns %r" % (role, ret))
        if tail:
            t["marks"] = False
        t["prefix"][role] = chunks[0] if chunks else None
        shapes[role] = chunks[1:]
    rest = shapes["Foreground"]
    if any(shapes[r] != rest for r in ROLES):
        t["problems"].append("the part after the prefix depends on the role")
    if rest:
        t["selector"] = rest[0]
    t["seq"] = ["prefix"] + (["lit"] if rest else []) + ["hole"] * max(0, len(rest) - 1)
    dec = {str(v).encode(): i for i, v in enumerate(probe)}
    for c in rest[1:]:
        if c in dec:
            t["holes"].append(dec[c])
            t["fmts"].append("{}")
        else:
            t["holes"].append(None)
            t["fmts"].append("?")
    t["source"] = "%s#0.to_rgb()" % t["color_param"]
    t["order_ok"] = t["seq"] == ["prefix", "lit", "hole", "hole", "hole"]
    return t


# ----------------------------------------------------------------------------------------- run
def run(ctx):
    src = ctx.src
    ref = json.load(open(REFS))
    lay = ref["layout"]
    sp = ref["sgr_colour_params"]
    roles = sp["role_prefix"]
    ctx.explanation = (
        "Decides table/value clauses of C20 from src.json by denotational evaluation: (a) encoder f32 CUBE/GREYS = sRGB->linear of the xterm levels to the printed "
        "digits, strictly increasing, decoder integer tables = the xterm levels; (b) the EightBit arm evaluated for all 6x6x6x24 combinations of the nearest() "
        "indices x both outcomes of the distance comparison: index arithmetic 16+36r+6g+b and 232+i, the nearest() probes are the channels r, g, b on the cube "
        "table and their mean on the grey table, ranges inside 16..231 and 232..255, <38|48|58>;5;index template; decoder sgr_color evaluated for all 256 "
        "indices; (c) `nearest` evaluated for every table and insertion point against argmin |v - vs[i]| (comparator consistency = precondition of the binary "
        "search); tie direction recorded; (d) cube/grey choice: both distances are measured from the requested colour to candidates that are LinColor::new of "
        "the table entries at the chosen indices, the smaller one selects the layout; (e) grey depth thresholds/codes/+10/underline; (f) true-colour holes. NOT decided: "
        "f32 rounding at midpoints, translucent colours (premultiplied channels vs un-multiplied distance), dependency code (luma, distance).")
    ctx.assume("face colours reaching the encoder are opaque (alpha = 255): rasterize's LinColor::from premultiplies alpha while LinColor::distance un-multiplies; that code is outside the extracted facts")
    ctx.assume("rasterize::srgb_to_linear is the IEC 61966-2-1 transfer function (read once in rasterize-0.6.9/src/color.rs; not part of /repo)")
    ctx.trust("boundary models", "LinColor::from/new/into/distance, Color::to_rgb/luma are dependency items: the evaluation supplies their results and checks their arguments by value")
    ctx.trust("Chunks", "the chunk list is read from Chunks{buffer, offsets} after evaluating the repository's push/mark/Write impl (C05/C06 decide what drain writes)")
    ctx.extra["argument"] = ("the cube is a product of one sorted table per channel, so per-channel nearest minimises each squared term of the "
                             "Euclidean distance independently; for a grey (t,t,t) the squared distance is 3(t-mean)^2 + const, so nearest to the "
                             "channel mean minimises it; rule GREY-VS-CUBE then takes the smaller of the two minima")
    all_finite = True
    h = Harness(src)
    it = h.it

    ctx.rule("TABLE-LINEAR", "encoder f32 CUBE/GREYS = sRGB->linear(xterm level) to printed digits (<= 6), lengths 6/24, strictly increasing", floor=32)
    ctx.rule("TABLE-DECODER", "decoder u8 CUBE/GREYS = xterm cube levels / grey ramp, entry by entry", floor=30)
    ctx.rule("NEAREST", "`nearest`: comparator orders the table (binary search precondition), exact hit => its index, otherwise argmin |v - vs[j]| for every table and insertion point", floor=38)
    ctx.rule("INDEX-LAYOUT", "EightBit: index = 16+36r+6g+b / 232+i over nearest() indices taken from the matching channels / the channel mean, in range, <38|48|58>;5;index, minimal distance on a colour sample; decoder inverse layout", floor=10)
    ctx.rule("GREY-VS-CUBE", "EightBit: the choice compares color.distance(grey candidate) with color.distance(cube candidate) built from the same indices", floor=3)
    ctx.rule("GREY-DEPTH", "Gray: increasing thresholds, codes 30/90/37/97 of increasing reference luminance, +10 background, nothing for underline", floor=6)
    ctx.rule("TRUECOLOR", "TrueColor: <role prefix>;2;r;g;b with r,g,b the to_rgb() channels in order, one chunk each, plain decimal", floor=5)

    if h.fn is None:
        for r in ("INDEX-LAYOUT", "GREY-VS-CUBE", "GREY-DEPTH", "TRUECOLOR"):
            ctx.anchor(r, "color_sgr_encode")
    if h.nearest is None:
        ctx.anchor("NEAREST", "encoder::nearest")
    fsite = ["%s:%d" % (ENC, h.fn[1]["line"])] if h.fn else [ENC]

    # ---------------- discovery: which tables does the EightBit arm search, with which probes --------------------------------
    PROBES = [(0.11, 0.52, 0.83), (0.71, 0.23, 0.05)]
    n_cube, n_grey = len(ref["cube_levels"]["values"]), len(ref["grey_levels"]["values"])

    def role_of(v, rgb):
        r, g, b = rgb
        for name, x in (("r", r), ("g", g), ("b", b)):
            if v == x:
                return name
        if _near(v, (r + g + b) / 3.0):
            return "mean"
        return None

    searched = {}           # "cube"/"grey" -> table values the arm hands to nearest
    eight_ok = h.fn is not None and h.nearest is not None
    if eight_ok:
        h.on_nearest = lambda v, table: 0
        h.on_distance = lambda recv, arg: 1.0
        try:
            rgb = PROBES[0]
            h.run("EightBit", "Foreground", ColorV(lin=LinV(rgb + (1.0,))))
            for ev in h.log:
                if ev[0] == "nearest":
                    ro = role_of(ev[1], rgb)
                    if ro in ("r", "g", "b"):
                        searched.setdefault("cube", ev[2])
                    elif ro == "mean":
                        searched.setdefault("grey", ev[2])
        except (Unsupported, Abort) as ex:
            ctx.note("EightBit discovery run: %s" % ex)
        finally:
            h.on_nearest = h.on_distance = None

    # ---------------- (a) tables -----------------------------------------------------------------------------
    enc_tables = {}
    for name, refkey, key in (("CUBE", "cube_levels", "cube"), ("GREYS", "grey_levels", "grey")):
        levels = ref[refkey]["values"]
        c = src.const(name, file=ENC)
        lits = array_lits(c[1]["expr"]) if c else None
        if lits is not None and any(l["t"] not in ("float", "int") for l in lits):
            lits = None
        vals = [float(l["v"]) for l in lits] if lits is not None else None
        if key in searched and vals != searched[key]:
            vals, lits = searched[key], None              # the table the arm really searches (renamed / computed constant)
        if vals is None and c is not None:
            try:
                v = it.const(None, name, ENC)
                vals = [float(x) for x in v] if isinstance(v, list) and all(isinstance(x, (int, float)) and not isinstance(x, bool) for x in v) else None
            except Unsupported:
                vals = None
        if vals is None:
            ctx.anchor("TABLE-LINEAR", "encoder::" + name)
            all_finite = False
        else:
            enc_tables[name] = vals
            site = ["%s:%d" % (ENC, c[1]["line"])] if c else fsite
            if len(vals) != len(levels):
                ctx.violation("TABLE-LINEAR", "encoder::" + name, "length", "%s has %d entries, xterm has %d levels" % (name, len(vals), len(levels)), sites=site)
            for i, v in enumerate(vals):
                if i >= len(levels):
                    break
                exact = srgb_to_linear(levels[i], ref["srgb_transfer"])
                nd = max(decimals(lits[i]), 1) if lits is not None else 1
                ok = nd <= 6 and abs(v - exact) <= 0.5 * 10 ** (-6) * (1 + 1e-6) and abs(round(exact, 6) - v) < 1e-9
                ctx.instance("TABLE-LINEAR", {"table": name, "i": i, "level": levels[i], "literal": lits[i]["v"] if lits is not None else v, "srgb_to_linear": round(exact, 9)})
                if not ok:
                    ctx.violation("TABLE-LINEAR", "encoder::" + name, "entry-%d" % i,
                                  "%s[%d] = %s but sRGB->linear(%d/255) = %.7f (xterm level %d)" % (name, i, lits[i]["v"] if lits is not None else v, levels[i], exact, levels[i]), sites=site)
            inc = all(a < b for a, b in zip(vals, vals[1:]))
            ctx.instance("TABLE-LINEAR", {"table": name, "strictly_increasing": inc})
            if not inc:
                ctx.violation("TABLE-LINEAR", "encoder::" + name, "not-increasing",
                              "%s is not strictly increasing: binary_search_by in `nearest` requires a sorted table" % name, sites=site)
        d = src.const(name, file=DEC)
        dv = None
        if d is not None:
            dl = array_lits(d[1]["expr"])
            if dl is not None and all(l["t"] == "int" for l in dl):
                dv = [int(l["v"]) for l in dl]
            else:
                try:
                    v = it.const(None, name, DEC)
                    dv = list(v) if isinstance(v, list) and all(isinstance(x, int) and not isinstance(x, bool) for x in v) else None
                except Unsupported:
                    dv = None
        if dv is None:
            ctx.anchor("TABLE-DECODER", "decoder::" + name)
            all_finite = False
        else:
            site = ["%s:%d" % (DEC, d[1]["line"])]
            if len(dv) != len(levels):
                ctx.violation("TABLE-DECODER", "decoder::" + name, "length", "%s has %d entries, xterm has %d" % (name, len(dv), len(levels)), sites=site)
            for i, v in enumerate(dv[:len(levels)]):
                ctx.instance("TABLE-DECODER", {"table": name, "i": i, "value": v, "xterm": levels[i]})
                if v != levels[i]:
                    ctx.violation("TABLE-DECODER", "decoder::" + name, "entry-%d" % i, "decoder %s[%d] = %d, xterm level is %d" % (name, i, v, levels[i]), sites=site)

    # ---------------- (e) Gray: discovery of the thresholds (needed by NEAREST) ------------------------------
    gray = {"table": None, "probe_ok": None, "calls": 0}
    LUMA = 0.4321
    if h.fn is not None and h.nearest is not None:
        h.on_nearest = lambda v, table: 0
        try:
            h.run("Gray", "Foreground", ColorV(luma=LUMA))
            calls = [ev for ev in h.log if ev[0] == "nearest"]
            gray["calls"] = len(calls)
            if len(calls) == 1:
                gray["table"] = calls[0][2]
                gray["probe_ok"] = calls[0][1] == LUMA and any(ev[0] == "luma" for ev in h.log)
        except (Unsupported, Abort) as ex:
            gray["error"] = str(ex)
        finally:
            h.on_nearest = None

    # ---------------- (c) nearest ------------------------------------------------------------------------------
    if h.nearest is not None:
        nsite = ["%s:%d" % (ENC, h.nearest[1]["line"])]
        tables = dict(enc_tables)
        if gray["table"]:
            tables["gray-thresholds"] = gray["table"]
        tables["tie-probe"] = [0.0, 1.0]
        reported = set()
        cmp_ok = True

        def near(v, vs):
            return h.call_nearest(v, vs)

        def report(shape, msg, detail=None):
            if shape not in reported:
                reported.add(shape)
                ctx.violation("NEAREST", "encoder::nearest", shape, msg, sites=nsite, detail=detail)

        for tname, vs in tables.items():
            n = len(vs)
            if not all(a < b for a, b in zip(vs, vs[1:])):
                continue        # reported by TABLE-LINEAR / GREY-DEPTH; `nearest` has no meaning on an unsorted table
            for k in range(n):
                try:
                    r = near(vs[k], vs)
                except PreconditionViolated as ex:
                    cmp_ok = False
                    report("comparator", "the comparator handed to the binary search does not order an increasing table around the probe (element must be compared "
                                         "to the probe: Less below it, Greater above it) - table %s, v=%s: %s" % (tname, vs[k], ex))
                    break
                except Unsupported as ex:
                    r = "not evaluable (%s)" % ex
                if r != k:
                    report("ok-arm", "nearest(%s, %s) with the probe equal to entry %d returns %r instead of %d" % (vs[k], tname, k, r, k))
            if not cmp_ok:
                break
            if tname == "tie-probe":
                try:
                    r = near(0.5, vs)
                    ctx.note("nearest: a probe exactly between two entries goes to the %s neighbour (evaluated on table [0,1], v=0.5)" % ("upper" if r == 1 else "lower"))
                    ctx.extra["nearest_ties"] = "upper" if r == 1 else "lower"
                except Unsupported:
                    pass
                continue
            for k in range(n + 1):
                if k == 0:
                    probes = [vs[0] - 1.0, vs[0] - 1e-6]
                    shape = "lower-edge"
                elif k == n:
                    probes = [vs[-1] + 1e-6, vs[-1] + 1.0]
                    shape = "upper-edge"
                else:
                    lo, hi = vs[k - 1], vs[k]
                    probes = [lo + f * (hi - lo) for f in (0.01, 0.25, 0.49, 0.51, 0.75, 0.99)]
                    shape = "interior"
                bad = None
                for v in probes:
                    want = min(range(n), key=lambda j: abs(v - vs[j]))
                    try:
                        r = near(v, vs)
                    except PreconditionViolated as ex:
                        cmp_ok = False
                        report("comparator", "the comparator handed to the binary search does not order an increasing table around the probe - table %s, v=%.6f: %s" % (tname, v, ex))
                        break
                    except Unsupported as ex:
                        r = "not evaluable (%s)" % ex
                    if r != want:
                        bad = (v, r, want)
                        break
                if not cmp_ok:
                    break
                ctx.instance("NEAREST", {"table": tname, "insertion_point": k, "probes": len(probes), "ok": bad is None})
                if bad is not None:
                    report(shape, "nearest(%.6f, %s) (insertion point %d) returns %s but the closest entry is index %d (%.6f)" % (bad[0], tname, k, bad[1], bad[2], vs[bad[2]]),
                           detail={"table": tname, "vs": vs, "v": bad[0], "got": str(bad[1]), "want": bad[2]})
            if not cmp_ok:
                break
        ctx.instance("NEAREST", {"comparator_orders_every_table_around_every_probe": cmp_ok})
        ctx.extra["nearest_eval_steps"] = it.steps

    if h.fn is None or h.nearest is None:
        ctx.exhaustive = False
        return

    # ---------------- (b) + (d) EightBit ---------------------------------------------------------------------
    cube_t, grey_t = searched.get("cube"), searched.get("grey")
    once = set()

    def viol(rule, shape, msg, where=FN, sites=fsite):
        if (rule, shape) not in once:
            once.add((rule, shape))
            ctx.violation(rule, where, shape, msg, sites=sites)

    def eight(rgb, plan, dist, role="Foreground"):
        """evaluate the arm with nearest() returning plan[channel] and distance() returning dist[candidate kind]
        -> dict(index=int|None, chunks, tail, ret, calls=[nearest roles], problems=[(rule, shape, msg)])"""
        req = LinV(rgb + (1.0,))
        problems = []
        roles_seen = []

        def on_nearest(v, table):
            ro = role_of(v, rgb)
            if ro in ("r", "g", "b"):
                if table != cube_t:
                    problems.append(("INDEX-LAYOUT", "cube-index-channels", "channel %s is searched in another table than the other channels: %s" % (ro, table)))
                roles_seen.append(ro)
                return plan[ro]
            if ro == "mean":
                if table != grey_t:
                    problems.append(("INDEX-LAYOUT", "grey-index-mean", "the channel mean is searched in two different tables"))
                roles_seen.append(ro)
                return plan["mean"]
            if table == cube_t:
                raise Abort("INDEX-LAYOUT", "cube-index-channels", "nearest(%.6g, <cube table>) is called with a probe that is none of the channels r=%g g=%g b=%g" % ((v,) + rgb))
            if table == grey_t:
                raise Abort("INDEX-LAYOUT", "grey-index-mean", "nearest(%.6g, <grey table>) is called with a probe that is not the channel mean (r+g+b)/3 = %.6g of r=%g g=%g b=%g" % (
                    (v, sum(rgb) / 3.0) + rgb))
            raise Abort("INDEX-LAYOUT", "nearest-table", "nearest is called on a table that is neither the cube nor the grey table: %s" % (table,))

        want_grey = LinV((grey_t[plan["mean"]],) * 3 + (1.0,)) if grey_t and plan["mean"] < len(grey_t) else None
        want_cube = LinV((cube_t[plan["r"]], cube_t[plan["g"]], cube_t[plan["b"]], 1.0)) if cube_t and max(plan["r"], plan["g"], plan["b"]) < len(cube_t) else None
        dcalls = []

        def on_distance(recv, arg):
            if recv != req:
                problems.append(("GREY-VS-CUBE", "receiver", "a distance is measured from %r, not from the requested colour %r" % (recv, req)))
            if arg == want_grey and want_grey != want_cube:
                dcalls.append("grey")
                return dist["grey"] if recv == req else 0.0
            if arg == want_cube:
                dcalls.append("cube")
                return dist["cube"] if recv == req else 0.0
            comps = arg.c[:3]
            kind = "grey" if all(x in (grey_t or ()) for x in comps) else ("cube" if all(x in (cube_t or ()) for x in comps) else "mixed")
            if kind == "grey" and not (comps[0] == comps[1] == comps[2]):
                kind = "mixed"
            problems.append(("GREY-VS-CUBE", "candidate-" + kind,
                             "candidate colour %r is not LinColor::new of the table entries at the chosen indices in channel order with alpha 1.0 "
                             "(indices r=%d g=%d b=%d grey=%d: expected %r or %r)" % (arg, plan["r"], plan["g"], plan["b"], plan["mean"], want_cube, want_grey)))
            dcalls.append(kind + "?")
            return sum((x - y) ** 2 for x, y in zip(recv.c[:3], arg.c[:3])) ** 0.5

        h.on_nearest, h.on_distance = on_nearest, on_distance
        try:
            ret, chunks, tail = h.run("EightBit", role, ColorV(lin=req))
        finally:
            h.on_nearest = h.on_distance = None
        idx = None
        if len(chunks) == 3 and not tail and chunks[2].isdigit() and str(int(chunks[2])).encode() == chunks[2]:
            idx = int(chunks[2])
        return {"index": idx, "chunks": chunks, "tail": tail, "ret": ret, "calls": sorted(roles_seen), "dcalls": dcalls, "problems": problems}

    enum_ok = False
    if cube_t is None or grey_t is None:
        ctx.instance("INDEX-LAYOUT", {"searched_tables": {k: len(v) for k, v in searched.items()}, "ok": False})
        if cube_t is None:
            viol("INDEX-LAYOUT", "cube-index-channels", "no nearest() call of the EightBit arm searches a table with one of the channels r, g, b of LinColor::from(colour)")
        if grey_t is None:
            viol("INDEX-LAYOUT", "grey-index-mean", "the grey index is not nearest((r + g + b) / 3.0, GREYS) over the three channels")
    else:
        tab_ok = cube_t == enc_tables.get("CUBE") and grey_t == enc_tables.get("GREYS")
        ctx.instance("INDEX-LAYOUT", {"searched_tables": {"cube": len(cube_t), "grey": len(grey_t)}, "are_the_checked_tables": tab_ok})
        # which probes reach nearest, on both probe colours
        calls_ok = True
        first = None
        try:
            for rgb in PROBES:
                r = eight(rgb, {"r": 1, "g": 2, "b": 3, "mean": 4}, {"grey": 1.0, "cube": 2.0})
                first = first or r
                for p in r["problems"]:
                    viol(*p)
                cube_calls = [c for c in r["calls"] if c != "mean"]
                if cube_calls != ["b", "g", "r"]:
                    calls_ok = False
                    viol("INDEX-LAYOUT", "cube-index-channels", "the three nearest(.., CUBE) indices are not taken from the red, green and blue channel once each: probes %s" % cube_calls)
                if r["calls"].count("mean") != 1:
                    calls_ok = False
                    viol("INDEX-LAYOUT", "grey-index-mean", "the grey index is not nearest((r + g + b) / 3.0, GREYS) over the three channels")
            ctx.instance("INDEX-LAYOUT", {"nearest_probes": first["calls"] if first else None, "ok": calls_ok})
            ctx.instance("GREY-VS-CUBE", {"distance_calls": first["dcalls"] if first else None, "receiver_and_candidates_checked_by_value": True})
        except Abort as ex:
            calls_ok = False
            viol(ex.rule, ex.shape, ex.msg)
        except Unsupported as ex:
            calls_ok = False
            ctx.anchor("INDEX-LAYOUT", "EightBit-arm-eval", "the EightBit arm is not evaluable: %s" % ex)

        # exhaustive enumeration over the indices nearest can return x outcome of the comparison
        if calls_ok:
            G0, C0 = lay["grey_base"], lay["cube_base"]
            sr, sg, sb = lay["stride_red"], lay["stride_green"], lay["stride_blue"]
            nc, ng = min(len(cube_t), n_cube), min(len(grey_t), n_grey)
            stats = {"runs": 0, "min_cube": None, "max_cube": None, "min_grey": None, "max_grey": None}
            ties = set()
            try:
                for ri in range(nc):
                    for gi in range(nc):
                        for bi in range(nc):
                            for yi in range(ng):
                                plan = {"r": ri, "g": gi, "b": bi, "mean": yi}
                                G, C = G0 + yi, C0 + sr * ri + sg * gi + sb * bi
                                res = {}
                                for oc, dist in (("grey", {"grey": 1.0, "cube": 2.0}), ("cube", {"grey": 2.0, "cube": 1.0})):
                                    if want_same(cube_t, grey_t, plan):
                                        continue
                                    r = eight(PROBES[0], plan, dist)
                                    stats["runs"] += 1
                                    for p in r["problems"]:
                                        viol(*p)
                                    if set(r["dcalls"]) != {"grey", "cube"} and not r["problems"]:
                                        viol("GREY-VS-CUBE", "condition", "the cube/grey decision does not compare distance(grey candidate) with distance(cube candidate): "
                                                                          "distance is called on %s" % (r["dcalls"] or "nothing"))
                                    want_chunks = [str(roles["Foreground"]).encode(), str(sp["selector_indexed"]).encode()]
                                    if r["index"] is None or r["chunks"][:2] != want_chunks or r["ret"] != ("Ok", ()):
                                        viol("INDEX-LAYOUT", "eightbit-template", "EightBit arm does not emit <38|48|58>;5;<index> with the computed index as its own chunk: "
                                                                                  "it writes `%s` and returns %r" % (_show(r["chunks"], r["tail"]), r["ret"]))
                                    res[oc] = r["index"]
                                if not res:
                                    continue
                                og, oc_ = res.get("grey"), res.get("cube")
                                if (og, oc_) == (G, C):
                                    for k, v in (("cube", C), ("grey", G)):
                                        stats["min_" + k] = v if stats["min_" + k] is None else min(stats["min_" + k], v)
                                        stats["max_" + k] = v if stats["max_" + k] is None else max(stats["max_" + k], v)
                                    if yi == 0 and ri == gi == bi:
                                        t = eight(PROBES[0], plan, {"grey": 1.0, "cube": 1.0})
                                        ties.add("grey" if t["index"] == G else ("cube" if t["index"] == C else "?"))
                                    continue
                                if og is None or oc_ is None:
                                    continue        # template problem, reported above
                                ctxt = "indices r=%d g=%d b=%d grey=%d" % (ri, gi, bi, yi)
                                if (og, oc_) == (C, G):
                                    viol("GREY-VS-CUBE", "branches-swapped", "when the grey candidate is closer the cube index is emitted and vice versa (%s: %d / %d)" % (ctxt, og, oc_))
                                elif og == oc_ and og in (G, C):
                                    viol("GREY-VS-CUBE", "condition", "the cube/grey decision does not follow the comparison of distance(grey candidate) with distance(cube candidate): "
                                                                      "%s emits %d (%s entry) whichever is closer" % (ctxt, og, "grey" if og == G else "cube"))
                                else:
                                    if og != G and og != C:
                                        viol("INDEX-LAYOUT", "index-grey", "palette index is not the xterm layout %d + i: %s with the grey candidate closer emits %d, expected %d" % (G0, ctxt, og, G))
                                    if oc_ != C and oc_ != G:
                                        viol("INDEX-LAYOUT", "index-cube", "palette index is not the xterm layout %d + %d*r + %d*g + b: %s with the cube candidate closer emits %d, expected %d" % (
                                            C0, sr, sg, ctxt, oc_, C))
                                    if (og == G) != (oc_ == C) and og in (G, C) and oc_ in (G, C):
                                        viol("GREY-VS-CUBE", "condition", "the cube/grey decision does not follow the comparison for %s: emits %d / %d" % (ctxt, og, oc_))
                enum_ok = True
            except Abort as ex:
                viol(ex.rule, ex.shape, ex.msg)
            except Unsupported as ex:
                ctx.anchor("INDEX-LAYOUT", "EightBit-arm-eval", "the EightBit arm is not evaluable for every index combination: %s" % ex)
            ctx.instance("INDEX-LAYOUT", {"index_combinations_x_outcomes_evaluated": stats["runs"], "complete": enum_ok})
            ctx.instance("GREY-VS-CUBE", {"outcomes_follow_the_comparison_for_every_combination": enum_ok and not any(s in ("condition", "branches-swapped") for (r_, s) in once)})
            if ties:
                ctx.extra["grey_cube_ties"] = "ties go to the %s" % "/".join(sorted(ties))
                ctx.instance("GREY-VS-CUBE", {"equal_distances_select": sorted(ties)})
            for kind, lo, hi in (("cube", lay["cube_base"], lay["grey_base"] - 1), ("grey", lay["grey_base"], lay["palette_size"] - 1)):
                mn, mx = stats["min_" + kind], stats["max_" + kind]
                ctx.instance("INDEX-LAYOUT", {"range": kind, "min": mn, "max": mx, "allowed": [lo, hi]})
                if mn is not None and (mn != lo or mx != hi) and len(cube_t) == n_cube and len(grey_t) == n_grey:
                    viol("INDEX-LAYOUT", "range-" + kind, "%s indices span %d..%d, xterm %s entries are %d..%d" % (kind, mn, mx, kind, lo, hi))
            # the template for every role
            for role in ROLES:
                try:
                    r = eight(PROBES[1], {"r": 5, "g": 0, "b": 3, "mean": 7}, {"grey": 2.0, "cube": 1.0}, role=role)
                except (Abort, Unsupported) as ex:
                    ctx.anchor("INDEX-LAYOUT", "EightBit-arm-eval", "the EightBit arm is not evaluable for %s: %s" % (role, ex))
                    continue
                want = [str(roles[role]).encode(), str(sp["selector_indexed"]).encode(), str(lay["cube_base"] + 5 * lay["stride_red"] + 3).encode()]
                ok = r["chunks"] == want and not r["tail"] and r["ret"] == ("Ok", ())
                ctx.instance("INDEX-LAYOUT", {"role": role, "emits": _show(r["chunks"], r["tail"]), "expected": _show(want), "ok": ok})
                if not ok:
                    viol("INDEX-LAYOUT", "eightbit-template", "EightBit arm does not emit <38|48|58>;5;<index> with the computed index as its own chunk: %s colour writes `%s`, expected `%s`" % (
                        role, _show(r["chunks"], r["tail"]), _show(want)))

    # end to end on concrete colours (repository's nearest, Euclidean distance): guards against value-dependent special cases
    # that the index enumeration cannot see; colours whose two best palette entries are closer than the margin are skipped
    pal = []
    lv, gl = ref["cube_levels"]["values"], ref["grey_levels"]["values"]
    tr = ref["srgb_transfer"]
    for i_ in range(lay["cube_side"] ** 3):
        pal.append((lay["cube_base"] + i_, tuple(srgb_to_linear(lv[j], tr) for j in (i_ // lay["stride_red"], (i_ // lay["stride_green"]) % lay["cube_side"], i_ % lay["cube_side"]))))
    for i_, g_ in enumerate(gl):
        pal.append((lay["grey_base"] + i_, (srgb_to_linear(g_, tr),) * 3))
    lin_of = [srgb_to_linear(x, tr) for x in range(256)]
    sample = [(x, x, x) for x in range(256)] + [(a, b_, c_) for a in lv for b_ in lv for c_ in lv] + \
             [(a, b_, c_) for a in range(0, 256, 17) for b_ in range(0, 256, 17) for c_ in range(0, 256, 17)] + \
             [(x, min(255, x + d_), max(0, x - d_)) for x in range(0, 256, 5) for d_ in (1, 3, 9)]
    e2e = {"evaluated": 0, "skipped_near_tie": 0}
    e2e_bad = None
    try:
        for rgb8 in sample:
            lin = tuple(lin_of[x] for x in rgb8)
            ds = sorted((sum((x - y) ** 2 for x, y in zip(lin, pc)) ** 0.5, pi) for pi, pc in pal)
            if ds[1][0] - ds[0][0] < 1e-4:
                e2e["skipped_near_tie"] += 1
                continue
            ret, chunks, tail = h.run("EightBit", "Foreground", ColorV(rgb=rgb8, lin=LinV(lin + (1.0,))))
            e2e["evaluated"] += 1
            if ret != ("Ok", ()) or tail or len(chunks) != 3 or chunks[2] != str(ds[0][1]).encode():
                e2e_bad = (rgb8, _show(chunks, tail), ds[0][1], ds[1][1])
                break
    except (Unsupported, Abort) as ex:
        e2e_bad = ("-", "not evaluable: %s" % ex, "-", "-")
    ctx.extra["end_to_end"] = dict(e2e)
    ctx.instance("INDEX-LAYOUT", dict(e2e, end_to_end="palette entry of minimal linear-RGB distance", ok=e2e_bad is None))
    if e2e_bad is not None and not once:
        viol("INDEX-LAYOUT", "palette-argmin", "opaque colour rgb%s is sent as `%s` but the palette entry of minimal distance is %s (runner-up %s)" % e2e_bad)

    # decoder inverse layout: sgr_color evaluated for every palette index
    sc = src.fn("sgr_color", file=DEC)
    if sc is None:
        ctx.anchor("INDEX-LAYOUT", "decoder::sgr_color")
    else:
        dsite = ["%s:%d" % (DEC, sc[1]["line"])]
        it2 = StdInterp(src)
        it2.extern_fns["RGBA::new"] = lambda args: ("RGBA",) + tuple(args)
        it2.extern_fns["number_decode"] = _number_model
        bad = None
        n_eval = 0
        for idx in range(lay["system_count"], lay["palette_size"] + 1):
            try:
                r = it2.call_item(sc[1], None, [[list(str(sp["selector_indexed"]).encode()), list(str(idx).encode())]], DEC, memo=False)
            except Unsupported as ex:
                bad = (idx, "not evaluable: %s" % ex)
                break
            n_eval += 1
            if idx < lay["grey_base"]:
                j = idx - lay["cube_base"]
                lv = ref["cube_levels"]["values"]
                want = ("Some", ("RGBA", lv[j // lay["stride_red"]], lv[(j // lay["stride_green"]) % lay["cube_side"]], lv[j % lay["cube_side"]], 255))
            elif idx < lay["palette_size"]:
                g = ref["grey_levels"]["values"][idx - lay["grey_base"]]
                want = ("Some", ("RGBA", g, g, g, 255))
            else:
                want = NONE
            if r != want:
                bad = (idx, "%r, expected %r" % (r, want))
                break
        ctx.instance("INDEX-LAYOUT", {"decoder_palette_entries_evaluated": n_eval, "ok": bad is None})
        if bad is not None:
            ctx.violation("INDEX-LAYOUT", "decoder::sgr_color", "inverse-layout", "`38;5;%d` decodes to %s" % bad, sites=dsite)

    # ----- (e) Gray
    th_vals = gray["table"]
    ctx.instance("GREY-DEPTH", {"thresholds": th_vals, "probe_is_luma_of_colour": gray["probe_ok"]})
    if th_vals is None:
        ctx.anchor("GREY-DEPTH", "Gray-arm-shape", "the Gray arm does not select the level by one nearest(luma, thresholds) call (%s)" % (gray.get("error") or "%d calls" % gray["calls"]))
    else:
        if not gray["probe_ok"]:
            viol("GREY-DEPTH", "probe", "the level is not selected by nearest(<colour>.luma(), thresholds)")
        inc = all(a < b for a, b in zip(th_vals, th_vals[1:]))
        if not inc:
            viol("GREY-DEPTH", "thresholds-not-increasing", "grey thresholds %s are not strictly increasing (binary search precondition, monotone level)" % th_vals)
        if len(th_vals) != 4:
            viol("GREY-DEPTH", "levels", "%d grey levels, four are available (black, bright black, white, bright white)" % len(th_vals))
        out = {}
        gerr = None
        for k in range(len(th_vals)):
            for role in ROLES:
                h.on_nearest = lambda v, table, k=k: k
                try:
                    out[(k, role)] = h.run("Gray", role, ColorV(luma=LUMA))
                except (Unsupported, Abort) as ex:
                    gerr = "level %d, %s: %s" % (k, role, ex)
                finally:
                    h.on_nearest = None
        if gerr is not None:
            ctx.anchor("GREY-DEPTH", "Gray-arm-shape", "the Gray arm is not evaluable: %s" % gerr)
        else:
            def code_of(res):
                ret, chunks, tail = res
                if ret == ("Ok", ()) and len(chunks) == 1 and not tail and chunks[0].isdigit() and str(int(chunks[0])).encode() == chunks[0]:
                    return int(chunks[0])
                return None
            level_codes = [code_of(out[(k, "Foreground")]) for k in range(len(th_vals))]
            ctx.instance("GREY-DEPTH", {"levels": len(th_vals), "codes": level_codes})
            sys16 = ref["system16_xterm_default"]["values"]

            def pal(code, normal, bright):
                if code is None:
                    return None
                if normal <= code < normal + 8:
                    return code - normal
                if bright <= code < bright + 8:
                    return code - bright + 8
                return None
            t_ok = all(c is not None for c in level_codes)
            ctx.instance("GREY-DEPTH", {"template": [_show(out[(k, "Foreground")][1], out[(k, "Foreground")][2]) for k in range(len(th_vals))], "ok": t_ok})
            if not t_ok:
                viol("GREY-DEPTH", "template", "Gray arm does not write exactly the selected code as one decimal chunk: %s" % [
                    (_show(out[(k, "Foreground")][1], out[(k, "Foreground")][2]), out[(k, "Foreground")][0]) for k in range(len(th_vals))])
            pidx = [pal(c, sp["fg_normal_base"], sp["fg_bright_base"]) for c in level_codes]
            lum = [luma709(sys16[p]) if p is not None else None for p in pidx]
            grey_only = all(p is not None and len(set(sys16[p])) == 1 for p in pidx)
            mono = all(l is not None for l in lum) and all(a < b for a, b in zip(lum, lum[1:]))
            ctx.instance("GREY-DEPTH", {"palette_entries": pidx, "reference_luma": [round(l, 4) if l is not None else None for l in lum], "increasing": mono, "achromatic": grey_only})
            if t_ok and (not mono or not grey_only):
                viol("GREY-DEPTH", "codes-not-monotone", "level codes %s select palette entries %s whose reference luminance %s is not strictly increasing over achromatic entries"
                     % (level_codes, pidx, [round(l, 3) if l is not None else None for l in lum]))
            off = sp["bg_normal_base"] - sp["fg_normal_base"]
            bg = [code_of(out[(k, "Background")]) for k in range(len(th_vals))]
            bg_ok = all(b is not None and c is not None and b == c + off for b, c in zip(bg, level_codes)) and off == sp["bg_bright_base"] - sp["fg_bright_base"]
            ctx.instance("GREY-DEPTH", {"background": bg, "offset": off, "ok": bg_ok})
            if not bg_ok:
                viol("GREY-DEPTH", "background", "background code is not level code + %d (30-37 -> 40-47, 90-97 -> 100-107): foreground %s, background %s" % (off, level_codes, bg))
            ul = [out[(k, "Underline")] for k in range(len(th_vals))]
            u_ok = all(r == (("Ok", ()), [], b"") for r in ul)
            ctx.instance("GREY-DEPTH", {"underline": [_show(r[1], r[2]) for r in ul], "emits_nothing": u_ok})
            if not u_ok:
                viol("GREY-DEPTH", "underline", "underline colour must emit nothing in grey mode (return Ok before any chunk is written or marked): per level (chunks, unmarked tail, result) = %s"
                     % [(r[1], r[2], r[0]) for r in ul])

    # ----- (f) TrueColor
    tprobes = [(171, 205, 239), (0, 9, 10), (255, 100, 7), (99, 101, 11), (200, 199, 1)]
    terr = None
    for role in ROLES:
        code = roles[role]
        res = []
        try:
            for rgb in tprobes:
                res.append(h.run("TrueColor", role, ColorV(rgb=rgb)))
        except (Unsupported, Abort) as ex:
            terr = "%s: %s" % (role, ex)
            break
        ret, chunks, tail = res[0]
        got = chunks[0] if chunks else None
        ctx.instance("TRUECOLOR", {"role": role, "prefix": got.decode("latin-1") if got else None, "reference": code, "emits": _show(chunks, tail)})
        if got != str(code).encode():
            viol("TRUECOLOR", "prefix-" + role, "%s colour is introduced by %r, SGR uses %d" % (role, got, code))
        for rgb, (ret, chunks, tail) in zip(tprobes, res):
            want = [str(sp["selector_direct"]).encode()] + [str(c).encode() for c in rgb]
            rest = chunks[1:]
            if rest == want and not tail and ret == ("Ok", ()):
                continue
            dec = [str(c).encode() for c in rgb]
            joined = b"".join(rest) + tail
            if len(rest) == 4 and rest[0] == want[0] and sorted(rest[1:]) == sorted(dec) and not tail:
                viol("TRUECOLOR", "channel-order", "the three components written for to_rgb() = %s are `%s`, expected red, green, blue unchanged" % (list(rgb), _show(rest[1:])))
            elif rest[:1] == want[:1] and (joined == b"".join(want) or len(rest) != 4 or tail or any(not c.isdigit() for c in rest[1:]) or
                                           [int(c) for c in rest[1:]] == list(rgb)):
                viol("TRUECOLOR", "format", "components must be written in plain decimal as separate chunks: to_rgb() = %s is written as `%s`" % (list(rgb), _show(rest, tail)))
            else:
                viol("TRUECOLOR", "template", "true-colour form is not <prefix>;2;<r>;<g>;<b>: to_rgb() = %s is written as `%s` (returns %r)" % (list(rgb), _show(chunks, tail), ret))
    if terr is not None:
        ctx.anchor("TRUECOLOR", "TrueColor-arm", "the TrueColor arm is not evaluable: %s" % terr)
    else:
        ctx.instance("TRUECOLOR", {"selector": sp["selector_direct"], "probe_colours": [list(p) for p in tprobes], "roles": list(ROLES)})
        ctx.instance("TRUECOLOR", {"components": "decimal, one chunk each, in to_rgb() order", "checked_on": len(tprobes) * len(ROLES)})

    ctx.extra["eval_steps"] = it.steps
    ctx.exhaustive = all_finite and enum_ok


def want_same(cube_t, grey_t, plan):
    """the grey and the cube candidate would be the same colour (cannot happen with the xterm tables: kept for safety)"""
    return (grey_t[plan["mean"]],) * 3 == (cube_t[plan["r"]], cube_t[plan["g"]], cube_t[plan["b"]])


def _number_model(args):
    """decoder::number_decode: decimal value of an all-digit byte string (C02/C04 own number_decode itself)"""
    data = list(args[0])
    if not all(isinstance(c, int) and 48 <= c <= 57 for c in data):
        return NONE
    v = 0
    for c in data:
        v = v * 10 + c - 48
    return some(v) if v < (1 << 64) else NONE
