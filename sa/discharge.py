"""Discharging obligations (sa/obligations.py) with the abstract interpreter (sa/absint.py)."""
import re
from . import obligations
from .absint import Analyzer, INF, fits, V
from .summaries import range_terms, _len_of, _argkey, _pointee_key
from .mir import op_local, callee_name, call_matches, op_const_int
from .obligations import ty_range


class Outcome:
    def __init__(self, ob, ok, cls, why):
        self.ob = ob
        self.ok = ok
        self.cls = cls
        self.why = why


def is_counter(body, operand, step_max=1 << 20):
    """CNT: the operand's value flows only from integer constants and `+ const` of itself (a usize/u64
    counter bumped by a small constant: cannot reach 2^63 in a feasible execution)."""
    l = op_local(operand)
    if l is None:
        # field counters like (*_1).count are not accepted here
        return False
    ty = body.local_ty(l)
    if ty not in ("usize", "u64", "u128", "i64", "isize", "i128"):
        return False
    seen = set()
    st = [l]
    while st:
        x = st.pop()
        if x in seen:
            continue
        seen.add(x)
        if 0 < x <= body.arg_count:
            return False
        ds = body.defs_of(x)
        if not ds:
            # tuple result of *WithOverflow assigned field-wise? look for defs of x.0 handled below
            return False
        for bb, si, rv in ds:
            if si == "term":
                return False
            k = rv["k"]
            if k == "use":
                a = rv["a"]
                if a["k"] == "const":
                    if "int" not in a["c"] or abs(int(a["c"]["int"])) > step_max:
                        return False
                    continue
                p = a["place"]
                if p["p"]:
                    # _t.0 of an AddWithOverflow tuple
                    if len(p["p"]) == 1 and p["p"][0]["k"] == "field" and p["p"][0]["name"] == "0":
                        st.append(("tuple", p["l"]))
                        continue
                    return False
                st.append(p["l"])
            elif k == "bin" and rv["op"] in ("Add", "AddWithOverflow"):
                a, b = rv["a"], rv["b"]
                ca, cb = op_const_int(a), op_const_int(b)
                if cb is not None and 0 <= cb <= step_max and op_local(a) is not None:
                    st.append(op_local(a))
                elif ca is not None and 0 <= ca <= step_max and op_local(b) is not None:
                    st.append(op_local(b))
                else:
                    return False
            else:
                return False
        # resolve tuple markers
        st2 = []
        for y in st:
            if isinstance(y, tuple):
                tl = y[1]
                for bb, si, rv in body.defs_of(tl):
                    if si == "term" or rv["k"] != "bin" or rv["op"] != "AddWithOverflow":
                        return False
                    a, b = rv["a"], rv["b"]
                    cb = op_const_int(b)
                    if cb is None or not (0 <= cb <= step_max) or op_local(a) is None:
                        return False
                    st2.append(op_local(a))
            else:
                st2.append(y)
        st = st2
    return True


def discharge_one(an, ob):
    body = an.body
    st = an.results.get(ob.bb)
    if st is None or st.dead:
        return Outcome(ob, True, "UNREACH", "block is unreachable under the abstract state")
    t = ob.term
    if ob.kind in ("PANIC", "ASSERT") and isinstance(t, dict) and re.match(r"^bang:debug_assert(_eq|_ne)?:", t.get("expk") or ""):
        # a debug_assert! states an invariant its author believes; it is compiled out of release builds and is not part of the
        # behaviour the properties quantify over (listed in the evidence under its own class)
        return Outcome(ob, True, "DEBUGCHK", "debug_assert!: developer-stated invariant, absent from release builds")
    if ob.kind == "OVF" and ob.sub.startswith("int-"):
        meth = ob.sub[4:]
        st2 = st.copy()
        args = [an.eval_op(st2, a, "q%d" % i) for i, a in enumerate(t["args"])]
        ity = re.sub(r"^&('\w+ )?", "", t["arg_tys"][0]) if t.get("arg_tys") else None
        r = ty_range(ity) if ity else None
        ia = st2.itv(args[0]) if args else (-INF, INF)
        ib = st2.itv(args[1]) if len(args) > 1 else None
        if r is None:
            return Outcome(ob, False, None, "integer method on an unknown type")
        if meth == "abs":
            if ia[0] > r[0]:
                return Outcome(ob, True, "INT", "operand in [%s,%s] excludes %s::MIN" % (ia[0], ia[1], ity))
            return Outcome(ob, False, None, "operand may be %s::MIN: abs() overflows" % ity)
        if meth in ("ilog2", "ilog10", "ilog", "isqrt"):
            ok = ia[0] > 0 if meth != "isqrt" else ia[0] >= 0
            return Outcome(ob, ok, "INT" if ok else None, "operand in [%s,%s]" % ia)
        if meth in ("div_euclid", "rem_euclid", "next_multiple_of", "div_ceil"):
            ok = ib is not None and (ib[0] > 0 or (ib[1] < 0 and (r[0] == 0 or ia[0] > r[0] or ib[1] < -1)))
            if ok and meth == "next_multiple_of":
                ok = ia[1] + ib[1] <= r[1]
            return Outcome(ob, ok, "INT" if ok else None, "divisor in %s, operand in [%s,%s]" % (ib, ia[0], ia[1]))
        if meth == "next_power_of_two":
            ok = ia[1] <= (r[1] + 1) // 2
            return Outcome(ob, ok, "INT" if ok else None, "operand in [%s,%s]" % ia)
        if meth == "pow":
            ok = False
            if ib is not None and ib[1] != INF and ia[0] != -INF and ia[1] != INF and ib[1] <= 128:
                m = max(abs(ia[0]), abs(ia[1]))
                ok = m ** ib[1] <= r[1]
            return Outcome(ob, ok, "INT" if ok else None, "base in [%s,%s], exponent in %s" % (ia[0], ia[1], ib))
        return Outcome(ob, False, None, "integer method %s not understood" % meth)
    if ob.kind == "OVF" and ob.sub.endswith("-call"):
        from .summaries import op_trait_operands
        st2 = st.copy()
        args = [an.eval_op(st2, a, "q%d" % i) for i, a in enumerate(t["args"])]
        ot = op_trait_operands(an, st2, t, args, "q")
        if ot is None:
            return Outcome(ob, False, None, "operator call not understood")
        opn, ity, a, b = ot
        if opn in ("Shl", "Shr"):
            ib = st2.itv(b)
            bits = {"u8": 8, "i8": 8, "u16": 16, "i16": 16, "u32": 32, "i32": 32}.get(ity, 64)
            if 0 <= ib[0] and ib[1] < bits:
                return Outcome(ob, True, "INT", "shift amount < bit width")
            return Outcome(ob, False, None, "shift amount in [%s,%s]" % ib)
        if opn in ("Div", "Rem"):
            ib = st2.itv(b)
            if ib[0] > 0 or ib[1] < 0:
                return Outcome(ob, True, "INT", "divisor non-zero")
            return Outcome(ob, False, None, "divisor in [%s,%s]" % ib)
        res = an.arith(st2, opn, a, b, ity, "qop")
        it = st2.itv(V(const=res.const, sym=res.sym, lazy=res.lazy)) if res is not None else (-INF, INF)
        if fits(it, ity):
            return Outcome(ob, True, "INT", "result in [%s, %s] fits %s" % (it[0], it[1], ity))
        return Outcome(ob, False, None, "result in [%s, %s] does not provably fit %s" % (it[0], it[1], ity))
    if ob.kind in ("OVF", "DIV0", "BOUNDS", "ASSERT"):
        c = an.eval_op(st, t["cond"], "q")
        exp = 1 if t["expected"] else 0
        if c.const is not None and c.const == exp:
            return Outcome(ob, True, "INT", "assert condition decided")
        if c.cond is not None:
            r = an.decide(st, c.cond[0], c.cond[1], c.cond[2])
            if r is not None and (1 if r else 0) == exp:
                return Outcome(ob, True, "INT", "assert condition decided relationally")
        m = t["msg"]
        if ob.kind == "OVF" and m["kind"] == "Overflow" and m["op"] in ("Add", "Sub", "Mul"):
            cp = t["cond"]["place"]
            base = {"l": cp["l"], "p": cp["p"][:-1]}
            key0 = an.pkey(st, base) + ".0"
            v = st.vals.get(key0)
            lt = body.local_ty(cp["l"])
            mm = re.match(r"^\((.*), bool\)$", lt or "")
            ty = mm.group(1) if mm else None
            if v is not None and ty:
                it = st.itv(V(const=v.const, sym=v.sym, lazy=v.lazy))
                if fits(it, ty):
                    return Outcome(ob, True, "INT", "result in [%s, %s] fits %s" % (it[0], it[1], ty))
                why = "result in [%s, %s] does not provably fit %s" % (it[0], it[1], ty)
            else:
                why = "result not tracked"
            if m["op"] == "Add" and (is_counter(body, m["a"]) or is_counter(body, m["b"])):
                return Outcome(ob, True, "CNT", "counter starting at a constant, bumped by a constant")
            return Outcome(ob, False, None, why)
        if ob.kind == "OVF" and m["kind"] == "OverflowNeg":
            a = an.eval_op(st, m["a"], "q")
            it = st.itv(a)
            r = ty_range(a.ty or "") or ty_range(body.local_ty(op_local(m["a"])) if op_local(m["a"]) is not None else "")
            if r and it[0] > r[0]:
                return Outcome(ob, True, "INT", "operand > MIN")
            return Outcome(ob, False, None, "operand may be MIN (interval [%s,%s])" % it)
        if ob.kind == "BOUNDS":
            i = an.eval_op(st, m["index"], "q")
            l = an.eval_op(st, m["len"], "q")
            return Outcome(ob, False, None, "index in [%s,%s], len in [%s,%s]" % (st.itv(i) + st.itv(l)))
        if ob.kind == "DIV0":
            dv = an.divisor_of(t)
            if dv is None:
                return Outcome(ob, False, None, "divisor not identified")
            a = an.eval_op(st, dv, "q")
            it = st.itv(a)
            if it[0] > 0 or it[1] < 0:
                return Outcome(ob, True, "INT", "divisor non-zero")
            return Outcome(ob, False, None, "divisor in [%s,%s]" % it)
        if ob.kind == "OVF" and m["kind"] == "Overflow" and m["op"] in ("Div", "Rem"):
            a = an.eval_op(st, m["a"], "q")
            b = an.eval_op(st, m["b"], "q")
            ia, ib = st.itv(a), st.itv(b)
            r = ty_range(a.ty or "") or (-INF, INF)
            if ib[0] > -1 or ib[1] < -1 or ia[0] > r[0]:
                return Outcome(ob, True, "INT", "MIN / -1 excluded")
            return Outcome(ob, False, None, "MIN %s -1 not excluded" % m["op"])
        if ob.kind == "OVF":   # shifts: condition is `amount < bits`
            return Outcome(ob, False, None, "shift amount not provably < bit width")
        if ob.kind == "ASSERT":
            if m["kind"] == "Other" and ("MisalignedPointerDereference" in m.get("text", "") or "NullPointerDereference" in m.get("text", "")):
                return Outcome(ob, True, "DEBUGCHK", "debug-build pointer check inserted by rustc; the deref itself is an UNSAFE obligation")
        return Outcome(ob, False, None, "assert not decided")
    if ob.kind == "UNWRAP":
        ak = _argkey(an, st, t, 0)
        vs = st.variants.get(ak) if ak else None
        if vs is not None and vs <= {"Some", "Ok"}:
            return Outcome(ob, True, "INT", "value is %s on every path" % "/".join(sorted(vs)))
        return Outcome(ob, False, None, "may be None/Err")
    if ob.kind in ("RANGEIDX",):
        args = [an.eval_op(st, a, "q%d" % i) for i, a in enumerate(t["args"])]
        st2 = st.copy()
        lt = _len_of(an, st2, t, 0, args, "q")
        rk = _argkey(an, st2, t, 1)
        s, e, kind = range_terms(an, st2, rk, t["arg_tys"][1]) if rk else (None, None, None)
        if kind is None:
            return Outcome(ob, False, None, "range not understood")
        if kind == "full":
            return Outcome(ob, True, "INT", "full range")
        if lt is None:
            return Outcome(ob, False, None, "length unknown")
        if e is None:
            e = lt
        if s is None:
            return Outcome(ob, False, None, "range start unknown")
        ok1 = st2.le(s, e)
        ok2 = st2.le(e, lt)
        if ok1 and ok2:
            return Outcome(ob, True, "INT", "start <= end <= len")
        return Outcome(ob, False, None, "start in [%s,%s] end in [%s,%s] len in [%s,%s]" % (st2.itv_term(s) + st2.itv_term(e) + st2.itv_term(lt)))
    if ob.kind == "BOUNDSCALL":
        args = [an.eval_op(st, a, "q%d" % i) for i, a in enumerate(t["args"])]
        st2 = st.copy()
        lt = _len_of(an, st2, t, 0, args, "q")
        ti = st2.term(args[1])
        if lt is not None and ti is not None and st2.le(ti, lt, True):
            return Outcome(ob, True, "INT", "index < len")
        return Outcome(ob, False, None, "index in [%s,%s], len in [%s,%s]" % (st2.itv(args[1]) + (st2.itv_term(lt) if lt else (-INF, INF))))
    if ob.kind == "LIBPRE":
        args = [an.eval_op(st, a, "q%d" % i) for i, a in enumerate(t["args"])]
        nm = ob.sub
        if nm in ("chunks", "chunks_exact", "chunks_mut", "windows", "step_by"):
            it = st.itv(args[1])
            if it[0] >= 1:
                return Outcome(ob, True, "INT", "size >= 1")
            return Outcome(ob, False, None, "size in [%s,%s]" % it)
        if nm == "clamp" and t["arg_tys"] and t["arg_tys"][0] in ("f64", "f32"):
            # float clamp(lo, hi): lo constant, hi = (x as f64) with integer x >= lo
            lo = t["args"][1]
            hi = t["args"][2]
            if lo["k"] == "const" and "float" in lo["c"] and hi["k"] in ("copy", "move"):
                try:
                    c = float(lo["c"]["float"])
                except ValueError:
                    c = None
                l = op_local(hi)
                seen = set()
                src_op = None
                while l is not None and l not in seen:
                    seen.add(l)
                    ds = body.defs_of(l)
                    if len(ds) != 1 or ds[0][1] == "term":
                        break
                    rv = ds[0][2]
                    if rv["k"] == "use":
                        l = op_local(rv["a"])
                        continue
                    if rv["k"] == "cast" and rv["ck"] == "IntToFloat":
                        src_op = rv["a"]
                    break
                if c is not None and src_op is not None:
                    iv = st.itv(an.eval_op(st, src_op, "q"))
                    if iv[0] >= c:
                        return Outcome(ob, True, "INT", "float clamp(%s, x as f64) with x >= %s" % (c, iv[0]))
            return Outcome(ob, False, None, "float clamp bounds not provably ordered")
        if nm == "clamp":
            ta, tb = st.term(args[1]), st.term(args[2])
            if ta is not None and tb is not None and st.le(ta, tb):
                return Outcome(ob, True, "INT", "min <= max")
            return Outcome(ob, False, None, "min <= max not provable")
        if nm in ("copy_from_slice", "clone_from_slice"):
            st2 = st.copy()
            l0 = _len_of(an, st2, t, 0, args, "q0")
            l1 = _len_of(an, st2, t, 1, args, "q1")
            if l0 is not None and l1 is not None and st2.le(l0, l1) and st2.le(l1, l0):
                return Outcome(ob, True, "INT", "equal lengths")
            return Outcome(ob, False, None, "lengths not provably equal: %s vs %s" % (l0, l1))
        if nm in ("split_at", "split_at_mut", "truncate_front"):
            st2 = st.copy()
            l0 = _len_of(an, st2, t, 0, args, "q0")
            ti = st2.term(args[1])
            if l0 is not None and ti is not None and st2.le(ti, l0):
                return Outcome(ob, True, "INT", "mid <= len")
            return Outcome(ob, False, None, "mid <= len not provable")
        if nm == "drain":
            st2 = st.copy()
            lt = _len_of(an, st2, t, 0, args, "q")
            rk = _argkey(an, st2, t, 1)
            s, e, kind = range_terms(an, st2, rk, t["arg_tys"][1]) if rk else (None, None, None)
            if kind == "full":
                return Outcome(ob, True, "INT", "full range")
            if kind and lt is not None and s is not None:
                if e is None:
                    e = lt
                if st2.le(s, e) and st2.le(e, lt):
                    return Outcome(ob, True, "INT", "start <= end <= len")
            return Outcome(ob, False, None, "drain range not provably within the collection")
        if nm == "copy_within":
            # copy_within(src, dest): src within the slice and dest + src.len() <= len; decided for dest <= src.start (then dest + count <= src.end)
            st2 = st.copy()
            lt = _len_of(an, st2, t, 0, args, "q")
            rk = _argkey(an, st2, t, 1)
            s, e, kind = range_terms(an, st2, rk, t["arg_tys"][1]) if rk else (None, None, None)
            td = st2.term(args[2]) if len(args) > 2 else None
            if kind and lt is not None and s is not None and td is not None:
                if e is None:
                    e = lt
                if st2.le(s, e) and st2.le(e, lt) and st2.le(td, s):
                    return Outcome(ob, True, "INT", "source range within the slice, destination not after its start")
            return Outcome(ob, False, None, "copy_within ranges not provably within the slice")
        return Outcome(ob, False, None, "library precondition of %s not modelled" % nm)
    if ob.kind == "LOSSY":
        s = body.blocks[ob.bb]["stmts"][ob.stmt_index]
        # state before the statement: re-run the block prefix
        stp = an.in_states.get(ob.bb)
        if stp is None:
            return Outcome(ob, True, "UNREACH", "unreachable")
        stp = stp.copy()
        for si, s2 in enumerate(body.blocks[ob.bb]["stmts"][:ob.stmt_index]):
            if s2["k"] == "assign":
                an.do_assign(stp, s2, ob.bb, si)
        a = an.eval_op(stp, s["rv"]["a"], "q")
        it = stp.itv(a)
        if fits(it, s["rv"]["ty"]):
            return Outcome(ob, True, "INT", "value in [%s,%s] fits %s" % (it[0], it[1], s["rv"]["ty"]))
        return Outcome(ob, False, None, "value in [%s,%s] may not fit %s" % (it[0], it[1], s["rv"]["ty"]))
    return Outcome(ob, False, None, "%s not discharged by the interpreter" % ob.kind)


class Engine:
    """runs the interpreter over a set of bodies with optional entry facts; one level of caller-derived
    preconditions for private helpers is available through `refine_from_callers`."""

    def __init__(self, prog, invariants=None):
        self.prog = prog
        self.cache = {}
        self.invariants = invariants or {}

    def analyze(self, path, entry=None, depth=0, invariants=None):
        key = (path, repr(sorted((str(k), repr(v)) for k, v in (entry or {}).items())), depth > 0)
        if key not in self.cache:
            b = self.prog.body(path)
            an = Analyzer(b, self.prog, entry=entry, engine=self, invariants=invariants if invariants is not None else self.invariants, depth=depth)
            an.run()
            self.cache[key] = an
        return self.cache[key]

    ITER_ADAPTORS = r"^std::iter::Iterator::(find_map|for_each|map|filter|filter_map|try_for_each|any|all|position|fold|try_fold|find|inspect|take_while|skip_while|flat_map|scan)$|^<.* as std::iter::Iterator>::(find_map|for_each|try_for_each|any|all|position|fold|try_fold|find)$"

    def closure_facts(self, cpath, entries):
        """entry facts for a closure body from the abstract state of the body that creates it, at the call it is handed to.
        By-copy / by-shared-reference captures keep the value they have there; `bool::then(c, closure)` additionally runs the closure
        only when c holds.  A `&mut` capture gets no interval (it changes between calls) but is recorded under "counters" when the
        closure goes to an iterator adaptor over an in-memory sequence (it is then called at most isize::MAX times).
        Returns None when the creation site / the consuming call is not understood."""
        cb = self.prog.body(cpath)
        if cb is None or cb.kind != "Closure":
            return None
        parent = None
        for b in self.prog.bodies:
            if b.path != cpath and (cb.j.get("closure_parent") == b.path or (cb.closure_root and (b.path == cb.closure_root or b.closure_root == cb.closure_root))):
                for i, si, s in b.assigns():
                    rv = s["rv"]
                    if rv["k"] == "agg" and rv.get("ak") == "closure" and rv.get("def") == cpath:
                        parent = (b, i, s)
        if parent is None:
            return None
        pb, cbb, cs = parent
        cl = cs["place"]["l"]
        if cs["place"]["p"]:
            return None
        users = [(bb, t) for bb, t in pb.calls() if any(a.get("k") in ("copy", "move") and a["place"]["l"] == cl and not a["place"]["p"] for a in t["args"])]
        if len(users) != 1:
            return None
        ubb, ut = users[0]
        an = self.analyze(pb.path, entries.get(pb.path))
        st = an.call_args.get(ubb)
        if st is None:
            return None
        st = st.copy()
        nm = callee_name(ut) or ""
        if re.search(r"core::bool::<impl bool>::then$", nm) and ut["args"][0].get("k") in ("copy", "move"):
            rv = an.eval_op(st, ut["args"][0], "cfb")
            if rv.cond is not None:
                an.refine_cond(st, rv.cond, True)
                if st.dead:
                    return None
        env_ref = cb.local_ty(1).startswith("&")
        base = "(*_1)" if env_ref else "_1"
        fields, diffs, counters = {}, [], []
        terms = {}
        is_iter = bool(re.search(self.ITER_ADAPTORS, nm)) and bool(ut.get("arg_tys")) and bool(re.search(
            r"std::slice::(Iter|IterMut|Chunks|ChunksExact|Windows)<|std::vec::IntoIter<|std::str::(Chars|Bytes|CharIndices)<|std::ops::Range<usize>", ut["arg_tys"][0]))
        for i, f in enumerate(cs["rv"]["fields"]):
            v = an.eval_op(st, f, "cfc%d" % i)
            key = "%s.%d" % (base, i)
            if v.ref_to is not None:
                tv = st.vals.get(v.ref_to)
                if v.is_mut:
                    if is_iter and tv is not None:
                        it = st.itv(tv)
                        if it[0] >= 0 and it[1] <= (1 << 62):
                            counters.append("(*%s)" % key)
                    continue
                if tv is not None and (tv.const is not None or tv.sym is not None):
                    fields["(*%s)" % key] = st.itv(tv)
                    terms["(*%s)" % key] = st.term(tv)
            elif v.const is not None or v.sym is not None:
                fields[key] = st.itv(v)
                terms[key] = st.term(v)
        ks = sorted(terms)
        for a in ks:
            for b_ in ks:
                if a != b_ and terms[a] is not None and terms[b_] is not None:
                    if st.le(terms[a], terms[b_], True):
                        diffs.append((a, b_, -1))
                    elif st.le(terms[a], terms[b_]):
                        diffs.append((a, b_, 0))
        # bounds on the sum of two captures (`-size <= index` is kept as index + size >= 0)
        sums = []
        for i_, a in enumerate(ks):
            for b_ in ks[i_ + 1:]:
                ta, tb = terms[a], terms[b_]
                if ta is not None and tb is not None and ta[0] == "s" and tb[0] == "s" and ta[1] != tb[1]:
                    lo, hi = st.sum_bound(ta[1], tb[1])
                    if (lo, hi) != (-INF, INF):
                        off = ta[2] + tb[2]
                        sums.append((a, b_, lo + off if lo != -INF else -INF, hi + off if hi != INF else INF))
                        fields.setdefault(a, st.itv_term(ta))
                        fields.setdefault(b_, st.itv_term(tb))
        fields = {k: v for k, v in fields.items() if v != (-INF, INF) or any(k in (x[0], x[1]) for x in sums)}
        if not fields and not counters:
            return None
        e = {"fields": fields, "field_diffs": diffs}
        if sums:
            e["field_sums"] = sums
        if counters:
            e["counters"] = counters
        return e

    def caller_facts(self, path, callers, entries):
        """join of the abstract arguments over all direct call sites of `path` inside `callers`.
        Returns entry dict or None if some call site is not a direct call (fn item mentioned as a value)."""
        b = self.prog.body(path)
        facts = {}
        n_sites = 0
        for cp in callers:
            cb = self.prog.body(cp)
            if cb is None:
                continue
            an = self.analyze(cp, entries.get(cp))
            for bb, t in cb.calls():
                if callee_name(t) != path:
                    continue
                st = an.call_args.get(bb)
                if st is None:
                    continue   # unreachable call site
                n_sites += 1
                for i, o in enumerate(t["args"]):
                    v = an.eval_op(st.copy(), o, "cf")
                    d = facts.setdefault(i + 1, {"len": None, "itv": None, "n": 0})
                    d["n"] += 1
                    st2 = st.copy()
                    lt = _len_of(an, st2, t, i, [an.eval_op(st2, a, "cf%d" % j) for j, a in enumerate(t["args"])], "cf")
                    li = st2.itv_term(lt) if lt is not None else (0, (1 << 63) - 1)
                    d["len"] = li if d["len"] is None else (min(d["len"][0], li[0]), max(d["len"][1], li[1]))
                    it = st.itv(v)
                    d["itv"] = it if d["itv"] is None else (min(d["itv"][0], it[0]), max(d["itv"][1], it[1]))
        if n_sites == 0:
            return None
        out = {}
        for i, d in facts.items():
            if d["n"] != n_sites:
                continue
            e = {}
            if d["len"] is not None:
                e["len_min"], e["len_max"] = max(0, d["len"][0]), d["len"][1]
            if d["itv"] is not None and d["itv"] != (-INF, INF):
                e["itv"] = d["itv"]
            out[i] = e
        return out
