"""developer helper: python3 -m sa.dev <regex>  prints matching bodies in compact MIR text"""
import sys
from . import facts
from .mir import Program, place_str, op_str


def rv_str(rv):
    k = rv["k"]
    if k == "use":
        return op_str(rv["a"])
    if k == "bin":
        return "%s(%s, %s)" % (rv["op"], op_str(rv["a"]), op_str(rv["b"]))
    if k == "un":
        return "%s(%s)" % (rv["op"], op_str(rv["a"]))
    if k == "cast":
        return "%s as %s [%s]" % (op_str(rv["a"]), rv["ty"], rv["ck"])
    if k == "ref":
        return "&%s%s" % ("mut " if rv["mut"] else "", place_str(rv["place"]))
    if k == "rawptr":
        return "&raw %s" % place_str(rv["place"])
    if k == "discr":
        return "discriminant(%s)" % place_str(rv["place"])
    if k == "agg":
        if rv["ak"] == "adt":
            return "%s::%s{%s}" % (rv["adt"], rv["variant"], ", ".join(op_str(f) for f in rv["fields"]))
        if rv["ak"] == "closure":
            return "closure %s [%s]" % (rv["def"], ", ".join(op_str(f) for f in rv["fields"]))
        return "%s(%s)" % (rv["ak"], ", ".join(op_str(f) for f in rv["fields"]))
    if k == "repeat":
        return "[%s; %s]" % (op_str(rv["a"]), rv["n"])
    return "<%s %s>" % (k, rv.get("text", ""))


def term_str(t):
    k = t["k"]
    if k == "goto":
        return "goto bb%d" % t["t"]
    if k == "switch":
        return "switch %s [%s, otherwise: bb%d]" % (op_str(t["d"]), ", ".join("%s: bb%d" % (v, x) for v, x in zip(t["vals"], t["targets"])), t["otherwise"])
    if k == "call":
        f = t["fn"]
        n = f.get("resolved") or f.get("path") or ("<indirect %s>" % op_str(f["indirect"]))
        if f.get("resolved") is None and f.get("path"):
            n = "?" + n
        return "%s = %s(%s) -> bb%d unwind %s  @%d%s" % (place_str(t["dest"]), n, ", ".join(op_str(a) for a in t["args"]), t["t"], t["unwind"], t["line"], " exp" if t["exp"] else "")
    if k == "assert":
        m = t["msg"]
        d = ", ".join("%s=%s" % (kk, op_str(v)) for kk, v in m.items() if isinstance(v, dict))
        return "assert(%s == %s, %s %s %s) -> bb%d  @%d" % (op_str(t["cond"]), t["expected"], m["kind"], m.get("op", ""), d, t["t"], t["line"])
    if k == "drop":
        return "drop(%s) -> bb%d" % (place_str(t["place"]), t["t"])
    return k


def show(b):
    print("fn %s  [%s] %s  args=%d impl_self=%s trait=%s" % (b.path, b.kind, b.span, b.arg_count, b.impl_self, b.impl_trait))
    for i, l in enumerate(b.locals):
        nm = b.varnames.get(i)
        print("   let _%d: %s%s" % (i, l["ty"], ("  // " + nm) if nm else ""))
    for i, blk in enumerate(b.blocks):
        print("  bb%d%s:" % (i, " (cleanup)" if blk["cleanup"] else ""))
        for s in blk["stmts"]:
            if s["k"] == "assign":
                print("      %s = %s  @%d%s" % (place_str(s["place"]), rv_str(s["rv"]), s["line"], " exp" if s["exp"] else ""))
            elif s["k"] == "dead":
                pass
            else:
                print("      %s" % s)
        print("      %s" % term_str(blk["term"]))


if __name__ == "__main__":
    mirj, srcj, info = facts.load("quick")
    prog = Program(mirj)
    for b in prog.find(sys.argv[1]):
        if len(sys.argv) > 2 and sys.argv[2] == "-l":
            print(b.path, b.span)
        else:
            show(b)
            print()
