"""Model over mir.json: bodies, blocks, places, callees, CFG helpers."""
import re
from collections import defaultdict


def place_str(p):
    s = "_%d" % p["l"]
    for e in p["p"]:
        k = e["k"]
        if k == "deref":
            s = "(*%s)" % s
        elif k == "field":
            s += "." + e["name"]
        elif k == "index":
            s += "[_%d]" % e["l"]
        elif k == "cindex":
            s += "[%s%d]" % ("-" if e["from_end"] else "", e["offset"])
        elif k == "subslice":
            s += "[%d..%s%d]" % (e["from"], "-" if e["from_end"] else "", e["to"])
        elif k == "downcast":
            s = "(%s as %s)" % (s, e["variant"])
        else:
            s += "<%s>" % k
    return s


def op_str(o):
    if o["k"] in ("copy", "move"):
        return place_str(o["place"])
    if o["k"] == "const":
        c = o["c"]
        if "int" in c:
            return c["int"]
        if "fn" in c:
            return "fn:" + c["fn"]["path"]
        return c.get("text", "?")
    return "?"


def op_place(o):
    return o["place"] if o["k"] in ("copy", "move") else None


def op_local(o):
    """local index if operand is a bare local"""
    if o["k"] in ("copy", "move") and not o["place"]["p"]:
        return o["place"]["l"]
    return None


def op_const_int(o):
    if o["k"] == "const" and "int" in o["c"]:
        return int(o["c"]["int"])
    return None


def field_names(p):
    return [e["name"] for e in p["p"] if e["k"] == "field"]


class Body:
    def __init__(self, j, prog):
        self.j = j
        self.prog = prog
        self.path = j["path"]
        self.name = j["name"]
        self.kind = j["kind"]
        self.span = j["span"]
        self.file = j["span"].split(":")[0]
        self.line = int(j["span"].split(":")[1])
        self.blocks = j["blocks"]
        self.locals = j["locals"]
        self.impl_self = j.get("impl_self")
        self.impl_trait = j.get("impl_trait")
        self.closure_root = j.get("closure_root")
        self.arg_count = j["arg_count"]
        self._cfg = None
        self.varnames = {}
        for v in j["vars"]:
            if not v["place"]["p"]:
                self.varnames.setdefault(v["place"]["l"], v["name"])
        self.var_places = [(v["name"], v["place"]) for v in j["vars"]]

    def __repr__(self):
        return "<Body %s>" % self.path

    @property
    def loc(self):
        return "%s:%d" % (self.file, self.line)

    def local_ty(self, l):
        return self.locals[l]["ty"]

    def local_by_name(self, name):
        r = [l for l, n in self.varnames.items() if n == name]
        return r

    def terms(self):
        for i, b in enumerate(self.blocks):
            yield i, b["term"]

    def calls(self, include_cleanup=False):
        for i, b in enumerate(self.blocks):
            if b["cleanup"] and not include_cleanup:
                continue
            t = b["term"]
            if t["k"] == "call":
                yield i, t

    def stmts(self, include_cleanup=False):
        for i, b in enumerate(self.blocks):
            if b["cleanup"] and not include_cleanup:
                continue
            for si, s in enumerate(b["stmts"]):
                yield i, si, s

    def assigns(self):
        for i, si, s in self.stmts():
            if s["k"] == "assign":
                yield i, si, s

    def succs(self, i, unwind=False):
        t = self.blocks[i]["term"]
        k = t["k"]
        out = []
        if k == "goto":
            out = [t["t"]]
        elif k == "switch":
            out = list(t["targets"]) + [t["otherwise"]]
        elif k in ("call", "assert", "drop"):
            if t["t"] >= 0:
                out = [t["t"]]
            if unwind and t.get("unwind", -1) >= 0:
                out.append(t["unwind"])
        return out

    def cfg(self):
        if self._cfg is None:
            from . import cfg
            self._cfg = cfg.CFG(self)
        return self._cfg

    # ---- def-use helpers on whole-local granularity -----------------------------------
    def defs_of(self, l):
        """all (bb, idx|'term', rvalue-or-call) that assign bare local l"""
        out = []
        for i, b in enumerate(self.blocks):
            for si, s in enumerate(b["stmts"]):
                if s["k"] == "assign" and s["place"]["l"] == l and not s["place"]["p"]:
                    out.append((i, si, s["rv"]))
            t = b["term"]
            if t["k"] == "call" and t["dest"]["l"] == l and not t["dest"]["p"]:
                out.append((i, "term", t))
        return out


def callee_name(t):
    f = t["fn"]
    if f.get("path") is None:
        return None
    return f.get("resolved") or f["path"]


def callee_names(t):
    """both the declared (trait) path and the resolved path"""
    f = t["fn"]
    if f.get("path") is None:
        return []
    r = [f["path"]]
    if f.get("resolved") and f["resolved"] != f["path"]:
        r.append(f["resolved"])
    return r


def call_matches(t, pat):
    """pat: regex searched in declared or resolved path"""
    return any(re.search(pat, n) for n in callee_names(t))


class Program:
    def __init__(self, j):
        self.j = j
        self.bodies = [Body(b, self) for b in j["bodies"]]
        self.by_path = defaultdict(list)
        for b in self.bodies:
            self.by_path[b.path].append(b)
        self.adts = {a["path"]: a for a in j["adts"]}
        self.impls = j["impls"]
        self.consts = {c["path"]: c for c in j["consts"]}
        self._cg = None
        self.const_ranges = None   # def path -> (min, max) of literal tables; filled by sa/oblrules.py
        self.const_lens = {}       # def path -> number of elements of literal array consts

    def body(self, path):
        r = self.by_path.get(path, [])
        if len(r) != 1:
            return None
        return r[0]

    def inlined(self, path, keep=None, private_only=False, nested=False, multi=False):
        """body with small single-caller helpers expanded in place (sa/inline.py); the plain body when there are none.
        keep: regex of callees that must stay calls; private_only: never expand `pub` items; nested: a helper called only from
        helpers that were expanded into this body is expanded too; multi: non-`pub` helpers shared by several functions are expanded as well"""
        from . import inline
        return inline.inlined(self, path, keep=keep, private_only=private_only, nested=nested, multi=multi)

    def find(self, regex):
        rx = re.compile(regex)
        return [b for b in self.bodies if rx.search(b.path)]

    def one(self, regex):
        r = self.find(regex)
        return r[0] if len(r) == 1 else None

    def method(self, self_ty_regex, name, trait_regex=None):
        out = []
        for b in self.bodies:
            if b.kind != "AssocFn" or b.name != name or b.impl_self is None:
                continue
            if not re.search(self_ty_regex, b.impl_self):
                continue
            if trait_regex is None:
                if b.impl_trait is not None:
                    continue
            elif trait_regex != "*":
                if b.impl_trait is None or not re.search(trait_regex, b.impl_trait):
                    continue
            out.append(b)
        return out

    def closures_of(self, body):
        return [b for b in self.bodies if b.kind == "Closure" and b.j.get("closure_root") == body.path]

    def enum_variants(self, path):
        a = self.adts.get(path)
        if not a:
            return None
        return [(v["name"], int(v["discr"]) if v["discr"] is not None else None) for v in a["variants"]]

    def callgraph(self):
        if self._cg is None:
            from . import callgraph
            self._cg = callgraph.CallGraph(self)
        return self._cg
