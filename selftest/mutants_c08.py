MUTANTS = [
    {"id": "C08-orig-signed-narrow", "prop": "C08", "expect": "WIDTH",
     "edits": [("src/surface.rs", "                    let index = self as i64;\n                    let size = size as i64;\n                    if index < -size || index >= size {\n                        None\n                    } else {\n                        let start = if index < 0 { index + size } else { index };\n                        Some((start as usize, start as usize + 1))",
                "                    let size = size as $int_type;\n                    if self < -size || self >= size {\n                        None\n                    } else {\n                        let start = if self < 0 { self + size } else { self };\n                        Some((start as usize, start as usize + 1))")]},
    {"id": "C08-saturate-to-minus-one", "prop": "C08", "expect": "", "known_miss": "value-level: which constant the conversion saturates to is not visible in the shape of the code",
     "edits": [("src/surface.rs", "    index.try_into().unwrap_or(i64::MAX)", "    index.try_into().unwrap_or(-1)")]},
    {"id": "C08-range-to-as-cast", "prop": "C08", "expect": "LOSSY",
     "edits": [("src/surface.rs", "range_bounds(RangeTo { end: index_i64(self.end) }, size)", "range_bounds(RangeTo { end: self.end as i64 }, size)")]},
    {"id": "C08-position-plain-add", "prop": "C08", "expect": "TOTAL",
     "edits": [("src/surface.rs", "        Bound::Included(end) => position(*end).saturating_add(1),", "        Bound::Included(end) => position(*end) + 1,")]},
    {"id": "C08-no-clamp-on-end", "prop": "C08", "expect": "POST",
     "edits": [("src/surface.rs", "        Bound::Excluded(end) => position(*end),\n    }\n    .clamp(0, size);", "        Bound::Excluded(end) => position(*end),\n    }\n    .max(0);")]},
    {"id": "C08-empty-window-returned", "prop": "C08", "expect": "POST",
     "edits": [("src/surface.rs", "    if end <= start {\n        None", "    if end < start {\n        None")]},
    {"id": "C08-index-off-by-one-guard", "prop": "C08", "expect": "POST",
     "edits": [("src/surface.rs", "if index < -size || index >= size {", "if index < -size || index > size {")]},
    {"id": "C08-unsigned-index-no-guard", "prop": "C08", "expect": "POST",
     "edits": [("src/surface.rs", "                    if index >= size {\n                        None", "                    if index > size {\n                        None")]},
    {"id": "C08-range-wrong-size", "prop": "C08", "expect": "POST",
     "edits": [("src/surface.rs", "range_bounds(RangeFrom { start: index_i64(self.start) }, size)", "range_bounds(RangeFrom { start: index_i64(self.start) }, size + 1)")]},
    {"id": "C08-benign-rename", "prop": "C08", "benign": True,
     "edits": [("src/surface.rs", "                        let start = if index < 0 { index + size } else { index };\n                        Some((start as usize, start as usize + 1))", "                        let first = if index < 0 { index + size } else { index };\n                        Some((first as usize, first as usize + 1))")]},
    {"id": "C08-benign-min-max-instead-of-clamp", "prop": "C08", "benign": True,
     "edits": [("src/surface.rs", "        Bound::Excluded(start) => position(*start).saturating_add(1),\n    }\n    .clamp(0, size);", "        Bound::Excluded(start) => position(*start).saturating_add(1),\n    }\n    .max(0)\n    .min(size);")]},
]

# ---- behaviour-preserving refactorings the rules must see through (robustness round) ----
_UNS = "                    if index >= size {\n                        None\n                    } else {\n                        Some((index, index + 1))\n                    }"
_SGN = "                    if index < -size || index >= size {\n                        None\n                    } else {\n                        let start = if index < 0 { index + size } else { index };\n                        Some((start as usize, start as usize + 1))\n                    }"
_RB_TAIL = "    if end <= start {\n        None\n    } else {\n        Some((start as usize, end as usize))\n    }"

MUTANTS += [
    # `cond.then(|| window)`: lazy closure, the postcondition is that of the branch
    {"id": "C08-benign-unsigned-then-closure", "prop": "C08", "benign": True,
     "edits": [("src/surface.rs", _UNS, "                    (index < size).then(|| (index, index + 1))")]},
    {"id": "C08-unsigned-then-closure-le", "prop": "C08", "expect": "POST",
     "edits": [("src/surface.rs", _UNS, "                    (index <= size).then(|| (index, index + 1))")]},
    # `cond.then_some(window)` in range_bounds
    {"id": "C08-benign-range-bounds-then-some", "prop": "C08", "benign": True,
     "edits": [("src/surface.rs", _RB_TAIL, "    (start < end).then_some((start as usize, end as usize))")]},
    {"id": "C08-range-bounds-then-some-le", "prop": "C08", "expect": "POST",
     "edits": [("src/surface.rs", _RB_TAIL, "    (start <= end).then_some((start as usize, end as usize))")]},
    # De Morgan + swapped branches + commuted additions in the signed index
    {"id": "C08-benign-signed-de-morgan", "prop": "C08", "benign": True,
     "edits": [("src/surface.rs", _SGN, "                    if index >= -size && size > index {\n                        let start = if index >= 0 { index } else { size + index };\n                        Some((start as usize, 1 + start as usize))\n                    } else {\n                        None\n                    }")]},
    # early return, result through a local
    {"id": "C08-benign-unsigned-early-return", "prop": "C08", "benign": True,
     "edits": [("src/surface.rs", _UNS, "                    if size <= index {\n                        return None;\n                    }\n                    let window = (index, index + 1);\n                    Some(window)")]},
    # index_i64 written as a match
    {"id": "C08-benign-index-i64-match", "prop": "C08", "benign": True,
     "edits": [("src/surface.rs", "    index.try_into().unwrap_or(i64::MAX)", "    match index.try_into() {\n        Ok(index) => index,\n        Err(_) => i64::MAX,\n    }")]},
    # delegation through a local
    {"id": "C08-benign-delegate-through-local", "prop": "C08", "benign": True,
     "edits": [("src/surface.rs", "                    let end = index_i64(self.end);\n                    range_bounds(..=end, size)", "                    let end = index_i64(self.end);\n                    let bounds = range_bounds(..=end, size);\n                    bounds")]},
    # the signed resolution extracted into one private routine shared by the five impls
    {"id": "C08-benign-signed-shared-helper", "prop": "C08", "benign": True,
     "edits": [("src/surface.rs", "                    // resolve in i64, narrower types would wrap for long axes\n                    let index = self as i64;\n                    let size = size as i64;\n" + _SGN, "                    // resolve in i64, narrower types would wrap for long axes\n                    signed_index_bounds(self as i64, size)"),
               ("src/surface.rs", "/// Convert index to `i64`, indices that do not fit are beyond any axis and saturate\n", "fn signed_index_bounds(index: i64, size: usize) -> Option<(usize, usize)> {\n    let size = size as i64;\n    if index < -size || index >= size {\n        None\n    } else {\n        let start = if index < 0 { index + size } else { index };\n        Some((start as usize, start as usize + 1))\n    }\n}\n\n/// Convert index to `i64`, indices that do not fit are beyond any axis and saturate\n")]},
    {"id": "C08-signed-shared-helper-off-by-one", "prop": "C08", "expect": "POST",
     "edits": [("src/surface.rs", "                    // resolve in i64, narrower types would wrap for long axes\n                    let index = self as i64;\n                    let size = size as i64;\n" + _SGN, "                    // resolve in i64, narrower types would wrap for long axes\n                    signed_index_bounds(self as i64, size)"),
               ("src/surface.rs", "/// Convert index to `i64`, indices that do not fit are beyond any axis and saturate\n", "fn signed_index_bounds(index: i64, size: usize) -> Option<(usize, usize)> {\n    let size = size as i64;\n    if index < -size || index > size {\n        None\n    } else {\n        let start = if index < 0 { index + size } else { index };\n        Some((start as usize, start as usize + 1))\n    }\n}\n\n/// Convert index to `i64`, indices that do not fit are beyond any axis and saturate\n")]},
]

_RANGE_DELEG = "                    range_bounds(\n                        Range {\n                            start: index_i64(self.start),\n                            end: index_i64(self.end),\n                        },\n                        size,\n                    )"
_IDX_DOC = "/// Convert index to `i64`, indices that do not fit are beyond any axis and saturate\n"
MUTANTS += [
    # the bound conversion of `a..b` extracted into one generic private helper (ten callers); destructured selector
    {"id": "C08-benign-range-conversion-helper", "prop": "C08", "benign": True,
     "edits": [("src/surface.rs", _RANGE_DELEG, "                    range_bounds(range_i64(self), size)"),
               ("src/surface.rs", _IDX_DOC, "fn range_i64<T: TryInto<i64>>(range: Range<T>) -> Range<i64> {\n    let Range { start, end } = range;\n    index_i64(start)..index_i64(end)\n}\n\n" + _IDX_DOC)]},
    {"id": "C08-range-conversion-helper-shifted", "prop": "C08", "expect": "DELEGATE-KIND",
     "edits": [("src/surface.rs", _RANGE_DELEG, "                    range_bounds(range_i64(self), size)"),
               ("src/surface.rs", _IDX_DOC, "fn range_i64<T: TryInto<i64>>(range: Range<T>) -> Range<i64> {\n    let Range { start, end } = range;\n    index_i64(start)..index_i64(end).saturating_add(1)\n}\n\n" + _IDX_DOC)]},
    # inline saturating conversion instead of index_i64
    {"id": "C08-benign-range-from-inline-conversion", "prop": "C08", "benign": True,
     "edits": [("src/surface.rs", "range_bounds(RangeFrom { start: index_i64(self.start) }, size)", "range_bounds(RangeFrom { start: i64::try_from(self.start).unwrap_or(i64::MAX) }, size)")]},
]


# ---- an exact fast path in front of the delegation (robustness round 3): the impl's own window is checked like any other ----
_FULL = "        range_bounds(self, size)\n    }\n}\n\nmacro_rules! impl_signed_ints("
MUTANTS += [
    {"id": "C08-benign-full-fast-path-contains", "prop": "C08", "benign": True,
     "edits": [("src/surface.rs", _FULL, "        if (1..=i64::MAX as usize).contains(&size) {\n            return Some((0, size));\n        }\n" + _FULL)]},
    {"id": "C08-benign-full-fast-path-comparisons", "prop": "C08", "benign": True,
     "edits": [("src/surface.rs", _FULL, "        if size >= 1 && size <= i64::MAX as usize {\n            return Some((0, size));\n        }\n" + _FULL)]},
    {"id": "C08-benign-full-fast-path-else", "prop": "C08", "benign": True,
     "edits": [("src/surface.rs", _FULL, "        if 0 < size && size <= i64::MAX as usize {\n            Some((0, size))\n        } else {\n    " + _FULL.replace("    }\n}\n\nmacro", "        }\n    }\n}\n\nmacro", 1))]},
    {"id": "C08-benign-full-result-through-local", "prop": "C08", "benign": True,
     "edits": [("src/surface.rs", _FULL, "        let window = " + _FULL.lstrip().replace("size)\n", "size);\n        window\n", 1))]},
    {"id": "C08-full-fast-path-admits-empty-axis", "prop": "C08", "expect": "POST",
     "edits": [("src/surface.rs", _FULL, "        if (0..=i64::MAX as usize).contains(&size) {\n            return Some((0, size));\n        }\n" + _FULL)]},
    {"id": "C08-full-fast-path-window-too-long", "prop": "C08", "expect": "POST",
     "edits": [("src/surface.rs", _FULL, "        if (1..=1024usize).contains(&size) {\n            return Some((0, size + 1));\n        }\n" + _FULL)]},
    {"id": "C08-full-delegation-result-shifted", "prop": "C08", "expect": "POST",
     "edits": [("src/surface.rs", _FULL, "        range_bounds(self, size).map(|(s, e)| (s + 1, e))\n    }\n}\n\nmacro_rules! impl_signed_ints(")]},
]


# ---- robustness round 5: the bounds of an inclusive selector read through into_inner(), range sugar for the struct literal ----
_INCL = "                    let start = index_i64(*self.start());\n                    let end = index_i64(*self.end());\n                    range_bounds(start..=end, size)"
MUTANTS += [
    {"id": "C08-benign-inclusive-into-inner", "prop": "C08", "benign": True,
     "edits": [("src/surface.rs", _INCL, "                    let (first, last) = self.into_inner();\n                    range_bounds(index_i64(first)..=index_i64(last), size)")]},
    {"id": "C08-benign-inclusive-new-clone", "prop": "C08", "benign": True,
     "edits": [("src/surface.rs", _INCL, "                    let start = index_i64(self.start().clone());\n                    let end = index_i64(self.end().clone());\n                    range_bounds(RangeInclusive::new(start, end), size)")]},
    {"id": "C08-inclusive-into-inner-shifted", "prop": "C08", "expect": "DELEGATE-KIND",
     "edits": [("src/surface.rs", _INCL, "                    let (first, last) = self.into_inner();\n                    range_bounds(index_i64(first)..=index_i64(last).saturating_sub(1), size)")]},
    {"id": "C08-inclusive-into-inner-swapped", "prop": "C08", "expect": "DELEGATE-KIND",
     "edits": [("src/surface.rs", _INCL, "                    let (first, last) = self.into_inner();\n                    range_bounds(index_i64(last)..=index_i64(first), size)")]},
    {"id": "C08-benign-range-sugar", "prop": "C08", "benign": True,
     "edits": [("src/surface.rs", _RANGE_DELEG, "                    range_bounds(index_i64(self.start)..index_i64(self.end), size)")]},
]

# a None answered by the impl itself on a test of the selector (not by range_bounds) changes what the selector means
MUTANTS += [
    {"id": "C08-inclusive-own-none-on-empty", "prop": "C08", "expect": "DELEGATE-KIND",
     "edits": [("src/surface.rs", _INCL, "                    if self.is_empty() {\n                        return None;\n                    }\n                    let (first, last) = self.into_inner();\n                    range_bounds(index_i64(first)..=index_i64(last), size)")]},
    {"id": "C08-benign-inclusive-empty-axis-shortcut", "prop": "C08", "benign": True,
     "edits": [("src/surface.rs", _INCL, "                    if size == 0 {\n                        return None;\n                    }\n" + _INCL)]},
]
