"""C11 mutants: breaking edits of src/image.rs that still compile (must be reported with the expected key fragment) and
benign edits (must stay silent; the three known findings of the unchanged tree are tolerated through VERIF_KNOWN_EXTRA)."""
I = "src/image.rs"
FIRST = ('                        "\\x1b_Ga=t,f=32,i={},v={},s={},m={},q={};",\n'
         '                        img_id,\n'
         '                        img.height(),\n'
         '                        img.width(),\n'
         '                        more,\n'
         '                        suppress\n')
MUTANTS = [
    # ---------------- (a) templates / keys ----------------
    {"id": "C11-v-s-swapped", "prop": "C11", "expect": "TEMPLATE/KittyImageHandler::draw/transmit-first-",
     "edits": [(I, "                        img.height(),\n                        img.width(),\n", "                        img.width(),\n                        img.height(),\n")]},
    {"id": "C11-v-s-keys-swapped", "prop": "C11", "expect": "TEMPLATE/KittyImageHandler::draw/transmit-first-",
     "edits": [(I, '"\\x1b_Ga=t,f=32,i={},v={},s={},m={},q={};"', '"\\x1b_Ga=t,f=32,i={},s={},v={},m={},q={};"')]},
    {"id": "C11-format-24", "prop": "C11", "expect": "TEMPLATE/KittyImageHandler::draw/transmit-first-f",
     "edits": [(I, '"\\x1b_Ga=t,f=32,i={},v={},s={},m={},q={};"', '"\\x1b_Ga=t,f=24,i={},v={},s={},m={},q={};"')]},
    {"id": "C11-transmit-without-id", "prop": "C11", "expect": "TEMPLATE/KittyImageHandler::draw/transmit-first-i",
     "edits": [(I, FIRST, '                        "\\x1b_Ga=t,f=32,v={},s={},m={},q={};",\n                        img.height(),\n                        img.width(),\n                        more,\n                        suppress\n')]},
    {"id": "C11-put-uses-transmit-and-display", "prop": "C11", "expect": "TEMPLATE/KittyImageHandler::draw/put-missing",
     "edits": [(I, '"\\x1b_Ga=p,i={img_id},C=1,p={placement_id},q={suppress};\\x1b\\\\"', '"\\x1b_Ga=T,i={img_id},C=1,p={placement_id},q={suppress};\\x1b\\\\"')]},
    {"id": "C11-put-placement-is-image-id", "prop": "C11", "expect": "TEMPLATE/KittyImageHandler::draw/put-p",
     "edits": [(I, '"\\x1b_Ga=p,i={img_id},C=1,p={placement_id},q={suppress};\\x1b\\\\"', '"\\x1b_Ga=p,i={img_id},C=1,p={img_id},q={suppress};\\x1b\\\\"')]},
    {"id": "C11-erase-frees-data", "prop": "C11", "expect": "TEMPLATE/KittyImageHandler::erase/delete-placement-d",
     "edits": [(I, '"\\x1b_Ga=d,d=i,i={},p={}\\x1b\\\\"', '"\\x1b_Ga=d,d=a,i={},p={}\\x1b\\\\"')]},
    {"id": "C11-erase-args-swapped", "prop": "C11", "expect": "TEMPLATE/KittyImageHandler::erase/delete-placement-",
     "edits": [(I, "                kitty_image_id(img),\n                kitty_placement_id(pos),\n", "                kitty_placement_id(pos),\n                kitty_image_id(img),\n")]},
    {"id": "C11-continuation-repeats-action", "prop": "C11", "expect": "TEMPLATE/KittyImageHandler::draw/",
     "edits": [(I, 'write!(out, "\\x1b_Gm={more},q={suppress};")?;', 'write!(out, "\\x1b_Gm={more},s={suppress};")?;')]},
    {"id": "C11-unknown-key", "prop": "C11", "expect": "KEYS/KittyImageHandler::draw/put-e-unknown-key",
     "edits": [(I, '"\\x1b_Ga=p,i={img_id},C=1,p={placement_id},q={suppress};\\x1b\\\\"', '"\\x1b_Ga=p,i={img_id},C=1,e=1,p={placement_id},q={suppress};\\x1b\\\\"')]},
    {"id": "C11-key-value-out-of-domain", "prop": "C11", "expect": "KEYS/KittyImageHandler::draw/put-C-value",
     "edits": [(I, '"\\x1b_Ga=p,i={img_id},C=1,p={placement_id},q={suppress};\\x1b\\\\"', '"\\x1b_Ga=p,i={img_id},C=2,p={placement_id},q={suppress};\\x1b\\\\"')]},
    {"id": "C11-hex-image-id", "prop": "C11", "expect": "TEMPLATE/KittyImageHandler::draw/put-i",
     "edits": [(I, '"\\x1b_Ga=p,i={img_id},C=1,p={placement_id},q={suppress};\\x1b\\\\"', '"\\x1b_Ga=p,i={img_id:x},C=1,p={placement_id},q={suppress};\\x1b\\\\"')]},
    # ---------------- framing ----------------
    {"id": "C11-chunk-without-st", "prop": "C11", "expect": "FRAMING/KittyImageHandler::draw",
     "edits": [(I, "                // epilogue\n                out.write_all(b\"\\x1b\\\\\")?;\n", "                // epilogue\n")]},
    {"id": "C11-erase-osc-introducer", "prop": "C11", "expect": "FRAMING/KittyImageHandler::erase",
     "edits": [(I, 'None => write!(out, "\\x1b_Ga=d,d=i,i={}\\x1b\\\\", kitty_image_id(img))?,', 'None => write!(out, "\\x1b]Ga=d,d=i,i={}\\x1b\\\\", kitty_image_id(img))?,')]},
    # ---------------- (b) chunking ----------------
    {"id": "C11-chunks-4095", "prop": "C11", "expect": "CHUNK/KittyImageHandler::draw/chunk-size-not-multiple-of-4",
     "edits": [(I, "payload.chunks(4096)", "payload.chunks(4095)")]},
    {"id": "C11-chunks-8192", "prop": "C11", "expect": "CHUNK/KittyImageHandler::draw/chunk-size-exceeds-4096",
     "edits": [(I, "payload.chunks(4096)", "payload.chunks(8192)")]},
    {"id": "C11-more-flag-inverted", "prop": "C11", "expect": "TEMPLATE/KittyImageHandler::draw/transmit-first-m",
     "edits": [(I, "let more = i32::from(index + 1 < count);", "let more = i32::from(index + 1 >= count);")]},
    {"id": "C11-more-flag-off-by-one", "prop": "C11", "expect": "TEMPLATE/KittyImageHandler::draw/transmit-first-m",
     "edits": [(I, "let more = i32::from(index + 1 < count);", "let more = i32::from(index < count);")]},
    # ---------------- (c) pairing ----------------
    {"id": "C11-erase-other-image-id", "prop": "C11", "expect": "PAIRING/KittyImageHandler::erase/image-id-not-called",
     "edits": [(I, "                kitty_image_id(img),\n                kitty_placement_id(pos),\n", "                img.hash() % KITTY_MAX_ID,\n                kitty_placement_id(pos),\n"),
               (I, 'None => write!(out, "\\x1b_Ga=d,d=i,i={}\\x1b\\\\", kitty_image_id(img))?,', 'None => write!(out, "\\x1b_Ga=d,d=i,i={}\\x1b\\\\", img.hash() % KITTY_MAX_ID)?,')]},
    {"id": "C11-erase-transposed-position", "prop": "C11", "expect": "TEMPLATE/KittyImageHandler::erase/delete-placement-p",
     "edits": [(I, "                kitty_placement_id(pos),\n            )?,", "                kitty_placement_id(Position::new(pos.col, pos.row)),\n            )?,")]},
    {"id": "C11-cache-key-differs", "prop": "C11", "expect": "PAIRING/KittyImageHandler::draw/cache-key",
     "edits": [(I, "self.imgs.entry(img_id)", "self.imgs.entry(img_id / 2)")]},
    {"id": "C11-inverse-swaps-row-col", "prop": "C11", "expect": "PAIRING/image::kitty_placement_to_pos/inverse-disagrees",
     "edits": [(I, "        col: (placement_id.saturating_sub(1) / KITTY_MAX_DIM) as usize,\n        row: (placement_id.saturating_sub(1) % KITTY_MAX_DIM) as usize,", "        row: (placement_id.saturating_sub(1) / KITTY_MAX_DIM) as usize,\n        col: (placement_id.saturating_sub(1) % KITTY_MAX_DIM) as usize,")]},
    {"id": "C11-inverse-other-constant", "prop": "C11", "expect": "PAIRING/image::kitty_placement_to_pos/inverse-disagrees",
     "edits": [(I, "        col: (placement_id.saturating_sub(1) / KITTY_MAX_DIM) as usize,", "        col: (placement_id.saturating_sub(1) / KITTY_MAX_ID) as usize,")]},
    {"id": "C11-radix-not-modulus", "prop": "C11", "expect": "PAIRING/image::kitty_placement_id/radix-differs-from-modulus",
     "edits": [(I, "(pos.row as u64 % KITTY_MAX_DIM) + (pos.col as u64 % KITTY_MAX_DIM) * KITTY_MAX_DIM + 1", "(pos.row as u64 % KITTY_MAX_DIM) + (pos.col as u64 % KITTY_MAX_DIM) * 1000 + 1")]},
    {"id": "C11-offset-overflows-id-range", "prop": "C11", "expect": "PAIRING/image::kitty_placement_id/exceeds-max-id",
     "edits": [(I, "const KITTY_MAX_DIM: u64 = 65535;", "const KITTY_MAX_DIM: u64 = 65536;")]},
    {"id": "C11-offset-not-undone-by-inverse", "prop": "C11", "expect": "PAIRING/image::kitty_placement_to_pos/inverse-disagrees",
     "edits": [(I, "        col: (placement_id.saturating_sub(1) / KITTY_MAX_DIM) as usize,\n        row: (placement_id.saturating_sub(1) % KITTY_MAX_DIM) as usize,", "        col: (placement_id / KITTY_MAX_DIM) as usize,\n        row: (placement_id % KITTY_MAX_DIM) as usize,")]},
    {"id": "C11-offset-undone-for-row-only", "prop": "C11", "expect": "PAIRING/image::kitty_placement_to_pos/inverse-disagrees",
     "edits": [(I, "        col: (placement_id.saturating_sub(1) / KITTY_MAX_DIM) as usize,", "        col: (placement_id / KITTY_MAX_DIM) as usize,")]},
    # ---------------- (d) transmit once ----------------
    {"id": "C11-transmit-also-when-cached", "prop": "C11", "expect": "TRANSMIT-ONCE/KittyImageHandler::draw/transmit-when-cached",
     "edits": [(I, "            // remember that image data has been send\n            entry.insert(img.clone());\n", ""),
               (I, "        if let Entry::Vacant(entry) = self.imgs.entry(img_id) {", "        if let Entry::Vacant(entry) = self.imgs.entry(img_id) {\n            entry.insert(img.clone());\n        }\n        if self.imgs.contains_key(&img_id) {")]},
    {"id": "C11-vacant-without-insert", "prop": "C11", "expect": "TRANSMIT-ONCE/<image::KittyImageHandlerasimage::ImageHandler>::draw/vacant-without-insert",
     "edits": [(I, "            entry.insert(img.clone());", "            let _ = &entry;")]},
    {"id": "C11-insert-only-for-multi-chunk", "prop": "C11", "expect": "vacant-without-insert",
     "edits": [(I, "            entry.insert(img.clone());", "            if count > 1 {\n                entry.insert(img.clone());\n            }")]},
    {"id": "C11-no-put-after-transmit", "prop": "C11", "expect": "TRANSMIT-ONCE/KittyImageHandler::draw/put-not-on-every-path",
     "edits": [(I, "            entry.insert(img.clone());", "            entry.insert(img.clone());\n            if count > 0 {\n                return Ok(());\n            }")]},
    {"id": "C11-handle-keeps-cache-entry", "prop": "C11", "expect": "TRANSMIT-ONCE/<image::KittyImageHandlerasimage::ImageHandler>::handle/redraw-without-remove",
     "edits": [(I, "(self.imgs.remove(id), pos)", "(self.imgs.get(id).cloned(), pos)")]},
    # ---------------- (e) payload ----------------
    {"id": "C11-pixels-from-backing-store", "prop": "C11", "expect": "PAYLOAD/KittyImageHandler::draw/pixel-order",
     "edits": [(I, "            for color in img.iter() {\n                payload_write.write_all(&color.to_rgba())?;", "            for color in img.data().iter() {\n                payload_write.write_all(&color.to_rgba())?;")]},
    {"id": "C11-pixels-rgb-only", "prop": "C11", "expect": "PAYLOAD/KittyImageHandler::draw/pixel-bytes",
     "edits": [(I, "payload_write.write_all(&color.to_rgba())?;", "payload_write.write_all(&color.to_rgba()[..3])?;")]},
    {"id": "C11-chunks-of-other-buffer", "prop": "C11", "expect": "PAYLOAD/KittyImageHandler::draw/chunks-not-of-encoder-output",
     "edits": [(I, "            let payload = payload_write.finish()?;\n", "            let payload = payload_write.finish()?;\n            let payload = &payload[1..];\n")]},
    {"id": "C11-shape-nth-column-major", "prop": "C11", "expect": "PAYLOAD/surface::Shape::nth/not-row-major",
     "edits": [("src/surface.rs", "        let row = n / self.width;\n        let col = n - row * self.width;", "        let col = n / self.width;\n        let row = n - col * self.width;")]},
    # ---------------- the original defects (fixed in /repo by 3e1cd06 and 3ed07c6) ----------------
    {"id": "C11-orig-placement-id-zero", "prop": "C11", "expect": "ID-NONZERO/image::kitty_placement_id/may-be-zero",
     "edits": [(I, "const KITTY_MAX_DIM: u64 = 65535;", "const KITTY_MAX_DIM: u64 = 65536;"),
               (I, "(pos.row as u64 % KITTY_MAX_DIM) + (pos.col as u64 % KITTY_MAX_DIM) * KITTY_MAX_DIM + 1", "(pos.row as u64 % KITTY_MAX_DIM) + (pos.col as u64 % KITTY_MAX_DIM) * KITTY_MAX_DIM"),
               (I, "        col: (placement_id.saturating_sub(1) / KITTY_MAX_DIM) as usize,\n        row: (placement_id.saturating_sub(1) % KITTY_MAX_DIM) as usize,", "        col: (placement_id / KITTY_MAX_DIM) as usize,\n        row: (placement_id % KITTY_MAX_DIM) as usize,")]},
    {"id": "C11-orig-image-id-zero", "prop": "C11", "expect": "ID-NONZERO/image::kitty_image_id/may-be-zero",
     "edits": [(I, "    img.hash() % KITTY_MAX_ID + 1\n", "    img.hash() % KITTY_MAX_ID\n")]},
    {"id": "C11-orig-empty-image-placed", "prop": "C11", "expect": "TRANSMIT-ONCE/KittyImageHandler::draw/empty-image-put-without-transmit",
     "edits": [(I, "        if img.width() == 0 || img.height() == 0 {\n            // nothing to transmit, placement would refer to an image that was never sent\n            return Ok(());\n        }\n", "")]},
    {"id": "C11-empty-guard-after-cache-lookup", "prop": "C11", "expect": "TRANSMIT-ONCE/KittyImageHandler::draw/empty-image-put-without-transmit",
     "edits": [(I, "        if img.width() == 0 || img.height() == 0 {\n            // nothing to transmit, placement would refer to an image that was never sent\n            return Ok(());\n        }\n", ""),
               (I, "        // request image to be shown\n", "        if img.width() == 0 || img.height() == 0 {\n            return Ok(());\n        }\n        // request image to be shown\n")]},
    {"id": "C11-image-id-or-zero", "prop": "C11", "expect": "ID-NONZERO/image::kitty_image_id/may-be-zero",
     "edits": [(I, "    img.hash() % KITTY_MAX_ID + 1\n", "    (img.hash() % KITTY_MAX_ID) | 0\n")]},
    # ---------------- benign ----------------
    {"id": "C11-benign-split-write", "prop": "C11", "benign": True,
     "edits": [(I, '                    write!(out, "\\x1b_Gm={more},q={suppress};")?;', '                    out.write_all(b"\\x1b_G")?;\n                    write!(out, "m={}", more)?;\n                    write!(out, ",q={};", suppress)?;')]},
    {"id": "C11-benign-rename-locals", "prop": "C11", "benign": True,
     "edits": [(I, "let more = i32::from(index + 1 < count);", "let has_more = i32::from(count > 1 + index);\n                let more = has_more;"),
               (I, "for (index, chunk) in chunks.enumerate() {", "for (index, piece) in chunks.enumerate() {"),
               (I, "out.write_all(chunk)?;", "out.write_all(piece)?;"),
               (I, "        let placement_id = kitty_placement_id(pos);", "        let place = kitty_placement_id(pos);\n        let placement_id = place;")]},
    {"id": "C11-benign-reorder-keys-and-statements", "prop": "C11", "benign": True,
     "edits": [(I, '"\\x1b_Ga=p,i={img_id},C=1,p={placement_id},q={suppress};\\x1b\\\\"', '"\\x1b_Ga=p,q={suppress},p={placement_id},i={img_id},C=1;\\x1b\\\\"'),
               (I, '"\\x1b_Ga=t,f=32,i={},v={},s={},m={},q={};"', '"\\x1b_Gf=32,a=t,i={0},s={2},v={1},m={3},q={4};"')]},
    {"id": "C11-benign-more-as-cast", "prop": "C11", "benign": True,
     "edits": [(I, "let more = i32::from(index + 1 < count);", "let more = (index + 1 != count) as u8;")]},
    {"id": "C11-benign-ids-other-spelling", "prop": "C11", "benign": True,
     "edits": [(I, "    img.hash() % KITTY_MAX_ID + 1\n", "    1 + img.hash() % KITTY_MAX_ID\n"),
               (I, "(pos.row as u64 % KITTY_MAX_DIM) + (pos.col as u64 % KITTY_MAX_DIM) * KITTY_MAX_DIM + 1", "1 + (pos.col as u64 % KITTY_MAX_DIM) * KITTY_MAX_DIM + (pos.row as u64 % KITTY_MAX_DIM)"),
               (I, "        col: (placement_id.saturating_sub(1) / KITTY_MAX_DIM) as usize,\n        row: (placement_id.saturating_sub(1) % KITTY_MAX_DIM) as usize,", "        row: (placement_id.wrapping_sub(1) % KITTY_MAX_DIM) as usize,\n        col: (placement_id.wrapping_sub(1) / KITTY_MAX_DIM % KITTY_MAX_DIM) as usize,")]},
    {"id": "C11-benign-empty-guard-other-spelling", "prop": "C11", "benign": True,
     "edits": [(I, "        if img.width() == 0 || img.height() == 0 {\n", "        let empty = img.height() == 0 || 0 == img.width();\n        if empty {\n")]},
]


MUTANTS += [
    {"id": "C11-handle-remove-only-with-placement", "prop": "C11", "expect": "TRANSMIT-ONCE",
     "edits": [("src/image.rs", "                    if let (Some(img), Some(pos)) = (self.imgs.remove(id), pos) {", "                    if let Some(pos) = pos\n                        && let Some(img) = self.imgs.remove(id)\n                    {")]},
    {"id": "C11-benign-handle-remove-first", "prop": "C11", "benign": True,
     "edits": [("src/image.rs", "                    if let (Some(img), Some(pos)) = (self.imgs.remove(id), pos) {", "                    let cached = self.imgs.remove(id);\n                    if let (Some(img), Some(pos)) = (cached, pos) {")]},
]


# ---------------- robustness: behaviour-preserving refactorings (must stay silent) and their breaking counterparts ----------------
ERASE_MATCH = ('        match pos {\n'
               '            Some(pos) => write!(\n'
               '                out,\n'
               '                "\\x1b_Ga=d,d=i,i={},p={}\\x1b\\\\",\n'
               '                kitty_image_id(img),\n'
               '                kitty_placement_id(pos),\n'
               '            )?,\n'
               '            None => write!(out, "\\x1b_Ga=d,d=i,i={}\\x1b\\\\", kitty_image_id(img))?,\n'
               '        }\n')
PIXEL_LOOP = ('            let mut payload_write = Base64Encoder::new(Vec::new());\n'
              '            for color in img.iter() {\n'
              '                payload_write.write_all(&color.to_rgba())?;\n'
              '            }\n'
              '            let payload = payload_write.finish()?;\n')
INVERSE = ('        col: (placement_id.saturating_sub(1) / KITTY_MAX_DIM) as usize,\n'
           '        row: (placement_id.saturating_sub(1) % KITTY_MAX_DIM) as usize,')
IMPL = "impl ImageHandler for KittyImageHandler {\n"
MORE = "let more = i32::from(index + 1 < count);"
CHUNK_LOOP_HEAD = "            for (index, chunk) in chunks.enumerate() {\n"
CHUNK_LOOP_TAIL = ('                // epilogue\n'
                   '                out.write_all(b"\\x1b\\\\")?;\n'
                   '            }\n')
MUTANTS += [
    # erase: one command written piecewise, placement id computed up front through Option::map
    {"id": "C11-benign-erase-sequential-writes", "prop": "C11", "benign": True,
     "edits": [(I, ERASE_MATCH,
                '        let img_id = kitty_image_id(img);\n'
                '        let placement_id = pos.map(kitty_placement_id);\n'
                '        write!(out, "\\x1b_Ga=d,d=i,i={img_id}")?;\n'
                '        if let Some(placement_id) = placement_id {\n'
                '            write!(out, ",p={placement_id}")?;\n'
                '        }\n'
                '        write!(out, "\\x1b\\\\")?;\n')]},
    {"id": "C11-erase-sequential-writes-no-terminator", "prop": "C11", "expect": "FRAMING/KittyImageHandler::erase",
     "edits": [(I, ERASE_MATCH,
                '        let img_id = kitty_image_id(img);\n'
                '        let placement_id = pos.map(kitty_placement_id);\n'
                '        write!(out, "\\x1b_Ga=d,d=i,i={img_id}")?;\n'
                '        if let Some(placement_id) = placement_id {\n'
                '            write!(out, ",p={placement_id}\\x1b\\\\")?;\n'
                '        }\n')]},
    {"id": "C11-erase-map-closure-transposes", "prop": "C11", "expect": "TEMPLATE/KittyImageHandler::erase/delete-placement-p",
     "edits": [(I, ERASE_MATCH,
                '        let img_id = kitty_image_id(img);\n'
                '        let placement_id = pos.map(|p| kitty_placement_id(Position::new(p.col, p.row)));\n'
                '        write!(out, "\\x1b_Ga=d,d=i,i={img_id}")?;\n'
                '        if let Some(placement_id) = placement_id {\n'
                '            write!(out, ",p={placement_id}")?;\n'
                '        }\n'
                '        write!(out, "\\x1b\\\\")?;\n')]},
    {"id": "C11-benign-erase-if-let-closure-map", "prop": "C11", "benign": True,
     "edits": [(I, ERASE_MATCH,
                '        let image = kitty_image_id(img);\n'
                '        if let Some(placement) = pos.map(|p| kitty_placement_id(p)) {\n'
                '            write!(out, "\\x1b_Ga=d,d=i,i={image},p={placement}\\x1b\\\\")?;\n'
                '        } else {\n'
                '            write!(out, "\\x1b_Ga=d,d=i,i={image}\\x1b\\\\")?;\n'
                '        }\n')]},
    {"id": "C11-benign-erase-is-some-unwrap", "prop": "C11", "benign": True,
     "edits": [(I, ERASE_MATCH,
                '        if pos.is_some() {\n'
                '            write!(out, "\\x1b_Ga=d,d=i,i={},p={}\\x1b\\\\", kitty_image_id(img), kitty_placement_id(pos.unwrap()))?;\n'
                '        } else {\n'
                '            write!(out, "\\x1b_Ga=d,d=i,i={}\\x1b\\\\", kitty_image_id(img))?;\n'
                '        }\n')]},
    # payload: helper extracted / iterator chain instead of the loop
    {"id": "C11-benign-payload-helper", "prop": "C11", "benign": True,
     "edits": [(I, PIXEL_LOOP, '            let payload = kitty_payload(img)?;\n'),
               (I, IMPL, 'fn kitty_payload(img: &Image) -> Result<Vec<u8>, Error> {\n'
                         '    let mut encoder = Base64Encoder::new(Vec::new());\n'
                         '    for pixel in img.iter() {\n'
                         '        encoder.write_all(&pixel.to_rgba())?;\n'
                         '    }\n'
                         '    Ok(encoder.finish()?)\n'
                         '}\n\n' + IMPL)]},
    {"id": "C11-payload-helper-backing-store-order", "prop": "C11", "expect": "PAYLOAD/KittyImageHandler::draw/pixel-order",
     "edits": [(I, PIXEL_LOOP, '            let payload = kitty_payload(img)?;\n'),
               (I, IMPL, 'fn kitty_payload(img: &Image) -> Result<Vec<u8>, Error> {\n'
                         '    let mut encoder = Base64Encoder::new(Vec::new());\n'
                         '    for pixel in img.data().iter() {\n'
                         '        encoder.write_all(&pixel.to_rgba())?;\n'
                         '    }\n'
                         '    Ok(encoder.finish()?)\n'
                         '}\n\n' + IMPL)]},
    {"id": "C11-benign-pixels-try-for-each", "prop": "C11", "benign": True,
     "edits": [(I, '            for color in img.iter() {\n                payload_write.write_all(&color.to_rgba())?;\n            }\n',
                '            img.iter()\n                .try_for_each(|color| payload_write.write_all(&color.to_rgba()))?;\n')]},
    {"id": "C11-pixels-try-for-each-backing-store", "prop": "C11", "expect": "PAYLOAD/KittyImageHandler::draw/pixel-order",
     "edits": [(I, '            for color in img.iter() {\n                payload_write.write_all(&color.to_rgba())?;\n            }\n',
                '            img.data()\n                .iter()\n                .try_for_each(|color| payload_write.write_all(&color.to_rgba()))?;\n')]},
    {"id": "C11-pixels-skipped-when-transparent", "prop": "C11", "expect": "PAYLOAD/KittyImageHandler::draw/pixel-bytes",
     "edits": [(I, '                payload_write.write_all(&color.to_rgba())?;\n',
                '                if color.to_rgba()[3] != 0 {\n                    payload_write.write_all(&color.to_rgba())?;\n                }\n')]},
    {"id": "C11-benign-pixels-while-let", "prop": "C11", "benign": True,
     "edits": [(I, '            for color in img.iter() {\n                payload_write.write_all(&color.to_rgba())?;\n            }\n',
                '            let mut pixels = img.iter();\n            while let Some(color) = pixels.next() {\n                let rgba = color.to_rgba();\n                payload_write.write_all(&rgba)?;\n            }\n')]},
    # continuation flag: equivalent conditions / wrong ones
    {"id": "C11-benign-more-flag-subtraction", "prop": "C11", "benign": True,
     "edits": [(I, MORE, "let more = i32::from(count - index > 1);")]},
    {"id": "C11-benign-more-flag-last-index", "prop": "C11", "benign": True,
     "edits": [(I, MORE, "let last = count - 1;\n                let more = u8::from(index < last);")]},
    {"id": "C11-benign-more-flag-plus-two", "prop": "C11", "benign": True,
     "edits": [(I, MORE, "let more = if index + 2 <= count { 1 } else { 0 };")]},
    {"id": "C11-more-flag-subtraction-off-by-one", "prop": "C11", "expect": "TEMPLATE/KittyImageHandler::draw/transmit-first-m",
     "edits": [(I, MORE, "let more = i32::from(count - index > 2);")]},
    {"id": "C11-more-flag-always-set", "prop": "C11", "expect": "TEMPLATE/KittyImageHandler::draw/transmit-first-m",
     "edits": [(I, MORE, "let more = i32::from(count - index >= 1);")]},
    {"id": "C11-more-flag-underflows-on-single-chunk", "prop": "C11", "expect": "TEMPLATE/KittyImageHandler::draw/transmit-first-m",
     "edits": [(I, MORE, "let more = i32::from(count - 2 >= index);")]},
    # placement id inverse: guarded subtraction idioms
    {"id": "C11-benign-inverse-guarded-sub", "prop": "C11", "benign": True,
     "edits": [(I, "    Position {\n" + INVERSE,
                "    let index = if placement_id > 0 { placement_id - 1 } else { 0 };\n    Position {\n"
                "        col: (index / KITTY_MAX_DIM) as usize,\n        row: (index % KITTY_MAX_DIM) as usize,")]},
    {"id": "C11-benign-inverse-checked-sub", "prop": "C11", "benign": True,
     "edits": [(I, "    Position {\n" + INVERSE,
                "    let index = placement_id.checked_sub(1).unwrap_or(0);\n    Position {\n"
                "        row: (index % KITTY_MAX_DIM) as usize,\n        col: (index / KITTY_MAX_DIM) as usize,")]},
    {"id": "C11-benign-inverse-match-checked-sub", "prop": "C11", "benign": True,
     "edits": [(I, "    Position {\n" + INVERSE,
                "    let index = match placement_id.checked_sub(1) {\n        Some(index) => index,\n        None => 0,\n    };\n    Position {\n"
                "        row: (index % KITTY_MAX_DIM) as usize,\n        col: (index / KITTY_MAX_DIM) as usize,")]},
    {"id": "C11-inverse-guarded-sub-wrong-offset", "prop": "C11", "expect": "PAIRING/image::kitty_placement_to_pos/inverse-disagrees",
     "edits": [(I, "    Position {\n" + INVERSE,
                "    let index = if placement_id > 1 { placement_id - 2 } else { 0 };\n    Position {\n"
                "        col: (index / KITTY_MAX_DIM) as usize,\n        row: (index % KITTY_MAX_DIM) as usize,")]},
    {"id": "C11-inverse-guard-swallows-small-ids", "prop": "C11", "expect": "PAIRING/image::kitty_placement_to_pos/inverse-disagrees",
     "edits": [(I, "    Position {\n" + INVERSE,
                "    let index = if placement_id > 5 { placement_id - 1 } else { 0 };\n    Position {\n"
                "        col: (index / KITTY_MAX_DIM) as usize,\n        row: (index % KITTY_MAX_DIM) as usize,")]},
    # hoisted dimensions, pre-sized buffer, debug assertions of facts that hold
    {"id": "C11-benign-hoisted-dimensions", "prop": "C11", "benign": True,
     "edits": [(I, "        if img.width() == 0 || img.height() == 0 {\n", "        let (width, height) = (img.width(), img.height());\n        if width == 0 || height == 0 {\n"),
               (I, "            let mut payload_write = Base64Encoder::new(Vec::new());\n",
                "            let pixels = width.saturating_mul(height).min(img.data().len());\n            let mut payload_buf = Vec::new();\n"
                "            let _ = payload_buf.try_reserve_exact((pixels * 4).div_ceil(3) * 4);\n            let mut payload_write = Base64Encoder::new(payload_buf);\n"),
               (I, "                        img.height(),\n                        img.width(),\n", "                        height,\n                        width,\n"),
               (I, "            let payload = payload_write.finish()?;\n", "            let payload = payload_write.finish()?;\n            debug_assert!(payload.len() % 4 == 0);\n")]},
    {"id": "C11-hoisted-dimensions-swapped", "prop": "C11", "expect": "TEMPLATE/KittyImageHandler::draw/transmit-first-",
     "edits": [(I, "        if img.width() == 0 || img.height() == 0 {\n", "        let (width, height) = (img.height(), img.width());\n        if width == 0 || height == 0 {\n"),
               (I, "                        img.height(),\n                        img.width(),\n", "                        height,\n                        width,\n")]},
    {"id": "C11-benign-debug-assert-id-ranges", "prop": "C11", "benign": True,
     "edits": [(I, "    img.hash() % KITTY_MAX_ID + 1\n", "    let img_id = img.hash() % KITTY_MAX_ID + 1;\n    debug_assert!((1..=KITTY_MAX_ID).contains(&img_id));\n    img_id\n"),
               (I, "    (pos.row as u64 % KITTY_MAX_DIM) + (pos.col as u64 % KITTY_MAX_DIM) * KITTY_MAX_DIM + 1\n",
                "    let row = pos.row as u64 % KITTY_MAX_DIM;\n    let col = pos.col as u64 % KITTY_MAX_DIM;\n    let placement_id = col * KITTY_MAX_DIM + row + 1;\n"
                "    debug_assert!(placement_id >= 1 && placement_id <= KITTY_MAX_ID);\n    placement_id\n")]},
    # chunk size as a named / computed constant, chunk loop as an iterator chain, writes through a helper
    {"id": "C11-benign-chunk-size-constant", "prop": "C11", "benign": True,
     "edits": [(I, "payload.chunks(4096)", "payload.chunks(KITTY_CHUNK_SIZE)"),
               (I, "const KITTY_MAX_DIM: u64 = 65535;\n", "const KITTY_MAX_DIM: u64 = 65535;\nconst KITTY_CHUNK_SIZE: usize = 4 * 1024;\n")]},
    {"id": "C11-chunk-size-constant-not-multiple-of-4", "prop": "C11", "expect": "CHUNK/KittyImageHandler::draw/chunk-size-not-multiple-of-4",
     "edits": [(I, "payload.chunks(4096)", "payload.chunks(KITTY_CHUNK_SIZE)"),
               (I, "const KITTY_MAX_DIM: u64 = 65535;\n", "const KITTY_MAX_DIM: u64 = 65535;\nconst KITTY_CHUNK_SIZE: usize = 4 * 1024 - 2;\n")]},
    {"id": "C11-benign-chunk-loop-try-for-each", "prop": "C11", "benign": True,
     "edits": [(I, CHUNK_LOOP_HEAD, "            chunks.enumerate().try_for_each(|(index, chunk)| -> Result<(), Error> {\n"),
               (I, CHUNK_LOOP_TAIL, '                // epilogue\n                out.write_all(b"\\x1b\\\\")?;\n                Ok(())\n            })?;\n')]},
    {"id": "C11-chunk-loop-try-for-each-no-epilogue", "prop": "C11", "expect": "FRAMING/KittyImageHandler::draw",
     "edits": [(I, CHUNK_LOOP_HEAD, "            chunks.enumerate().try_for_each(|(index, chunk)| -> Result<(), Error> {\n"),
               (I, CHUNK_LOOP_TAIL, '                Ok(())\n            })?;\n')]},
    {"id": "C11-benign-epilogue-helper", "prop": "C11", "benign": True,
     "edits": [(I, '                // epilogue\n                out.write_all(b"\\x1b\\\\")?;\n', '                kitty_epilogue(out)?;\n'),
               (I, IMPL, 'fn kitty_epilogue(out: &mut dyn Write) -> Result<(), Error> {\n    out.write_all(b"\\x1b\\\\")?;\n    Ok(())\n}\n\n' + IMPL)]},
    {"id": "C11-epilogue-helper-wrong-terminator", "prop": "C11", "expect": "FRAMING/KittyImageHandler::draw",
     "edits": [(I, '                // epilogue\n                out.write_all(b"\\x1b\\\\")?;\n', '                kitty_epilogue(out)?;\n'),
               (I, IMPL, 'fn kitty_epilogue(out: &mut dyn Write) -> Result<(), Error> {\n    out.write_all(b"\\x1b")?;\n    Ok(())\n}\n\n' + IMPL)]},
    {"id": "C11-chunks-exact-drops-tail", "prop": "C11", "expect": "C11/",
     "edits": [(I, "let chunks = payload.chunks(4096);", "let chunks = payload.chunks_exact(4096);")]},
    # Shape::nth with other local names / remainder form
    {"id": "C11-benign-shape-nth-renamed", "prop": "C11", "benign": True,
     "edits": [("src/surface.rs", "        let row = n / self.width;\n        let col = n - row * self.width;\n        (row < self.height).then_some(Position { row, col })",
                "        let r = n / self.width;\n        let c = n % self.width;\n        if r < self.height {\n            Some(Position { row: r, col: c })\n        } else {\n            None\n        }")]},
    # cache bookkeeping through a helper method
    {"id": "C11-benign-suppress-match", "prop": "C11", "benign": True,
     "edits": [(I, "let suppress = self.suppress.unwrap_or(0);", "let suppress = match self.suppress {\n            Some(level) => level,\n            None => 0,\n        };"),
               (I, "self.suppress.replace(2);", "self.suppress = Some(2);")]},
]


# cache lookup spelled with contains_key + insert instead of the entry API
_ENTRY_IMPORT = ("    collections::{HashMap, HashSet, hash_map::Entry},", "    collections::{HashMap, HashSet},")
_VACANT = "        if let Entry::Vacant(entry) = self.imgs.entry(img_id) {"
MUTANTS += [
    {"id": "C11-benign-cache-contains-key", "prop": "C11", "benign": True,
     "edits": [(I,) + _ENTRY_IMPORT, (I, _VACANT, "        if !self.imgs.contains_key(&img_id) {"),
               (I, "            entry.insert(img.clone());", "            self.imgs.insert(img_id, img.clone());")]},
    {"id": "C11-cache-contains-key-never-inserted", "prop": "C11", "expect": "vacant-without-insert",
     "edits": [(I,) + _ENTRY_IMPORT, (I, _VACANT, "        if !self.imgs.contains_key(&img_id) {"),
               (I, "            entry.insert(img.clone());", "")]},
    {"id": "C11-cache-contains-key-other-key-inserted", "prop": "C11", "expect": "vacant-without-insert",
     "edits": [(I,) + _ENTRY_IMPORT, (I, _VACANT, "        if !self.imgs.contains_key(&img_id) {"),
               (I, "            entry.insert(img.clone());", "            self.imgs.insert(img_id / 2, img.clone());")]},
    {"id": "C11-cache-contains-key-inverted", "prop": "C11", "expect": "TRANSMIT-ONCE",
     "edits": [(I,) + _ENTRY_IMPORT, (I, _VACANT, "        if self.imgs.contains_key(&img_id) {"),
               (I, "            entry.insert(img.clone());", "            self.imgs.insert(img_id, img.clone());")]},
    {"id": "C11-benign-cache-match-entry", "prop": "C11", "benign": True,
     "edits": [(I, _VACANT, "        if let Entry::Vacant(slot) = self.imgs.entry(kitty_image_id(img)) {"),
               (I, "            entry.insert(img.clone());", "            slot.insert(img.clone());")]},
    {"id": "C11-benign-position-new-in-inverse", "prop": "C11", "benign": True,
     "edits": [(I, "    Position {\n" + INVERSE + "\n    }\n",
                "    let index = placement_id.saturating_sub(1);\n    Position::new((index % KITTY_MAX_DIM) as usize, (index / KITTY_MAX_DIM) as usize)\n")]},
    {"id": "C11-position-new-in-inverse-swapped", "prop": "C11", "expect": "PAIRING/image::kitty_placement_to_pos/inverse-disagrees",
     "edits": [(I, "    Position {\n" + INVERSE + "\n    }\n",
                "    let index = placement_id.saturating_sub(1);\n    Position::new((index / KITTY_MAX_DIM) as usize, (index % KITTY_MAX_DIM) as usize)\n")]},
    {"id": "C11-benign-handle-error-is-none-early-return", "prop": "C11", "benign": True,
     "edits": [(I, "                if error.is_some() {\n", "                if error.is_none() {\n                    return Ok(true);\n                }\n                {\n")]},
    {"id": "C11-benign-handle-error-if-let", "prop": "C11", "benign": True,
     "edits": [(I, "                if error.is_some() {\n", "                if let Some(_reason) = error {\n")]},
    {"id": "C11-handle-error-is-none-inverted", "prop": "C11", "expect": "TRANSMIT-ONCE",
     "edits": [(I, "                if error.is_some() {\n", "                if error.is_none() {\n")]},
]


_PIX = '            for color in img.iter() {\n                payload_write.write_all(&color.to_rgba())?;\n            }\n'
MUTANTS += [
    {"id": "C11-benign-pixels-two-exclusive-loops", "prop": "C11", "benign": True,
     "edits": [(I, _PIX, '            if img.height() == 1 {\n                for color in img.iter() {\n                    payload_write.write_all(&color.to_rgba())?;\n                }\n'
                         '            } else {\n                let mut pixels = img.iter();\n                while let Some(color) = pixels.next() {\n                    payload_write.write_all(&color.to_rgba())?;\n                }\n            }\n')]},
    {"id": "C11-pixels-encoded-twice", "prop": "C11", "expect": "PAYLOAD/KittyImageHandler::draw/pixel-loop",
     "edits": [(I, _PIX, _PIX + '            if img.height() == 1 {\n                for color in img.iter() {\n                    payload_write.write_all(&color.to_rgba())?;\n                }\n            }\n')]},
    {"id": "C11-pixels-extra-header-byte", "prop": "C11", "expect": "PAYLOAD/KittyImageHandler::draw/",
     "edits": [(I, _PIX, '            payload_write.write_all(&[0u8])?;\n' + _PIX)]},
]


# ---- continuation flag through saturating / min / max forms and a hoisted `last`; payload Vec pre-sized (shadowed `payload`);
#      debug_assert!s; guarded subtraction in the inverse; Option::replace result used
_COUNT = "            let count = chunks.len();\n"
_NEW_ENC = "            let mut payload_write = Base64Encoder::new(Vec::new());\n"
_PRESIZED = ("            let pixels = img.width().saturating_mul(img.height());\n"
             "            let groups = pixels.min(img.data().len()).saturating_mul(4).div_ceil(3);\n"
             "            let mut payload = Vec::new();\n            payload.try_reserve_exact(groups.saturating_mul(4)).ok();\n"
             "            let mut payload_write = Base64Encoder::new(payload);\n")
MUTANTS += [
    {"id": "C11-benign-more-flag-ne-saturating-last", "prop": "C11", "benign": True,
     "edits": [(I, _COUNT, "            let last = chunks.len().saturating_sub(1);\n"), (I, MORE, "let more = i32::from(index != last);")]},
    {"id": "C11-benign-more-flag-saturating-remaining", "prop": "C11", "benign": True,
     "edits": [(I, MORE, "let more = i32::from(count.saturating_sub(index) > 1);")]},
    {"id": "C11-benign-more-flag-min-next", "prop": "C11", "benign": True,
     "edits": [(I, MORE, "let more = i32::from((index + 1).min(count) != count);")]},
    {"id": "C11-benign-more-flag-checked-sub", "prop": "C11", "benign": True,
     "edits": [(I, MORE, "let more = i32::from(index < count.checked_sub(1).unwrap());")]},
    {"id": "C11-more-flag-ne-saturating-off-by-one", "prop": "C11", "expect": "TEMPLATE/KittyImageHandler::draw/transmit-first-m",
     "edits": [(I, _COUNT, "            let last = chunks.len().saturating_sub(2);\n"), (I, MORE, "let more = i32::from(index != last);")]},
    {"id": "C11-more-flag-ne-count", "prop": "C11", "expect": "TEMPLATE/KittyImageHandler::draw/transmit-first-m",
     "edits": [(I, MORE, "let more = i32::from(index != count);")]},
    {"id": "C11-more-flag-saturating-remaining-off-by-one", "prop": "C11", "expect": "TEMPLATE/KittyImageHandler::draw/transmit-first-m",
     "edits": [(I, MORE, "let more = i32::from(count.saturating_sub(index) > 2);")]},
    {"id": "C11-benign-payload-presized-shadowed", "prop": "C11", "benign": True, "edits": [(I, _NEW_ENC, _PRESIZED)]},
    {"id": "C11-payload-presized-shadowed-chunks-4094", "prop": "C11", "expect": "CHUNK/KittyImageHandler::draw/chunk-size-not-multiple-of-4",
     "edits": [(I, _NEW_ENC, _PRESIZED), (I, "payload.chunks(4096)", "payload.chunks(4094)")]},
    {"id": "C11-payload-presized-shadowed-skips-first-chunk", "prop": "C11", "expect": "C11/",
     "edits": [(I, _NEW_ENC, _PRESIZED), (I, "let chunks = payload.chunks(4096);", "let mut chunks = payload.chunks(4096);\n            chunks.next();")]},
    {"id": "C11-benign-debug-asserts", "prop": "C11", "benign": True,
     "edits": [(I, "                " + MORE + "\n", "                " + MORE + "\n                debug_assert!(!chunk.is_empty() && chunk.len() % 4 == 0);\n"),
               (I, "    img.hash() % KITTY_MAX_ID + 1\n", "    let id = img.hash() % KITTY_MAX_ID + 1;\n    debug_assert!((1..=KITTY_MAX_ID).contains(&id));\n    id\n")]},
    {"id": "C11-benign-inverse-guarded-subtraction", "prop": "C11", "benign": True,
     "edits": [(I, "    Position {\n" + INVERSE + "\n    }\n",
                "    let index = if placement_id > 0 {\n        placement_id - 1\n    } else {\n        0\n    };\n"
                "    Position {\n        col: (index / KITTY_MAX_DIM) as usize,\n        row: (index % KITTY_MAX_DIM) as usize,\n    }\n")]},
    {"id": "C11-benign-suppress-replace-result", "prop": "C11", "benign": True,
     "edits": [(I, "                        let suppress = self.suppress;\n                        self.suppress.replace(2);\n", "                        let suppress = self.suppress.replace(2);\n")]},
    {"id": "C11-benign-pixels-try-for-each", "prop": "C11", "benign": True,
     "edits": [(I, _PIX, "            img.iter()\n                .try_for_each(|color| payload_write.write_all(&color.to_rgba()))?;\n")]},
]

# ---- inverse of the placement id with the offset removed once through a floor (`id.max(1) - 1` is saturating_sub(1)); a floor
# ---- above the forward function's offset is not the identity on produced ids
_INV_HEAD = "fn kitty_placement_to_pos(placement_id: u64) -> Position {\n"
_INV_IDX = ('        col: (index / KITTY_MAX_DIM) as usize,\n'
            '        row: (index % KITTY_MAX_DIM) as usize,')
MUTANTS += [
    {"id": "C11-benign-inverse-max-minus-one", "prop": "C11", "benign": True,
     "edits": [(I, _INV_HEAD, _INV_HEAD + "    let index = placement_id.max(1) - 1;\n"), (I, INVERSE, _INV_IDX)]},
    {"id": "C11-benign-inverse-cmp-max-minus-one", "prop": "C11", "benign": True,
     "edits": [(I, _INV_HEAD, _INV_HEAD + "    let index = std::cmp::max(1, placement_id) - 1;\n"), (I, INVERSE, _INV_IDX)]},
    {"id": "C11-inverse-floor-above-offset", "prop": "C11", "expect": "PAIRING/image::kitty_placement_to_pos/inverse-disagrees",
     "edits": [(I, _INV_HEAD, _INV_HEAD + "    let index = placement_id.max(2) - 1;\n"), (I, INVERSE, _INV_IDX)]},
    {"id": "C11-inverse-floor-wrong-offset", "prop": "C11", "expect": "PAIRING/image::kitty_placement_to_pos/inverse-disagrees",
     "edits": [(I, _INV_HEAD, _INV_HEAD + "    let index = placement_id.max(1) - 0;\n"), (I, INVERSE, _INV_IDX)]},
]

# ---- seeded/benign C14-J: the pixel -> base64 sequence shared by `impl Serialize for Image` and draw through one private free fn
# ---- (two callers: expanded per root); the same helper feeding 3 bytes per pixel / the backing store order is caught
_SER_LOOP = ('        let mut writer = Base64Encoder::new(Vec::new());\n'
             '        for pixel in self.iter() {\n'
             '            writer.write_all(&pixel.to_rgba()).map_err(|err| {\n'
             '                ser::Error::custom(format!("[Image] faield to serialize data: {err}"))\n'
             '            })?;\n'
             '        }\n'
             '        let data = writer.finish().map_err(|err| {\n')
_SER_HELPER = '        let data = base64_rgba(self).map_err(|err| {\n'
_SER_IMPL = "impl Serialize for Image {\n"


def _shared_helper(loop_src="img.iter()", item="&pixel.to_rgba()"):
    return ('fn base64_rgba(img: &Image) -> std::io::Result<Vec<u8>> {\n'
            '    let mut encoder = Base64Encoder::new(Vec::new());\n'
            '    for pixel in %s {\n'
            '        encoder.write_all(%s)?;\n'
            '    }\n'
            '    encoder.finish()\n'
            '}\n\n' % (loop_src, item)) + _SER_IMPL


MUTANTS += [
    {"id": "C11-benign-payload-helper-shared-with-serialize", "prop": "C11", "benign": True,
     "edits": [(I, PIXEL_LOOP, '            let payload = base64_rgba(img)?;\n'), (I, _SER_LOOP, _SER_HELPER), (I, _SER_IMPL, _shared_helper())]},
    {"id": "C11-payload-shared-helper-rgb-only", "prop": "C11", "expect": "PAYLOAD/KittyImageHandler::draw/",
     "edits": [(I, PIXEL_LOOP, '            let payload = base64_rgba(img)?;\n'), (I, _SER_LOOP, _SER_HELPER),
               (I, _SER_IMPL, _shared_helper(item="&pixel.to_rgba()[..3]"))]},
    {"id": "C11-payload-shared-helper-backing-store-order", "prop": "C11", "expect": "PAYLOAD/KittyImageHandler::draw/pixel-order",
     "edits": [(I, PIXEL_LOOP, '            let payload = base64_rgba(img)?;\n'), (I, _SER_LOOP, _SER_HELPER),
               (I, _SER_IMPL, _shared_helper(loop_src="img.data().iter()"))]},
]
