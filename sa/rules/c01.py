"""C01 — incremental rendering: structural necessary conditions of the diffing protocol
(render.rs TerminalRenderer::{new,clear,frame}, terminal.rs Terminal::run_render)."""
import json
import re
from ..mir import call_matches, callee_name, callee_names, op_local, op_const_int, place_str
from ..flow import resolve_place, arg_place, origins, value_variants, ok_return_blocks, err_return_blocks, feasible_reach, expr, place_expr, promoted_aggs

CLAIM = {
    "text": "Static necessary conditions of the diffing protocol decided on MIR for every path of TerminalRenderer::{new,clear,frame} and "
            "Terminal::run_render: forced-clear damage marking and its survival until the diff, skip-needs-not-damaged in both passes, image "
            "erase/damage/ignore pairing, buffer swap epilogue, frame-drop and resize paths, face/cursor reconciliation before every "
            "emission. The screen-model equivalence over histories of frames is not decided.",
    "technique": "MIR CFG/effect rules on bodies with private single-caller helpers expanded (prog.inlined): must-pass-through, kill/liveness of the marks "
                 "surface, who-writes; guards are decided by a small path-sensitive evaluation of the loop bodies under an assumption about the examined cell "
                 "(mark = Damaged / Ignored, new cell = wide character), so the idiom a test is written in (==, !=, matches!, match, hoisted flags, early continue, "
                 "iterator adaptors) does not matter",
    "design_ref": "DESIGN.md §5 C01",
}

DAMAGED = "render::CellMark::Damaged"
IGNORED = "render::CellMark::Ignored"
EMPTY = "render::CellMark::Empty"


def is_trivial(blk):
    for s in blk["stmts"]:
        if s["k"] == "dead":
            continue
        if s["k"] == "assign" and s["rv"]["k"] == "use" and s["rv"]["a"]["k"] == "const" and s["rv"]["a"]["c"]["ty"] == "()":
            continue
        if s["k"] == "assign" and s["rv"]["k"] == "agg" and s["rv"]["ak"] == "tuple" and not s["rv"]["fields"]:
            continue
        return False
    return True


def norm(body, bb):
    seen = set()
    while bb not in seen:
        seen.add(bb)
        blk = body.blocks[bb]
        if blk["term"]["k"] == "goto" and is_trivial(blk):
            bb = blk["term"]["t"]
        else:
            break
    return bb


def bool_edges(body, call_bb, t):
    """(true_target, false_target, switch_block) of the branch that consumes a bool-returning call's result: the first switch reached from the
    call's continuation along straight-line code whose discriminant is the result, a copy of it or its negation (`let same = a == b; if !same`)"""
    if t["dest"]["p"]:
        return None
    alias = {t["dest"]["l"]: True}
    bb, seen = t["t"], set()
    while bb is not None and bb >= 0 and bb not in seen:
        seen.add(bb)
        blk = body.blocks[bb]
        for s in blk["stmts"]:
            if s["k"] != "assign" or s["place"]["p"]:
                continue
            rv, l = s["rv"], s["place"]["l"]
            src = None
            if rv["k"] == "use" and rv["a"]["k"] in ("copy", "move") and not rv["a"]["place"]["p"]:
                src = (rv["a"]["place"]["l"], True)
            elif rv["k"] == "un" and rv["op"] == "Not" and rv["a"]["k"] in ("copy", "move") and not rv["a"]["place"]["p"]:
                src = (rv["a"]["place"]["l"], False)
            if src is not None and src[0] in alias:
                alias[l] = alias[src[0]] == src[1]
            else:
                alias.pop(l, None)
        tt = blk["term"]
        if tt["k"] == "goto":
            bb = tt["t"]
            continue
        if tt["k"] in ("call", "assert", "drop"):
            # a hoisted flag (`let same = old == new; let damaged = ..; if same && !damaged`): other tests are evaluated in between
            if tt["k"] == "call" and not tt["dest"]["p"]:
                alias.pop(tt["dest"]["l"], None)
            bb = tt["t"]
            continue
        if tt["k"] == "switch":
            dl = op_local(tt["d"])
            if dl in alias and tt["vals"] == ["0"]:
                tr, fa = tt["otherwise"], tt["targets"][0]
                return (tr, fa, bb) if alias[dl] else (fa, tr, bb)
        return None
    return None


def cmp_edges(body, call_bb, t):
    """(equal_target, different_target, switch_block) for a PartialEq::eq / ::ne call"""
    e = bool_edges(body, call_bb, t)
    if e is None:
        return None
    return (e[1], e[0], e[2]) if (callee_name(t) or "").endswith("::ne") else e


def fills(body, surf_regex):
    """SurfaceMut::fill / clear calls with their receiver and value variants"""
    out = []
    for bb, t in body.calls():
        if call_matches(t, r"^surface::SurfaceMut::(fill|clear)$"):
            recv = arg_place(body, t, 0)
            vv = value_variants(body, t["args"][1]) if len(t["args"]) > 1 else set()
            vo = origins(body, t["args"][1]) if len(t["args"]) > 1 else set()
            out.append({"bb": bb, "t": t, "recv": recv, "vals": vv, "orig": vo, "name": callee_name(t).split("::")[-1]})
    return out


_DEFAULT_FN = r"(^|[ :<])(std|core)::default::Default(>)?::default$"


def _is_default_value(body, operand):
    """every reaching origin of the operand is a call of Default::default (of whatever type the slot has)"""
    og = origins(body, operand)
    return bool(og) and all(o[0] == "call" and re.search(_DEFAULT_FN, o[2] or "") for o in og)


_WDW = {}


def writes_default_everywhere(prog, path, depth=0):
    """does the SurfaceMut method `path` (e.g. SurfaceMut::clear) store Default::default() into every slot of its receiver on every
    return path?  Decided on its body: (a) it hands the receiver to fill(.., <default>) / to another such method on every way out, or
    (b) all its element stores write a Default::default() result at shape.offset(Position::new(row, col)) and the only ranges it walks
    are 0..shape.height and 0..shape.width of the receiver's own shape (that the nested walk covers the window is C07 U5-LOOPS)."""
    key = (id(prog), path)
    if key in _WDW:
        return _WDW[key]
    _WDW[key] = False
    b0 = prog.body(path)
    if b0 is None or depth > 2:
        return False
    b = prog.inlined(path) or b0
    cfg = b.cfg()
    rets = list(cfg.returns)
    ok = False
    # (a) delegation
    sites = []
    for bb, t in b.calls():
        if b.blocks[bb]["cleanup"] or not t["args"] or arg_place(b, t, 0) not in ("(*_1)", "_1"):
            continue
        if call_matches(t, r"^surface::SurfaceMut::fill$") and len(t["args"]) > 1 and _is_default_value(b, t["args"][1]):
            sites.append(bb)
        else:
            for n in callee_names(t):
                if n != path and re.match(r"^surface::SurfaceMut::\w+$", n) and not n.endswith("::fill") and len(t["args"]) == 1 and writes_default_everywhere(prog, n, depth + 1):
                    sites.append(bb)
                    break
    if sites and rets and cfg.must_pass(sites, exits=rets)[0]:
        ok = True
    # (b) the row/column walk itself
    if not ok:
        stores = [(i, s_) for i, si, s_ in b.assigns() if not b.blocks[i]["cleanup"] and any(e["k"] in ("index", "cindex", "subslice") for e in s_["place"]["p"])]
        good = bool(stores)
        for i, s_ in stores:
            ix = [e for e in s_["place"]["p"] if e["k"] == "index"]
            val = s_["rv"]["a"] if s_["rv"]["k"] == "use" else None
            it = expr(b, {"k": "copy", "place": {"l": ix[0]["l"], "p": []}}) if len(ix) == 1 else ""
            good = good and val is not None and _is_default_value(b, val) and re.match(r"^Shape::offset\(.*shape\(arg1\), Position::new\(.*range::next.*range::next.*\)\)$", it) is not None
        ends = set()
        for i, si, s_ in b.assigns():
            rv = s_["rv"]
            if rv["k"] == "agg" and rv.get("ak") == "adt" and (rv.get("adt") or "").endswith("Range") and not b.blocks[i]["cleanup"]:
                f = rv["fields"]
                e_ = expr(b, f[1]) if len(f) == 2 else ""
                m = re.match(r"^.*shape\(arg1\)\.(height|width)$", e_)
                if len(f) != 2 or expr(b, f[0]) != "0" or not m:
                    good = False
                else:
                    ends.add(m.group(1))
        # every iteration of the innermost walk stores: no way round the loop avoids all stores
        if good:
            loops = cfg.loops()
            sb = {i for i, s_ in stores}
            inner = sorted((len(body_), h) for h, body_ in loops.items() if sb <= body_)
            if not inner:
                good = False
            else:
                h = inner[0][1]
                lb = loops[h]
                outside = set(range(len(b.blocks))) - lb
                for st_ in cfg.succ[h]:
                    if st_ in lb and not cfg.must_pass(sb, exits=[h], start=st_, removed=outside)[0]:
                        good = False
        ok = good and ends == {"height", "width"}
    _WDW[key] = ok
    return ok


def view_of(body, f):
    """if the receiver of a fill is the result of view_mut(X, ..): returns X's place"""
    l = op_local(f["t"]["args"][0])
    og = origins(body, f["t"]["args"][0])
    for o in og:
        if o[0] == "call" and re.search(r"SurfaceMut::view_mut$", o[2]):
            vt = body.blocks[o[1]]["term"]
            return arg_place(body, vt, 0)
    m = re.match(r"^_(\d+)$", f["recv"] or "")
    if m:
        for d in body.defs_of(int(m.group(1))):
            if d[1] == "term" and call_matches(d[2], r"SurfaceMut::view_mut$"):
                return arg_place(body, d[2], 0)
    return None


def cmd_variant(body, t):
    """TerminalCommand variant passed to Terminal::execute"""
    vs = value_variants(body, t["args"][1])
    return {v.split("::")[-1] for v in vs if isinstance(v, str) and v.startswith("terminal::TerminalCommand::")}


def _feasible_defs(body, local, feas, seen=None, use=None):
    """(value set or None, feasible) for every definition of `local`; a definition that only forwards another local whole
    (`_a = move _b`: a hoisted temporary, the result copy of an expanded helper, `let mark = chosen;`) is replaced by the definitions
    of that local, so that the decision is taken where the value is chosen and with the feasibility of *that* block.
    use = (bb, stmt index): where the value is consumed; a definition that is overwritten by another definition of the same local on
    every feasible path to the use (`let mut m = Empty; if clear { m = Damaged }`) does not count as feasible."""
    seen = set() if seen is None else seen
    if local in seen:
        return [(None, True)]
    seen = seen | {local}
    out = []
    defs = body.defs_of(local)
    cfg = body.cfg()
    infeasible = {x for x in range(len(body.blocks)) if x not in feas}
    for (dbb, si, rv) in defs:
        feasible = dbb in feas
        if feasible and use is not None and len(defs) > 1:
            ubb, usi = use
            order = lambda x: 10 ** 9 if x == "term" else x
            later_same = [d for d in defs if d[0] == dbb and order(d[1]) > order(si) and (dbb != ubb or order(d[1]) < order(usi))]
            others = {d[0] for d in defs if d[0] != dbb}
            if later_same:
                feasible = False
            elif dbb != ubb and others and all(cfg.must_pass(others, exits=[ubb], start=s0, removed=infeasible)[0]
                                                for s0 in cfg.succ[dbb] if s0 in feas):
                feasible = False      # killed (or the use cannot be reached from here at all)
        vs = None
        if si != "term" and rv["k"] == "agg" and rv.get("ak") == "adt":
            vs = {"%s::%s" % (rv["adt"], rv["variant"])}
        elif si != "term" and rv["k"] == "use":
            a = rv["a"]
            if feasible and a["k"] in ("copy", "move") and not a["place"]["p"] and a["place"]["l"] > body.arg_count and body.defs_of(a["place"]["l"]):
                out.extend(_feasible_defs(body, a["place"]["l"], feas, seen, use=(dbb, si)))
                continue
            vs = {v for v in value_variants(body, a) if isinstance(v, str)}
        out.append((vs, feasible))
    return out


def run(ctx):
    prog = ctx.prog
    ctx.explanation = (
        "Decides necessary structural clauses of the diffing protocol from MIR (not the screen-model equivalence, which quantifies over "
        "histories of surfaces): R1 clear() marks every cell Damaged and resets the back buffer on every Ok path, and never overwrites the "
        "front buffer; R1b in frame() no whole-surface overwrite of `marks` can reach a read of `marks`, and per-cell resets of marks "
        "through iter_mut are guarded by `!= Damaged` (damage requested by clear()/new(true) survives until the diff); R2 new(.., clear) stores Damaged "
        "into every mark on the clear==true branch; R3 both `old == new` skip tests treat Damaged cells exactly like changed cells; R4 a "
        "replaced image is erased and its area damaged, a new image is queued and its area ignored; R5 frame's Ok epilogue swaps the "
        "buffers then clears front, run_render calls renderer.clear after frames_drop and re-creates the renderer with clear=true after a "
        "resize, and nothing overwrites the drawn front buffer between the handler and frame(); R6 every Char/EraseChars emission is "
        "preceded in the same iteration by the face and cursor reconciliation tests. NOT decided: run-length/wide-character column "
        "arithmetic, Ignored handling inside erase runs, the equivalence with a from-scratch repaint.")
    ctx.assume("unwind paths out of scope; Terminal::execute interpreted by a conforming terminal (C05)")

    new = prog.one(r"^render::TerminalRenderer::new$")
    clear = prog.one(r"^render::TerminalRenderer::clear$")
    frame = prog.one(r"^render::TerminalRenderer::frame$")
    rr = prog.one(r"^terminal::Terminal::run_render$")
    if not all([new, clear, frame, rr]):
        ctx.anchor("ENGINE", "TerminalRenderer::{new,clear,frame}/Terminal::run_render")
        return
    # see through private single-caller helpers (extracted marking / erasing / painting helpers): rules below decide on the expanded bodies
    new, clear, frame, rr = (prog.inlined(b.path) or b for b in (new, clear, frame, rr))

    # ---------------- R1 clear -----------------------------------------------------------------
    ctx.rule("R1-CLEAR", "clear(): Ok paths pass fill(marks, Damaged) and fill(back, Cell::default()); front is not written; image placements erased are those of back, before it is reset", floor=4)
    cfg = clear.cfg()
    oks = ok_return_blocks(clear)
    fl = fills(clear, None)
    m_d = [f["bb"] for f in fl if f["recv"] == "(*_1).marks" and DAMAGED in f["vals"]]
    # the back buffer is reset by storing the default cell everywhere: fill(back, Cell::default()) or a SurfaceMut method that is shown
    # to write Default::default() into every slot (SurfaceMut::clear; decided on that method's body, not by its name)
    b_d = [f["bb"] for f in fl if f["recv"] == "(*_1).back" and f["name"] == "fill" and bool(f["orig"])
           and all(o[0] == "call" and o[2] == "<render::Cell as std::default::Default>::default" for o in f["orig"])]
    for bb, t in clear.calls():
        if len(t["args"]) == 1 and not clear.blocks[bb]["cleanup"] and arg_place(clear, t, 0) == "(*_1).back" and \
                any(re.match(r"^surface::SurfaceMut::\w+$", n) and writes_default_everywhere(prog, n) for n in callee_names(t)):
            b_d.append(bb)
    for nm, sites in (("marks-damaged", m_d), ("back-reset", b_d)):
        ok, wit = cfg.must_pass(sites, exits=oks) if sites else (False, None)
        ctx.instance("R1-CLEAR", {"what": nm, "blocks": sites, "ok_exits": sorted(oks)})
        if not ok:
            ctx.violation("R1-CLEAR", clear.path, nm,
                          "TerminalRenderer::clear has an Ok path that does not %s: the next frame would not repaint every cell" % ("mark all cells Damaged" if nm == "marks-damaged" else "reset the back buffer to default cells"),
                          sites=[clear.loc])
    # images on screen are the ones recorded in `back`: every ImageErase of clear() takes image and position from an iteration over back,
    # and the loop runs before back is reset
    erases = _erase_commands(prog, clear)
    for bb, s_, e in erases:
        parts = e.split(", Option::Some(")
        from_back = len(parts) == 2 and all("Surface::iter(arg1.back)" in x and "arg1.front" not in x for x in parts)
        before_reset = bool(b_d) and not any(bb in cfg.reachable_from(r) for r in b_d)
        ctx.instance("R1-CLEAR", {"what": "erase-source", "image_erase": e[:200], "from_back": from_back, "before_back_reset": before_reset})
        if not from_back:
            ctx.violation("R1-CLEAR", clear.path, "erase-source", "clear() erases image placements taken from something other than the back buffer (%s): "
                          "placements that are on screen but not in that buffer survive the clear" % e[:160], sites=["%s:%d" % (clear.file, s_["line"])])
        if not before_reset:
            ctx.violation("R1-CLEAR", clear.path, "erase-after-reset", "clear() resets the back buffer before erasing the image placements recorded in it", sites=["%s:%d" % (clear.file, s_["line"])])
    if not erases:
        ctx.violation("R1-CLEAR", clear.path, "no-erase", "clear() does not erase the image placements recorded in the back buffer: kitty placements survive the text clear", sites=[clear.loc])
    fw = [f for f in fl if (f["recv"] or "").startswith("(*_1).front")]
    ctx.instance("R1-CLEAR", {"what": "front-untouched", "front_writes": len(fw)})
    for f in fw:
        ctx.violation("R1-CLEAR", clear.path, "front-overwritten",
                      "TerminalRenderer::clear overwrites the front buffer: run_render calls clear() after the handler has drawn the frame (frame-drop path), so the drawn surface would be lost",
                      sites=["%s:%d" % (clear.file, f["t"]["line"])])

    # ---------------- R2 new -------------------------------------------------------------------
    ctx.rule("R2-NEW", "new(term, clear): the mark stored in every cell is Damaged on the clear==true edge", floor=1)
    # what ends up in the `marks` field of the returned renderer, on the paths that are feasible when `clear` (arg 2) is true
    okn = False
    detail = {}
    feas = feasible_reach(new, 0, env={2: 1})
    c = new.cfg()
    mk = None
    agg_bb = None
    for bb, si, s_ in new.assigns():
        rv = s_["rv"]
        if rv["k"] == "agg" and rv["ak"] == "adt" and rv["adt"] == "render::TerminalRenderer" and "marks" in (rv.get("fnames") or []):
            mk, agg_bb = op_local(rv["fields"][rv["fnames"].index("marks")]), bb
    mk_defs = new.defs_of(mk) if mk is not None else []
    for _ in range(8):       # the field is initialised from a local that was built earlier: follow whole-value moves
        if len(mk_defs) == 1 and mk_defs[0][1] != "term" and mk_defs[0][2]["k"] == "use" and mk_defs[0][2]["a"]["k"] in ("copy", "move") and not mk_defs[0][2]["a"]["place"]["p"]:
            mk = mk_defs[0][2]["a"]["place"]["l"]
            mk_defs = new.defs_of(mk)
    if feas is not None and len(mk_defs) == 1 and mk_defs[0][1] == "term":
        bb, _, t = mk_defs[0]
        if call_matches(t, r"^surface::SurfaceOwned::<T>::new_with$"):
            # closure aggregate
            cl = None
            for d in new.defs_of(op_local(t["args"][1])):
                if d[1] != "term" and d[2]["k"] == "agg" and d[2]["ak"] == "closure":
                    cl = d[2]
            cb = prog.body(cl["def"]) if cl is not None else None
            if cb is not None:
                rvv = {v for v in value_variants(cb, {"k": "copy", "place": {"l": 0, "p": []}}) if isinstance(v, str)}
                og = origins(cb, {"k": "copy", "place": {"l": 0, "p": []}})
                if rvv == {DAMAGED}:
                    okn = True          # every cell gets Damaged whatever `clear` says
                    detail["closure_returns"] = DAMAGED
                elif len(cl["fields"]) == 1 and (any(o[0] == "arg" and o[1] == 1 for o in og) or any(o[0] == "place" and "(*_1)" in o[1] for o in og)):
                    # the closure returns its capture: &mark ; mark's definitions that are feasible with clear == true must all be Damaged
                    cap = cl["fields"][0]
                    ml, use = None, None
                    for d in new.defs_of(op_local(cap)):
                        if d[1] != "term" and d[2]["k"] == "ref" and not d[2]["place"]["p"]:
                            ml, use = d[2]["place"]["l"], (d[0], d[1])
                    if ml is None:
                        ml = op_local(cap)
                        cds = [(b_, i_) for b_, i_, s_ in new.assigns() if s_["rv"] is cl]
                        use = cds[0] if len(cds) == 1 else None
                    good, n_d = True, 0
                    for vs, feasible in _feasible_defs(new, ml, feas, use=use):
                        detail.setdefault("defs", []).append({"value": sorted(vs) if vs else None, "feasible_when_clear_is_true": feasible})
                        if feasible:
                            n_d += 1
                            if vs != {DAMAGED}:
                                good = False
                    okn = good and n_d >= 1
        elif call_matches(t, r"^surface::SurfaceOwned::<T>::new$|Default>?::default$"):
            # created with default marks, then filled: fill(marks, Damaged) on every clear==true path to the construction of the renderer
            sites = [f["bb"] for f in fills(new, None) if f["recv"] == "_%d" % mk and f["vals"] == {DAMAGED} and f["name"] == "fill"]
            infeasible = {x for x in range(len(new.blocks)) if x not in feas}
            okn = bool(sites) and agg_bb is not None and c.must_pass(sites, exits=[agg_bb], start=bb, removed=infeasible)[0]
            detail["filled_damaged_on_every_clear_path"] = okn
    ctx.instance("R2-NEW", detail or {"note": "shape not recognised"})
    if not okn:
        ctx.violation("R2-NEW", new.path, "clear-true-not-damaged",
                      "TerminalRenderer::new(.., clear=true) does not initialise every mark to Damaged: the first frame of a re-created renderer would not repaint everything",
                      sites=[new.loc])

    # ---------------- R1b marks survive to the diff -----------------------------------------------
    ctx.rule("R1b-MARKS-LIVE", "frame(): no whole-surface overwrite of marks reaches a read of marks; iter_mut resets are guarded by != Damaged", floor=2)
    fcfg = frame.cfg()
    loops_f = fcfg.loops()
    ffl = fills(frame, None)
    reads = []
    for bb, t in frame.calls():
        if call_matches(t, r"^surface::Surface::get$|Surface>::data$|^surface::Surface::(iter|data)$") and arg_place(frame, t, 0) == "(*_1).marks":
            reads.append(bb)
    kills = [f for f in ffl if f["recv"] == "(*_1).marks"]
    if not reads:
        ctx.anchor("R1b-MARKS-LIVE", "frame/marks-reads")
    for f in kills:
        reach = fcfg.reachable_from(f["bb"])
        hit = [r for r in reads if r in reach and r != f["bb"]]
        ctx.instance("R1b-MARKS-LIVE", {"whole_overwrite_at_line": f["t"]["line"], "value": sorted(map(str, f["vals"])), "reads_reachable_after": len(hit)})
        if hit and DAMAGED not in f["vals"]:
            ctx.violation("R1b-MARKS-LIVE", frame.path, "marks-killed-before-diff",
                          "frame() overwrites every mark (%s) before the diff reads them: Damaged marks set by clear()/new(.., true) never reach the diff, a forced clear does not repaint" % sorted(map(str, f["vals"])),
                          sites=["%s:%d" % (frame.file, f["t"]["line"])])
    # stores through items of marks.iter_mut()
    im = [(bb, t) for bb, t in frame.calls() if call_matches(t, r"^surface::SurfaceMut::iter_mut$") and arg_place(frame, t, 0) == "(*_1).marks"]
    n_st = 0
    for i, si, s in frame.assigns():
        p = s["place"]
        if not (p["p"] and p["p"][0]["k"] == "deref" and len(p["p"]) == 1):
            continue
        if frame.local_ty(p["l"]) != "&mut render::CellMark":
            continue
        og = origins(frame, {"k": "copy", "place": {"l": p["l"], "p": []}})
        from_marks = any(o[0] == "call" and re.search(r"Iterator>::next$|Iterator::next$", o[2]) for o in og)
        if not from_marks:
            continue
        n_st += 1
        vals = value_variants(frame, s["rv"]["a"]) if s["rv"]["k"] == "use" else set()
        if s["rv"]["k"] == "agg":
            vals = {"%s::%s" % (s["rv"]["adt"], s["rv"]["variant"])}
        # guarded by `!= Damaged` (whatever the idiom: matches!, ==/!=, match, early continue): for a Damaged item the store is infeasible
        # within the iteration
        inner = _inner_loop(loops_f, i)
        fr = CellEval(frame, prog, mark=DAMAGED).reach(inner if inner is not None else 0, stop={inner} if inner is not None else ())
        guarded = fr is not None and i not in fr
        ctx.instance("R1b-MARKS-LIVE", {"per_cell_store_line": s["line"], "value": sorted(map(str, vals)), "guarded_by_not_damaged": guarded})
        if not guarded and DAMAGED not in vals:
            ctx.violation("R1b-MARKS-LIVE", frame.path, "per-cell-reset-unguarded",
                          "frame() resets marks cell by cell without excluding Damaged cells before the diff", sites=["%s:%d" % (frame.file, s["line"])])

    for cb in prog.closures_of(frame):
        params = [l for l in range(1, cb.arg_count + 1) if _T_MARK.match(cb.local_ty(l) or "") and "&mut" in cb.local_ty(l)]
        if not params:
            continue
        cev = CellEval(cb, prog, mark=DAMAGED, init={l: "M" for l in params})
        cfr = cev.reach(0)
        for i, si, s in cb.assigns():
            p = s["place"]
            if not (p["p"] and p["p"][-1]["k"] == "deref" and _T_MARK.match(cb.local_ty(p["l"]) or "")):
                continue
            n_st += 1
            vals = value_variants(cb, s["rv"]["a"]) if s["rv"]["k"] == "use" else set()
            if s["rv"]["k"] == "agg":
                vals = {"%s::%s" % (s["rv"]["adt"], s["rv"]["variant"])}
            guarded = cfr is not None and i not in cfr
            if not guarded:
                # the items may have been filtered before they get here: iter_mut().filter(|m| **m != Damaged).for_each(this closure)
                guarded = _filtered_not_damaged(prog, frame, cb)
            ctx.instance("R1b-MARKS-LIVE", {"per_cell_store_in": cb.path.split("::")[-1], "line": s["line"], "value": sorted(map(str, vals)), "guarded_by_not_damaged": guarded})
            if not guarded and DAMAGED not in vals:
                ctx.violation("R1b-MARKS-LIVE", frame.path, "per-cell-reset-unguarded",
                              "frame() resets marks cell by cell without excluding Damaged cells before the diff", sites=["%s:%d" % (frame.file, s["line"])])

    # ---------------- R3 skip needs not damaged --------------------------------------------------
    ctx.rule("R3-SKIP", "each `old == new` skip test treats Damaged cells exactly like changed cells (first and second pass)", floor=2)
    loops = fcfg.loops()
    eqs = []
    for bb, t in frame.calls():
        if call_matches(t, r"PartialEq.*::(eq|ne)$") and all(_T_CELLISH.search(x) for x in t["arg_tys"]):
            # exclude comparisons of two cells of the front buffer (run-length scan)
            srcs = []
            for a in t["args"]:
                og = origins(frame, a)
                s = set()
                for o in og:
                    if o[0] == "call":
                        ct = frame.blocks[o[1]]["term"]
                        s.add(arg_place(frame, ct, 0) if ct["args"] else None)
                    elif o[0] == "place":
                        s.add(o[1])
                srcs.append(s)
            both_front = all(s and all(x == "(*_1).front" for x in s) for s in srcs)
            eqs.append((bb, t, both_front, srcs))
    n_inst = 0
    changed_cont = {}       # block of a skip comparison -> blocks where a changed cell continues
    errs = err_return_blocks(frame)
    for (bb, t, both_front, srcs) in eqs:
        if both_front:
            ctx.note("cell equality at line %d compares two front-buffer cells (run-length scan) - not a skip test" % t["line"])
            continue
        n_inst += 1
        e = cmp_edges(frame, bb, t)
        if not e:
            ctx.anchor("R3-SKIP", "eq-switch", "result of the cell comparison at line %d is not branched on" % t["line"])
            continue
        eq_t, diff_t, swb = e
        inner = _inner_loop(loops, bb)
        # Assume the mark of the examined cell is Damaged (every read of `marks` that dominates the comparison, or is evaluated as part of the
        # same condition, yields Damaged).  C = where a changed cell continues (the different-outcome of the comparison, followed through pure
        # tests).  Then every path of the iteration that is feasible under the assumption must pass C: a Damaged cell is handled exactly like a
        # changed one, whatever `old == new` says (in whichever order / idiom the two tests are written).
        ev = CellEval(frame, prog, mark=DAMAGED, allowed=lambda x, bb=bb: fcfg.dominates(x, bb) or x == bb)
        head = inner if inner is not None else 0
        fr = ev.reach(head, stop={inner} if inner is not None else ())
        why = []
        ok_any = False
        if fr is None:
            why.append("path enumeration gave up")
        else:
            ev.allowed = lambda x: True
            conts = {ev.thread(diff_t, env) for env in (fr.get(swb) or [{}])} | {ev.thread(diff_t, {})}
            changed_cont[bb] = sorted(conts)
            # the decision starts at the first read of the cell's mark that belongs to it, or at the comparison itself
            region = {x for x in _mark_read_blocks(frame) if fcfg.dominates(x, bb) or x in _straight_after(frame, fcfg, bb, swb)} | {bb}
            if inner is not None:
                region = {x for x in region if x in loops[inner]}
            entries = [x for x in region if not any(y != x and fcfg.dominates(y, x) for y in region)]
            ev.allowed = lambda x, region=region: x in region
            fr2 = ev.reach(head, stop={inner} if inner is not None else ())
            esc = []
            for en in entries:
                for env in ((fr2 or {}).get(en) or []):
                    r_ = ev.escapes(en, conts, head=inner, loop_body=loops[inner] if inner is not None else None, removed=_err_region(fcfg, frame, errs), env=env)
                    esc = None if (r_ is None or esc is None) else esc + r_
            if fr2 is None or esc is None:
                why.append("path enumeration gave up")
            elif esc:
                why.append("a Damaged cell can finish the iteration without reaching the changed-cell continuation bb%s (%s bb%d)" % (sorted(conts), esc[0][0], esc[0][1]))
            else:
                ok_any = True
                why.append("every iteration of a Damaged cell passes the changed-cell continuation bb%s" % sorted(conts))
        ctx.instance("R3-SKIP", {"eq_test_line": t["line"], "equal_edge": eq_t, "changed_edge": norm(frame, diff_t), "covered_by_damage_test": ok_any, "how": "; ".join(why)[:160]})
        if not ok_any:
            ctx.violation("R3-SKIP", frame.path, "skip-%d" % n_inst,
                          "an unchanged cell is skipped without checking that it is not Damaged (%s)" % ("; ".join(why) or "no comparison with CellMark::Damaged in the same loop"),
                          sites=["%s:%d" % (frame.file, t["line"])])

    # ---------------- R4 images ------------------------------------------------------------------
    ctx.rule("R4-IMAGES", "first pass: old image -> execute(ImageErase) + fill(marks view, Damaged); new image -> images.push + fill(marks view, Ignored)", floor=3)
    ex = [(bb, t, cmd_variant(frame, t)) for bb, t in frame.calls() if call_matches(t, r"^terminal::Terminal::execute$")]
    erase = [(bb, t) for bb, t, v in ex if "ImageErase" in v]
    vfills = [f for f in ffl if view_of(frame, f) == "(*_1).marks"]
    dmg_fill = [f for f in vfills if DAMAGED in f["vals"]]
    ign_fill = [f for f in vfills if IGNORED in f["vals"]]
    push = [(bb, t) for bb, t in frame.calls() if call_matches(t, r"Vec::<T, A>::push$") and arg_place(frame, t, 0) == "(*_1).images"]
    errs = err_return_blocks(frame)
    if len(erase) != 1 or not dmg_fill:
        ctx.violation("R4-IMAGES", frame.path, "erase-or-damage-missing",
                      "frame() does not both erase a replaced image (ImageErase) and mark its area Damaged: stale pixels/cells under the old image survive",
                      sites=[frame.loc])
    else:
        ebb, et = erase[0]
        # after the erase (success), the damaged fill must follow before the iteration ends
        inner = _inner_loop(loops, ebb)
        exits = ([inner] if inner is not None else []) + list(fcfg.returns)
        # (path-sensitive for Result values, so that an extracted helper `erase(..)?` that returns the error of execute(..)? is understood)
        esc = CellEval(frame, prog).escapes(ebb, {f["bb"] for f in dmg_fill}, head=inner, loop_body=loops[inner] if inner is not None else None,
                                            removed=_err_region(fcfg, frame, errs))
        ok, wit = (esc == []), esc
        ctx.instance("R4-IMAGES", {"erase_line": et["line"], "damage_fill_lines": [f["t"]["line"] for f in dmg_fill], "follows": ok})
        if not ok:
            ctx.violation("R4-IMAGES", frame.path, "erase-without-damage", "ImageErase is not followed by marking the image area Damaged (path %s)" % wit, sites=["%s:%d" % (frame.file, et["line"])])
        # the erased placement is the one on screen: image cloned from the back-buffer side of the iteration, never from front
        era = [s_ for bb_, si_, s_ in frame.assigns() if s_["rv"]["k"] == "agg" and s_["rv"].get("variant") == "ImageErase"]
        for s_ in era:
            img_e = expr(frame, s_["rv"]["fields"][0])
            side = _iter_side(img_e)
            okb = side is not None and "arg1.back" in side and "arg1.front" not in side
            ctx.instance("R4-IMAGES", {"erased_image_from": (side or img_e)[:120], "is_back_buffer": okb})
            if not okb:
                ctx.violation("R4-IMAGES", frame.path, "erase-source", "frame() erases an image placement that is not taken from the back buffer (what the terminal shows): %s" % (side or img_e)[:160],
                              sites=["%s:%d" % (frame.file, s_["line"])])
        # the erase is decided by the kind of the OLD cell: the discriminant switch guarding it must test the same place the image is cloned from,
        # and must be evaluated on every changed-cell path (it post-dominates the changed continuation of the first-pass eq test)
        first_eq = [x for x in eqs if not x[2] and _inner_loop(loops, x[0]) == inner]
        if first_eq:
            starts = changed_cont.get(first_eq[0][0]) or []
            sw = _guarding_kind_switch(frame, fcfg, ebb)
            okg = sw is not None and bool(starts) and all(fcfg.must_pass([sw], start=c_, exits=exits)[0] for c_ in starts)
            ctx.instance("R4-IMAGES", {"kind_switch_block": sw, "on_every_changed_path": okg})
            if not okg:
                ctx.violation("R4-IMAGES", frame.path, "erase-not-on-changed-path", "a changed cell can bypass the old-image test (erase + damage)", sites=["%s:%d" % (frame.file, et["line"])])
        else:
            ctx.anchor("R4-IMAGES", "first-pass-eq")
    if len(push) != 1 or not ign_fill:
        ctx.violation("R4-IMAGES", frame.path, "push-or-ignore-missing", "frame() does not queue a new image and mark its area Ignored", sites=[frame.loc])
    else:
        pbb, pt = push[0]
        inner = _inner_loop(loops, pbb)
        exits = ([inner] if inner is not None else []) + list(fcfg.returns)
        esc = CellEval(frame, prog).escapes(pbb, {f["bb"] for f in ign_fill}, head=inner, loop_body=loops[inner] if inner is not None else None,
                                            removed=_err_region(fcfg, frame, errs))
        ok, wit = (esc == []), esc
        ctx.instance("R4-IMAGES", {"push_line": pt["line"], "ignore_fill_lines": [f["t"]["line"] for f in ign_fill], "follows": ok})
        if not ok:
            ctx.violation("R4-IMAGES", frame.path, "push-without-ignore", "a queued image's area is not marked Ignored (characters would be painted over/under it)", sites=["%s:%d" % (frame.file, pt["line"])])
    # every queued image is drawn: Vec::drain(images) loop contains execute(Image)
    img = [(bb, t) for bb, t, v in ex if "Image" in v]
    drain = [(bb, t) for bb, t in frame.calls() if call_matches(t, r"Vec::<T, A>::drain$") and arg_place(frame, t, 0) == "(*_1).images"]
    okd = bool(img) and bool(drain) and all(fcfg.dominates(drain[0][0], b) for b, _ in img)
    ctx.instance("R4-IMAGES", {"draw_after_drain": okd})
    if not okd:
        ctx.violation("R4-IMAGES", frame.path, "queued-image-not-drawn", "images queued in the first pass are not drawn from images.drain(..)", sites=[frame.loc])

    # ---------------- R9 wide characters: history independence of the column walk ----------------------------------
    ctx.rule("R9-WIDE", "second pass: a column is advanced by the constant 1 only where the new cell is known not to be a multi-column character (not a Char, width 0, "
                        "or under an image), so an unchanged wide character hides its trailing cells exactly as a repainted one does; first pass: a changed cell whose "
                        "old content was a wide character damages the cells that character covered", floor=3)
    # (a) every advance of the column walker `W.col = W.col + X`.  The walker is the Position whose column is compared with front.width() by
    # the loop condition (any name).  Assume the new cell is a character wider than one column that is not under an image (mark Empty or
    # Damaged): on every path that is feasible under that assumption the step X must not be the constant 1 (or 0).
    pos_locals = {l for l in range(len(frame.locals)) if frame.local_ty(l) == "terminal::Position"}
    walkers = set()
    for bb_, si_, s_ in frame.assigns():
        rv_ = s_["rv"]
        if rv_["k"] == "bin" and rv_["op"] in ("Lt", "Gt", "Le", "Ge", "Ne"):
            for x_, y_ in ((rv_["a"], rv_["b"]), (rv_["b"], rv_["a"])):
                if x_.get("k") in ("copy", "move") and x_["place"]["l"] in pos_locals and [e_.get("name") for e_ in x_["place"]["p"]] == ["col"] \
                        and re.search(r"(Surface::width\(arg1\.front\)|Surface::shape\(arg1\.front\)\.width|arg1\.size\.cells\.width)$", expr(frame, y_)):
                    walkers.add(x_["place"]["l"])
    if not walkers:
        walkers = pos_locals
    adds = {}     # tuple local -> (block, statement index, assign statement of `W.col + X`)
    for bb_, si_, s_ in frame.assigns():
        rv_ = s_["rv"]
        if rv_["k"] == "bin" and rv_["op"] in ("AddWithOverflow", "Add"):
            for x_, y_ in ((rv_["a"], rv_["b"]), (rv_["b"], rv_["a"])):
                if x_.get("k") in ("copy", "move") and x_["place"]["l"] in walkers and [e_.get("name") for e_ in x_["place"]["p"]] == ["col"]:
                    adds[s_["place"]["l"]] = (bb_, si_, s_, y_)
                    break
    incs = []
    for bb_, si_, s_ in frame.assigns():
        rv_ = s_["rv"]
        if s_["place"]["l"] in walkers and [e_.get("name") for e_ in s_["place"]["p"]] == ["col"] and rv_["k"] == "use" and rv_["a"].get("k") in ("copy", "move") \
                and rv_["a"]["place"]["l"] in adds:
            incs.append(adds[rv_["a"]["place"]["l"]])
    if not incs:
        ctx.anchor("R9-WIDE", "second-pass/col-increment", "no `pos.col += ..` found in frame(): the column walk is not understood")
    wide_reach = {}
    for bb_, si_, s_, step in incs:
        inner = _inner_loop(loops, bb_)
        bad, n_feasible = None, 0
        for mk in (EMPTY, DAMAGED):
            key = (inner, mk)
            if key not in wide_reach:
                wev = CellEval(frame, prog, mark=mk, wide=True)
                wide_reach[key] = (wev, wev.reach(inner if inner is not None else 0, stop={inner} if inner is not None else ()))
            wev, fr = wide_reach[key]
            if fr is None:
                bad = bad or "path enumeration gave up"
                continue
            for env in fr.get(bb_, []):
                env = dict(env)
                for s2 in frame.blocks[bb_]["stmts"][:si_]:
                    if s2["k"] == "assign":
                        wev._assign(env, bb_, s2)
                v = wev._val(env, step)
                n_feasible += 1
                if isinstance(v, tuple) and v[1] <= 1:
                    bad = bad or "advances by %d" % v[1]
        why = None if bad else ("not reached for a wide character outside an image" if n_feasible == 0 else "step is not the constant 1 for a wide character")
        ctx.instance("R9-WIDE", {"column_advance_line": s_["line"], "step": expr(frame, step)[:80], "justified_by": why})
        if why is None:
            ctx.violation("R9-WIDE", frame.path, "skip-advance", "a column is skipped with `pos.col += 1` although the cell may hold an unchanged wide character (%s): its trailing cell is then examined "
                          "on its own and painted over the character's right half (from-scratch painting skips it), e.g. frames [中 x a b] then [中 y a b]" % bad, sites=["%s:%d" % (frame.file, s_["line"])])
    # (b) old wide character -> damage its footprint
    wide_dmg = []
    for f in dmg_fill:
        og_ = origins(frame, f["t"]["args"][0])
        for o in og_:
            if o[0] == "call" and re.search(r"SurfaceMut::view_mut$", o[2]):
                vt_ = frame.blocks[o[1]]["term"]
                cols = expr(frame, vt_["args"][2]) if len(vt_["args"]) > 2 else ""
                if "UnicodeWidthChar::width(" in cols:
                    side = _iter_side(re.search(r"UnicodeWidthChar::width\((.*)\)", cols).group(1)) or ""
                    wide_dmg.append((f, cols, "arg1.back" in side and "arg1.front" not in side))
    okb = any(x[2] for x in wide_dmg)
    ctx.instance("R9-WIDE", {"old_wide_character_footprint_damaged": okb, "fills": [c[:120] for _, c, _ in wide_dmg]})
    if not okb:
        ctx.violation("R9-WIDE", frame.path, "old-wide-not-damaged", "when a wide character is replaced, the cells it covered are not marked Damaged: the terminal blanks the character's right "
                      "half but an unchanged cell there is never repainted, e.g. frames [中 x a b] then [q x a b] leave column 1 blank", sites=[frame.loc])

    # ---------------- R5 epilogue + run_render ----------------------------------------------------
    ctx.rule("R5-EPILOGUE", "frame Ok path: swap(front, back) then front.clear(); run_render: frames_drop -> clear, Resize -> clear + new(true), drawn front reaches frame", floor=5)
    swp = [(bb, t) for bb, t in frame.calls() if call_matches(t, r"^std::mem::swap$") and {arg_place(frame, t, 0), arg_place(frame, t, 1)} == {"(*_1).front", "(*_1).back"}]
    fclr = [f for f in ffl if f["recv"] == "(*_1).front" and (f["name"] == "clear" or any(o[0] == "call" and re.search(r"Default>?::default$", o[2]) for o in f["orig"]))]
    oks = ok_return_blocks(frame)
    ok1 = bool(swp) and fcfg.must_pass([b for b, _ in swp], exits=oks)[0]
    ok2 = bool(swp) and bool(fclr) and fcfg.must_pass([f["bb"] for f in fclr], start=swp[0][0], exits=oks)[0]
    # no paint after swap
    ctx.instance("R5-EPILOGUE", {"swap_on_every_ok_path": ok1, "front_cleared_after_swap": ok2})
    if not ok1:
        ctx.violation("R5-EPILOGUE", frame.path, "no-swap", "an Ok path of frame() does not swap front and back: the renderer's belief about the terminal is stale", sites=[frame.loc])
    if not ok2:
        ctx.violation("R5-EPILOGUE", frame.path, "front-not-cleared", "front buffer is not cleared after the swap: the previous frame leaks into the next one", sites=[frame.loc])
    if swp:
        after = fcfg.reachable_from(swp[0][0])
        late = [(bb, t) for bb, t, v in ex if bb in after and bb != swp[0][0]]
        ctx.instance("R5-EPILOGUE", {"commands_after_swap": len(late)})
        for bb, t in late:
            ctx.violation("R5-EPILOGUE", frame.path, "paint-after-swap", "terminal commands are issued after the buffers were swapped", sites=["%s:%d" % (frame.file, t["line"])])
    rcfg = rr.cfg()
    rr_calls = list(_calls_x(rr))
    fd = [(bb, t) for bb, t in rr_calls if call_matches(t, r"^terminal::Terminal::frames_drop$")]
    cl = [(bb, t) for bb, t in rr_calls if call_matches(t, r"^render::TerminalRenderer::clear$")]
    nw_all = [(bb, t) for bb, t in rr_calls if call_matches(t, r"^render::TerminalRenderer::new$")]
    fr = [(bb, t) for bb, t in rr_calls if call_matches(t, r"^render::TerminalRenderer::frame$")]
    hd = [(bb, t) for bb, t in rr_calls if call_matches(t, r"FnMut::call_mut$")]
    rerrs = err_return_blocks(rr)
    if len(fd) != 1 or not cl or not fr or len(hd) != 1:
        ctx.anchor("R5-EPILOGUE", "run_render/shape")
    else:
        fbb = fd[0][0]
        main_frames = [b for b, _ in fr if b in rcfg.reachable_from(hd[0][0])]
        # frames_drop must be followed by clear before frame
        ok3 = rcfg.must_pass([b for b, _ in cl], start=fbb, exits=main_frames)[0]
        ctx.instance("R5-EPILOGUE", {"frames_drop_then_clear": ok3})
        if not ok3:
            ctx.violation("R5-EPILOGUE", rr.path, "drop-without-clear", "run_render drops pending frames without renderer.clear(): the diff base no longer matches the terminal", sites=["%s:%d" % (rr.file, fd[0][1]["line"])])
        # renderer re-creation in the loop must pass clear=true and be preceded by clear()
        loopsr = rcfg.loops()
        inloop_new = [(bb, t) for bb, t in nw_all if any(bb in body for body in loopsr.values())]
        ok4 = bool(inloop_new) and all(len(t["args"]) > 1 and expr(rr, t["args"][1]) == "1" for bb, t in inloop_new)
        ok5 = all(any(rcfg.dominates(cb, bb) and bb in rcfg.reachable_from(cb) and _inner_loop(loopsr, cb) is not None for cb, _ in cl) for bb, t in inloop_new)
        ctx.instance("R5-EPILOGUE", {"recreated_with_clear_true": ok4, "old_renderer_cleared_first": ok5})
        if not ok4:
            ctx.violation("R5-EPILOGUE", rr.path, "resize-new-without-clear", "after a resize the renderer is re-created without clear=true", sites=[rr.loc])
        if not ok5:
            ctx.violation("R5-EPILOGUE", rr.path, "resize-no-clear", "after a resize the old renderer is not cleared (image erase) before re-creation", sites=[rr.loc])
        # R7: between the handler call and frame(), no callee that overwrites the front buffer
        front_writers = set()
        for b in prog.bodies:
            if b.impl_self == "render::TerminalRenderer" and b.kind == "AssocFn" and b.path != frame.path:
                for f in fills(prog.inlined(b.path) or b, None):
                    if (f["recv"] or "").startswith("(*_1).front"):
                        front_writers.add(b.path)
        bad = []
        region = rcfg.reachable_from(hd[0][0])
        to_frame = rcfg.reaches(main_frames)
        for bb, t in rr_calls:
            if bb in region and bb in to_frame and bb != hd[0][0] and callee_name(t) in front_writers:
                bad.append((bb, t))
        ctx.instance("R5-EPILOGUE", {"front_writers": sorted(front_writers), "calls_between_handler_and_frame": len(bad)})
        for bb, t in bad:
            ctx.violation("R5-EPILOGUE", rr.path, "drawn-front-overwritten",
                          "%s overwrites the front buffer between the handler (which draws the frame) and frame()" % callee_name(t), sites=["%s:%d" % (rr.file, t["line"])])

    # ---------------- R6 face/cursor reconciliation ------------------------------------------------
    ctx.rule("R6-RECONCILE", "second pass: every Char/EraseChars emission is preceded in its iteration by the face and cursor tests", floor=3)
    paints = [(bb, t, v) for bb, t, v in ex if v & {"Char", "EraseChars"}]
    face_t = [bb for bb, t in frame.calls() if call_matches(t, r"PartialEq.*::(eq|ne)$") and all("face::Face" in x for x in t["arg_tys"])]
    cur_t = [bb for bb, t in frame.calls() if call_matches(t, r"PartialEq.*::(eq|ne)$") and all("terminal::Position" in x for x in t["arg_tys"])]
    for bb, t, v in paints:
        inner = None
        # the cell loop = smallest loop containing both the paint and the face test
        cands = [h for h, body in loops.items() if bb in body and any(f in body for f in face_t)]
        if cands:
            inner = min(cands, key=lambda h: len(loops[h]))
        # image phase paints EraseChars too, after an unconditional Face/CursorTo: accept when dominated by execute(Face) & execute(CursorTo) in the same loop
        if inner is None:
            facecmd = [b for b, t2, v2 in ex if "Face" in v2 and fcfg.dominates(b, bb)]
            curcmd = [b for b, t2, v2 in ex if "CursorTo" in v2 and fcfg.dominates(b, bb)]
            l2 = _inner_loop(loops, bb)
            ok = any(l2 is not None and b in loops[l2] or True for b in facecmd) and bool(facecmd) and bool(curcmd)
            ctx.instance("R6-RECONCILE", {"paint_line": t["line"], "cmd": sorted(v), "phase": "images", "after_face_and_cursor_commands": ok})
            if not ok:
                ctx.violation("R6-RECONCILE", frame.path, "image-erase-without-face-cursor", "EraseChars of the image phase is not preceded by Face and CursorTo", sites=["%s:%d" % (frame.file, t["line"])])
            continue
        okf = fcfg.must_pass(face_t, start=inner, exits=[bb])[0]
        okc = fcfg.must_pass(cur_t, start=inner, exits=[bb])[0]
        ctx.instance("R6-RECONCILE", {"paint_line": t["line"], "cmd": sorted(v), "face_test_first": okf, "cursor_test_first": okc})
        if not okf:
            ctx.violation("R6-RECONCILE", frame.path, "paint-without-face-test-%s" % "-".join(sorted(v)), "a character is emitted on a path that did not compare the current face with the cell's face", sites=["%s:%d" % (frame.file, t["line"])])
        if not okc:
            ctx.violation("R6-RECONCILE", frame.path, "paint-without-cursor-test-%s" % "-".join(sorted(v)), "a character is emitted on a path that did not compare the cursor with the cell position", sites=["%s:%d" % (frame.file, t["line"])])
    # the tests must lead to the commands: ne(face) true edge -> execute(Face); ne(cursor) true edge -> execute(CursorTo)
    for tests, cmdname in ((face_t, "Face"), (cur_t, "CursorTo")):
        for tb in tests:
            t = frame.blocks[tb]["term"]
            e = cmp_edges(frame, tb, t)      # (equal, different, switch)
            cmds = [b for b, t2, v2 in ex if cmdname in v2]
            ok = bool(e) and fcfg.must_pass(cmds, start=e[1], exits=[norm(frame, e[0])] + list(fcfg.returns), removed=_err_region(fcfg, frame, errs))[0]
            ctx.instance("R6-RECONCILE", {"test_line": t["line"], "leads_to": cmdname, "ok": ok})
            if not ok:
                ctx.violation("R6-RECONCILE", frame.path, "test-without-%s" % cmdname, "the %s difference test does not lead to emitting %s" % (cmdname, cmdname), sites=["%s:%d" % (frame.file, t["line"])])


    # ---------------- R7 erase/space runs never swallow Ignored cells ------------------------------------------
    ctx.rule("R7-RUN", "second pass run-length scan: a cell is added to a blank run only if its mark was compared with Ignored", floor=1)
    n_run = 0
    for (bb, t, both_front, srcs) in eqs:
        if not both_front:
            continue
        n_run += 1
        inner = _inner_loop(loops, bb)
        e = cmp_edges(frame, bb, t)
        incs = []
        for i2, si2, s2 in frame.assigns():
            if inner is not None and i2 in loops[inner] and s2["rv"]["k"] == "bin" and s2["rv"]["op"] in ("AddWithOverflow", "Add") \
                    and "1" in (expr(frame, s2["rv"]["a"]), expr(frame, s2["rv"]["b"])):
                incs.append((i2, s2))
        ok = bool(e) and bool(incs)
        why = "run counter increment not found"
        # assume the mark of the cell being scanned is Ignored (reads of `marks` inside the scan loop): the counter must not be incremented
        fr = None
        if inner is not None:
            fr = CellEval(frame, prog, mark=IGNORED, allowed=lambda x, inner=inner: x in loops[inner]).reach(inner, stop={inner})
        for i2, s2 in incs:
            g1 = bool(e) and fcfg.edge_dominates(e[2], e[0], i2)
            g2 = fr is not None and i2 not in fr
            if not (g1 and g2):
                ok = False
                why = "the run counter is incremented (line %d) without %s" % (s2["line"], "the equal-cell test" if not g1 else "a `mark != Ignored` test of the next cell")
        ctx.instance("R7-RUN", {"scan_eq_line": t["line"], "increments": [s2["line"] for i2, s2 in incs], "guarded_by_equal_and_not_ignored": ok})
        if not ok:
            ctx.violation("R7-RUN", frame.path, "run-includes-ignored", "blank-run coalescing: %s; EraseChars/spaces would overwrite cells under an image that is kept" % why, sites=["%s:%d" % (frame.file, t["line"])])
    # the same scan written as an iterator chain: the comparison of two front-buffer cells lives in a closure handed to an adaptor
    # (`cols.take_while(|p| front.get(p) == Some(new) && marks.get(p) != Some(&Ignored)).count()`, `position(|p| !(..))`, a counting fold ..).
    # The closure is evaluated twice, once assuming the scanned cell's mark is Ignored and once assuming the two cells differ: in neither
    # case may it accept the cell (bool closure: return the accepting value of its adaptor; otherwise: reach an increment by one).
    for cb, caps in _closures_x(prog, frame):
        cmps = []
        for bb, t in cb.calls():
            if call_matches(t, r"PartialEq.*::(eq|ne)$") and len(t["args"]) == 2 and all(_T_CELLISH.search(x) for x in t["arg_tys"]):
                es = [_cap_subst(expr(cb, a), caps) for a in t["args"]]
                if all("arg1.front" in e and "arg1.back" not in e for e in es):
                    cmps.append((bb, t))
        if not cmps:
            continue
        n_run += 1
        marks_recv = {pl for k, e in caps.items() if e == "arg1.marks" for pl in ("(*(*_1).%d)" % k, "(*_1).%d" % k, "(*(*(*_1).%d))" % k)}
        init = {l: "M" for l in range(2, cb.arg_count + 1) if _T_MARK.match(cb.local_ty(l) or "")}
        site = _closure_site(frame, cb)
        adaptor = (callee_name(site[1]) or "").split("::")[-1] if site else None
        is_pred = cb.local_ty(0) == "bool"
        accept = None
        if is_pred and adaptor in ("take_while", "all", "filter", "skip_while"):
            accept = 1
        elif is_pred and adaptor in ("position", "find", "any", "rposition"):
            accept = 0
        incs = [(i2, s2) for i2, si2, s2 in cb.assigns() if s2["rv"]["k"] == "bin" and s2["rv"]["op"] in ("AddWithOverflow", "Add")
                and "1" in (expr(cb, s2["rv"]["a"]), expr(cb, s2["rv"]["b"]))]
        if accept is None and not incs:
            ctx.anchor("R7-RUN", "run-length-scan-consumer", "cells of the front buffer are compared in %s but how the result is counted is not understood (adaptor %s)" % (cb.path, adaptor))
            continue
        ok, why = True, ""
        for what, ev in (("a `mark != Ignored` test of the next cell", CellEval(cb, prog, mark=IGNORED, init=init, marks_recv=marks_recv)),
                         ("the equal-cell test", CellEval(cb, prog, init=init, marks_recv=marks_recv,
                                                          forced={bb: (0 if (callee_name(t) or "").endswith("::eq") else 1) for bb, t in cmps}))):
            fr = ev.reach(0)
            if fr is None:
                ok, why = False, "path enumeration gave up"
                continue
            if accept is not None:
                rets = _return_values(ev, cb, fr)
                if not rets or not all(r == ("c", 1 - accept) for r in rets):
                    ok, why = False, "the cell is accepted into the run (closure handed to %s) without %s" % (adaptor, what)
            for i2, s2 in incs:
                if i2 in fr:
                    ok, why = False, "the run counter is incremented (line %d) without %s" % (s2["line"], what)
        ctx.instance("R7-RUN", {"scan_closure": cb.path.split("::")[-1], "adaptor": adaptor, "accepting_value": accept, "increments": [s2["line"] for i2, s2 in incs],
                                "guarded_by_equal_and_not_ignored": ok})
        if not ok:
            ctx.violation("R7-RUN", frame.path, "run-includes-ignored", "blank-run coalescing: %s; EraseChars/spaces would overwrite cells under an image that is kept" % why,
                          sites=["%s:%d" % (frame.file, cmps[0][1]["line"])])
    if n_run == 0:
        ctx.anchor("R7-RUN", "run-length-scan")

    # ---------------- R8 equality used by the diff is complete ----------------------------------------------------
    ctx.rule("R8-EQ", "hand-written PartialEq of cell payload types (Image, Glyph) compares every field whole", floor=2)
    for ty in ("image::Image", "glyph::Glyph"):
        eqb = [b for b in prog.bodies if b.name == "eq" and b.impl_trait == "std::cmp::PartialEq" and b.impl_self == ty]
        adt = prog.adts.get(ty)
        if len(eqb) != 1 or not adt:
            ctx.anchor("R8-EQ", ty)
            continue
        b = eqb[0]
        fields = [f["name"] for v in adt["variants"] for f in v["fields"]]
        calls_ = [(callee_name(t), [expr(b, a) for a in t["args"]]) for bb, t in b.calls()]
        derived = bool(calls_) and all((t.get("expk") or "").startswith("derive") for bb, t in b.calls())
        missing = []
        if not derived:
            for f in fields:
                hit = any(len(a) == 2 and {a[0], a[1]} == {"arg1." + f, "arg2." + f} for n, a in calls_)
                for i2, si2, s2 in b.assigns():
                    if s2["rv"]["k"] == "bin" and s2["rv"]["op"] == "Eq" and {expr(b, s2["rv"]["a"]), expr(b, s2["rv"]["b"])} == {"arg1." + f, "arg2." + f}:
                        hit = True
                if not hit:
                    missing.append(f)
        ctx.instance("R8-EQ", {"type": ty, "fields": fields, "derived": derived, "compared": [c for c in calls_][:4], "missing": missing})
        if missing:
            ctx.violation("R8-EQ", b.path, "field-" + "-".join(missing),
                          "%s::eq does not compare field(s) %s as a whole: two different cells can compare equal, the renderer then skips them and the terminal keeps the old content" % (ty, missing),
                          sites=[b.loc])

def _calls_x(body):
    """call sites of a (possibly inlined) body: the real call terminators plus the call sites `prog.inlined` expanded in place
    (a `goto` carrying `inl_call`; the arguments are the `inl_arg` assignments the inliner appended to that block)"""
    for bb, t in body.calls():
        yield bb, t
    for bb, blk in enumerate(body.blocks):
        t = blk["term"]
        if t["k"] == "goto" and t.get("inl_call") and not blk["cleanup"]:
            args = [s_["rv"]["a"] for s_ in blk["stmts"] if s_.get("inl_arg") == t["inl_call"]]
            yield bb, {"k": "call", "fn": {"path": t["inl_call"], "resolved": t["inl_call"], "local": True}, "args": args,
                       "line": t.get("line", 0), "t": t["t"], "inl": True}


def _closures_x(prog, body):
    """closures built in a (possibly inlined) body, with their captures in the body's vocabulary: [(closure body, {k: canonical term of capture k})]"""
    out = []
    for i, si, s in body.assigns():
        rv = s["rv"]
        if rv["k"] == "agg" and rv.get("ak") == "closure" and not body.blocks[i]["cleanup"]:
            cb = prog.body(rv["def"])
            if cb is not None and all(cb is not c for c, _ in out):
                out.append((cb, {k: expr(body, f) for k, f in enumerate(rv["fields"])}))
    return out


def _cap_subst(e, caps):
    """a canonical term of a closure body with its captures (`arg1.<k>`) replaced by what the parent captured"""
    return re.sub(r"\barg1\.(\d+)\b", lambda m: caps.get(int(m.group(1)), m.group(0)), e)


def _closure_site(parent, cb):
    """(block, call) of `parent` that consumes closure `cb` as a non-receiver argument"""
    name = re.escape(cb.path.split("::")[-1])
    for bb, t in parent.calls():
        for k, a in enumerate(t["args"]):
            if k > 0 and re.match(r"closure:%s\[" % name, expr(parent, a)):
                return bb, t, k
    return None


def _return_values(ev, cb, fr):
    """values of the return place at every return reached by the walk `fr` of evaluator `ev` (None = unknown)"""
    rets = []
    for rb, envs in fr.items():
        if cb.blocks[rb]["term"]["k"] == "return":
            for env in envs:
                env = dict(env)
                ev._step(env, rb)
                rets.append(env.get(0))
    return rets


# ---- path-sensitive reading of the diff loops under an assumption about the cell being examined ---------------------------------
_T_CELLISH = re.compile(r"^(&(mut )?)*(std::option::Option<(&(mut )?)*render::Cell>|render::Cell)$")
_T_MARK = re.compile(r"^(&(mut )?)*render::CellMark$")
_T_OMARK = re.compile(r"^(&(mut )?)*std::option::Option<(&(mut )?)*render::CellMark>$")
_T_MARKS = re.compile(r"^&(mut )?\[render::CellMark\]$")
_PURE_TESTS = r"PartialEq.*::(eq|ne)$|^surface::Surface::(get|data|shape|width|height)$|Surface>::(get|data|shape|width|height)$|^surface::Shape::offset$|" \
              r"Option::<T>::(copied|cloned|unwrap_or|unwrap_or_default|is_some|is_none|as_ref|as_deref)$|Option::<&T>::(copied|cloned)$|Option::<&mut T>::(copied|cloned)$"


class _Tup:
    """value of a tuple local in CellEval: the values of its fields (`match (front.get(p), marks.get(p)) { .. }`)"""
    __slots__ = ("vs",)

    def __init__(self, vs):
        self.vs = tuple(vs)

    def __eq__(self, o):
        return isinstance(o, _Tup) and o.vs == self.vs

    def __hash__(self):
        return hash(("T", self.vs))

    def __repr__(self):
        return "T%r" % (self.vs,)


class CellEval:
    """Walks a body with a small environment of facts implied by an assumption about the cell under examination:
       mark = <variant of CellMark>        every value read from the marks surface at an allowed site is that variant
       wide = True                         the new (front-buffer) cell is a character whose width is > 1
    Environment values: ('c', n) known integer/bool, 'M' (the mark, or a reference to it), 'OM' (Some(&mark) / Some(mark)), 'W' (the width).
    Branches whose discriminant is known are followed on the matching edge only (like sa.flow.feasible_reach, which knows constants only)."""

    def __init__(self, body, prog, mark=None, wide=False, allowed=None, init=None, forced=None, marks_recv=()):
        self.b, self.prog, self.mark, self.wide = body, prog, mark, wide
        self.forced = dict(forced or {})          # {block of a call: value its result is assumed to have}
        self.marks_recv = set(marks_recv)         # places that denote the marks surface besides `<..>.marks` (captures of a closure)
        self.allowed = allowed or (lambda bb: True)
        self.init = dict(init or {})
        ev = prog.enum_variants("render::CellMark") or []
        self.mark_idx = {"render::CellMark::" + n: i if d is None else d for i, (n, d) in enumerate(ev)}
        self._idx_cache = {}

    # -- values --------------------------------------------------------------------------------------------
    def _val(self, env, op):
        if op["k"] == "const":
            c = op["c"]
            return ("c", int(c["int"])) if "int" in c else None
        p = op["place"]
        return self._place_val(env, p)

    def _place_val(self, env, p):
        v = env.get(p["l"])
        proj = [e for e in p["p"] if e["k"] != "deref"]
        while proj and isinstance(v, _Tup) and proj[0]["k"] == "field":
            nm = str(proj[0].get("name"))
            v = v.vs[int(nm)] if nm.isdigit() and int(nm) < len(v.vs) else None
            proj = proj[1:]
        if not proj:
            return v
        if v == "OM" and len(proj) == 2 and proj[0]["k"] == "downcast" and proj[0]["variant"] == "Some" and proj[1]["k"] == "field":
            return "M"
        if self.mark is not None and any(e["k"] == "index" for e in proj) and _T_MARKS.match(self.b.local_ty(p["l"]) or ""):
            return "M"
        return None

    def _variants(self, op):
        # promoted constants of expanded helpers are renumbered into the root's table by sa.inline
        vs = value_variants(self.b, op)
        return {v for v in vs if isinstance(v, str)}

    def _cmp(self, env, t):
        """value of PartialEq::eq(a, b) when one side is the assumed mark and the other a constant"""
        a, b_ = t["args"][0], t["args"][1]
        va, vb = self._val(env, a), self._val(env, b_)
        if va in ("M", "OM") and vb in ("M", "OM"):
            return None
        if vb in ("M", "OM"):
            a, b_, va, vb = b_, a, vb, va
        if va not in ("M", "OM") or self.mark is None:
            return None
        vs = self._variants(b_)
        marks = [v for v in vs if v.startswith("render::CellMark::")]
        if va == "OM":
            if any(v.endswith("Option::None") for v in vs) and not marks:
                return 0
            if not any(v.endswith("Option::Some") for v in vs):
                return None
        if len(marks) != 1:
            return None
        return 1 if marks[0] == self.mark else 0

    def _assign(self, env, bb, s):
        pl, rv = s["place"], s["rv"]
        if pl["p"]:
            return
        l, k, val = pl["l"], rv["k"], None
        if k == "use":
            val = self._val(env, rv["a"]) if (rv["a"]["k"] == "const" or self.allowed(bb) or not any(e["k"] == "index" for e in rv["a"]["place"]["p"])) else None
            if val is None and self.wide and self.b.local_ty(l) == "char" and rv["a"]["k"] != "const" and self._is_new_char(rv["a"]):
                val = "NC"       # the new cell's character: wider than one column, hence not below U+1100
        elif k in ("ref", "rawptr"):
            val = self._place_val(env, rv["place"]) if (self.allowed(bb) or not any(e["k"] == "index" for e in rv["place"]["p"])) else None
            if val not in ("M", "OM") and not isinstance(val, _Tup):
                val = None
        elif k == "agg" and rv.get("ak") == "tuple" and rv["fields"]:
            vs = [self._val(env, f) for f in rv["fields"]]
            val = _Tup(vs) if any(v is not None for v in vs) else None
        elif k == "agg" and rv.get("ak") == "adt" and rv.get("adt") == "std::result::Result":
            val = "OKR" if rv.get("variant") == "Ok" else "ERRR"
        elif k == "discr":
            v = self._place_val(env, rv["place"])
            if v in ("OKR", "CONT"):
                val = ("c", 0)
            elif v in ("ERRR", "BRK"):
                val = ("c", 1)
            elif v == "OM":
                val = ("c", 1)
            elif v == "M" and self.mark is not None:
                val = ("c", self.mark_idx[self.mark])
            elif self.wide and rv.get("of") == "render::CellKind" and self._is_new_kind(rv["place"]):
                val = ("c", 0)
        elif k == "un" and rv["op"] == "Not":
            v = self._val(env, rv["a"])
            if isinstance(v, tuple) and self.b.local_ty(l) == "bool":
                val = ("c", 0 if v[1] else 1)
        elif k == "bin":
            x, y = self._val(env, rv["a"]), self._val(env, rv["b"])
            op = rv["op"]
            if isinstance(x, tuple) and isinstance(y, tuple) and op in ("Eq", "Ne", "Lt", "Le", "Gt", "Ge"):
                val = ("c", int({"Eq": x[1] == y[1], "Ne": x[1] != y[1], "Lt": x[1] < y[1], "Le": x[1] <= y[1], "Gt": x[1] > y[1], "Ge": x[1] >= y[1]}[op]))
            elif "NC" in (x, y) and op in ("Eq", "Ne"):
                o = y if x == "NC" else x
                if isinstance(o, tuple) and o[1] < 0x1100:
                    val = ("c", 0 if op == "Eq" else 1)
            elif "W" in (x, y) and op in ("Eq", "Ne", "Lt", "Le", "Gt", "Ge"):
                # W > 1
                w_first = x == "W"
                o = y if w_first else x
                if isinstance(o, tuple):
                    n, opn = o[1], op if w_first else {"Lt": "Gt", "Le": "Ge", "Gt": "Lt", "Ge": "Le"}.get(op, op)
                    r = None
                    if opn == "Eq" and n <= 1:
                        r = 0
                    elif opn == "Ne" and n <= 1:
                        r = 1
                    elif opn == "Lt" and n <= 2:
                        r = 0
                    elif opn == "Le" and n <= 1:
                        r = 0
                    elif opn == "Gt" and n <= 1:
                        r = 1
                    elif opn == "Ge" and n <= 2:
                        r = 1
                    if r is not None:
                        val = ("c", r)
        elif k == "cast":
            v = self._val(env, rv["a"])
            if v == "W" or isinstance(v, tuple):
                val = v
        if val is None:
            env.pop(l, None)
        else:
            env[l] = val

    def _is_new_kind(self, place):
        key = (place["l"], json.dumps(place["p"], sort_keys=True))
        if key not in self._idx_cache:
            e = place_expr(self.b, place)
            self._idx_cache[key] = bool(re.search(r"\.kind$", e)) and "arg1.front" in e and "arg1.back" not in e
        return self._idx_cache[key]

    def _call(self, env, bb, t):
        d = t["dest"]
        if d["p"]:
            return
        l, val = d["l"], None
        ty = self.b.local_ty(l) or ""
        nm = callee_name(t) or ""
        if bb in self.forced:
            val = ("c", self.forced[bb])
        elif call_matches(t, r"FromResidual.*::from_residual$"):
            val = "ERRR"
        elif call_matches(t, r"Try>?::branch$") and t["args"] and self._val(env, t["args"][0]) in ("OKR", "ERRR"):
            val = "CONT" if self._val(env, t["args"][0]) == "OKR" else "BRK"
        elif call_matches(t, r"PartialEq.*::(eq|ne)$") and len(t["args"]) == 2:
            r = self._cmp(env, t)
            if r is not None:
                val = ("c", r if nm.endswith("::eq") else 1 - r)
        elif self.mark is not None and self.allowed(bb) and _T_OMARK.match(ty) and (
                (call_matches(t, r"^surface::Surface::get$|Surface>::get$|^surface::SurfaceMut::get_mut$|SurfaceMut>::get_mut$") and ((arg_place(self.b, t, 0) or "").endswith(".marks") or arg_place(self.b, t, 0) in self.marks_recv))
                or call_matches(t, r"Iterator>?::(next|next_back)$")):
            val = "OM"
        elif call_matches(t, r"Option::<.*>::(copied|cloned|as_ref|as_deref|as_mut)$") and t["args"]:
            v = self._val(env, t["args"][0])
            val = "OM" if v == "OM" else None
        elif call_matches(t, r"Option::<.*>::(unwrap_or|unwrap_or_default|unwrap|expect|unwrap_or_else)$") and t["args"]:
            v = self._val(env, t["args"][0])
            val = "M" if v == "OM" else ("W" if v == "W" else None)
        elif call_matches(t, r"Option::<.*>::is_some$") and t["args"] and self._val(env, t["args"][0]) == "OM":
            val = ("c", 1)
        elif call_matches(t, r"Option::<.*>::is_none$") and t["args"] and self._val(env, t["args"][0]) == "OM":
            val = ("c", 0)
        elif call_matches(t, r"Clone>?::clone$") and t["args"] and self._val(env, t["args"][0]) in ("M", "OM"):
            val = self._val(env, t["args"][0])
        elif self.wide and call_matches(t, r"UnicodeWidthChar>?::width$") and t["args"] and self._is_new_char(t["args"][0]):
            val = "W"
        elif call_matches(t, r"Ord>?::max$|^std::cmp::max$") and len(t["args"]) == 2:
            x, y = self._val(env, t["args"][0]), self._val(env, t["args"][1])
            if "W" in (x, y) and all(v == "W" or (isinstance(v, tuple) and v[1] <= 2) for v in (x, y)):
                val = "W"
        if val is None:
            env.pop(l, None)
        else:
            env[l] = val

    def _is_new_char(self, op):
        e = expr(self.b, op)
        return bool(re.search(r"\.kind@Char\.0$", e)) and "arg1.front" in e and "arg1.back" not in e

    # -- walk ----------------------------------------------------------------------------------------------
    def _succ(self, env, bb):
        t = self.b.blocks[bb]["term"]
        succ = self.b.succs(bb)
        if t["k"] == "switch":
            v = self._val(env, t["d"])
            if isinstance(v, tuple):
                sv = str(v[1])
                succ = [t["targets"][t["vals"].index(sv)]] if sv in t["vals"] else [t["otherwise"]]
            elif v == "W":
                succ = [tg for sv, tg in zip(t["vals"], t["targets"]) if int(sv) > 1] + [t["otherwise"]]
            elif v == "NC" or (v is None and self.wide and t.get("dty") == "char" and self._is_new_char(t["d"])):
                succ = [tg for sv, tg in zip(t["vals"], t["targets"]) if int(sv) >= 0x1100] + [t["otherwise"]]
        return succ

    def _step(self, env, bb):
        blk = self.b.blocks[bb]
        for s in blk["stmts"]:
            if s["k"] == "assign":
                self._assign(env, bb, s)
        t = blk["term"]
        succ = self._succ(env, bb)
        if t["k"] == "call":
            self._call(env, bb, t)
        return succ

    def reach(self, start, stop=(), limit=40000):
        """{block: [environments on entry]} for the blocks reachable from `start` under the assumption; `stop` blocks are not expanded"""
        seen, out, n = set(), {}, 0
        self.edges = set()
        st = [(start, tuple(sorted(self.init.items(), key=str)))]
        while st:
            bb, e = st.pop()
            if (bb, e) in seen:
                continue
            seen.add((bb, e))
            out.setdefault(bb, []).append(dict(e))
            n += 1
            if n > limit:
                return None
            if bb in stop and bb != start:
                continue
            env = dict(e)
            for s2 in self._step(env, bb):
                self.edges.add((bb, s2))
                st.append((s2, tuple(sorted(env.items(), key=str))))
        return out

    def escapes(self, start, through, head=None, loop_body=None, removed=(), env=None):
        """Walk from `start` (environment `env`) under the assumption without expanding the `through` blocks.  Returns the ways the iteration can
        end without having passed one of them: ('again', bb) the walk gets back to the loop head, ('leaves', bb) it leaves `loop_body`,
        ('returns', bb); blocks in `removed` (error continuations) are not expanded either.  None when the enumeration gave up."""
        saved = self.init
        if env is not None:
            self.init = dict(env)
        try:
            fr = self.reach(start, stop=set(through) | set(removed) | ({head} if head is not None else set()))
        finally:
            self.init = saved
        if fr is None:
            return None
        out = []
        for (a, b_) in self.edges:
            if b_ == head:
                out.append(("again", a))
            elif loop_body is not None and b_ not in loop_body and b_ not in removed and b_ not in through:
                out.append(("leaves", b_))
        for bb in fr:
            if bb not in through and bb not in removed and self.b.blocks[bb]["term"]["k"] == "return":
                out.append(("returns", bb))
        return sorted(set(out))

    def thread(self, start, env):
        """the first block from `start` that does something other than evaluating tests: follows gotos, decided branches, bounds checks and
        side-effect free test calls (comparisons, reads of the surfaces); stops at a store through a reference/field, any other call, an undecided
        branch or a return"""
        env, bb, seen = dict(env), start, set()
        while bb not in seen:
            seen.add(bb)
            blk = self.b.blocks[bb]
            if any(s["k"] == "assign" and s["place"]["p"] for s in blk["stmts"]):
                return bb
            t = blk["term"]
            if t["k"] == "call" and not call_matches(t, _PURE_TESTS):
                return bb
            succ = self._step(env, bb)
            if t["k"] in ("return", "unreachable") or len(succ) != 1:
                return bb
            bb = succ[0]
        return bb


def _erase_commands(prog, body):
    """ImageErase commands built in `body` or in a closure handed to an iterator adaptor (`iter.try_for_each(|item| ..)`):
    (block of `body` where it happens, statement, canonical term in `body`'s vocabulary - a closure's item parameter reads as next(<receiver>))"""
    out = [(bb, s_, expr(body, {"k": "copy", "place": s_["place"]})) for bb, si, s_ in body.assigns()
           if s_["rv"]["k"] == "agg" and s_["rv"].get("variant") == "ImageErase"]
    for cb in prog.closures_of(body):
        inner = [(bb, s_) for bb, si, s_ in cb.assigns() if s_["rv"]["k"] == "agg" and s_["rv"].get("variant") == "ImageErase"]
        if not inner:
            continue
        site = None
        for bb, t in body.calls():
            for k, a in enumerate(t["args"]):
                if k > 0 and re.search(r"closure:%s\[" % re.escape(cb.path.split("::")[-1]), expr(body, a)) and call_matches(t, r"Iterator>?::(try_for_each|for_each|try_fold|fold|all|any)$"):
                    site = (bb, t, k)
        up = {}
        for i, si, s in body.assigns():
            rv = s["rv"]
            if rv["k"] == "agg" and rv["ak"] == "closure" and rv["def"] == cb.path:
                for k, f in enumerate(rv["fields"]):
                    up["arg1.%d" % k] = expr(body, f)
        for bb, s_ in inner:
            e = expr(cb, {"k": "copy", "place": s_["place"]})
            if site is None:
                out.append((0, s_, "closure:" + e))
                continue
            item = "arg%d" % (cb.arg_count)          # the item is the closure's last parameter (fold/try_fold: after the accumulator)
            it = "Iterator::next(IntoIterator::into_iter(%s))@Some.0" % expr(body, site[1]["args"][0])
            e = re.sub(r"\barg1\.(\d+)\b", lambda m: up.get(m.group(0), m.group(0)), e)
            e = re.sub(r"\b%s\b" % item, lambda m: it, e)
            out.append((site[0], s_, e))
    return out


def _mark_read_blocks(body):
    """blocks that read a cell's mark: Surface::get / iterator items of type Option<&CellMark>, or an indexed read of a [CellMark] slice"""
    cache = body.__dict__.setdefault("_c01_cache", {})
    if "mark_reads" in cache:
        return cache["mark_reads"]
    out = set()
    for bb, t in body.calls():
        if not t["dest"]["p"] and _T_OMARK.match(body.local_ty(t["dest"]["l"]) or "") and call_matches(t, r"Surface>?::get$|SurfaceMut>?::get_mut$|Iterator>?::(next|next_back)$"):
            out.add(bb)
    for bb, si, s in body.assigns():
        rv = s["rv"]
        p = rv["a"].get("place") if rv["k"] == "use" else (rv.get("place") if rv["k"] in ("ref", "rawptr") else None)
        if p and any(e["k"] == "index" for e in p["p"]) and _T_MARKS.match(body.local_ty(p["l"]) or ""):
            out.add(bb)
    cache["mark_reads"] = out
    return out


def _straight_after(body, cfg, call_bb, sw_bb):
    """blocks of the condition a comparison belongs to: reachable from the comparison without passing a call that is not a pure test"""
    key = ("_c01_straight", call_bb)
    cache = body.__dict__.setdefault("_c01_cache", {})
    if key in cache:
        return cache[key]
    seen, st = set(), [body.blocks[call_bb]["term"]["t"]]
    while st:
        x = st.pop()
        if x in seen or x < 0:
            continue
        seen.add(x)
        blk = body.blocks[x]
        t = blk["term"]
        if any(s["k"] == "assign" and s["place"]["p"] for s in blk["stmts"]):
            continue
        if t["k"] == "call" and not call_matches(t, _PURE_TESTS):
            continue
        if t["k"] in ("return", "unreachable"):
            continue
        st.extend(body.succs(x))
    cache[key] = seen
    return seen


def _filtered_not_damaged(prog, parent, cb):
    """closure `cb` of `parent` is handed to an iterator adaptor whose receiver went through `.filter(f)` with f false for a Damaged mark"""
    for bb, t in parent.calls():
        for k, a in enumerate(t["args"]):
            if k == 0 or not re.search(r"closure:%s\[" % re.escape(cb.path.split("::")[-1]), expr(parent, a)):
                continue
            recv = expr(parent, t["args"][0])
            for m in re.finditer(r"Iterator::filter\(.*?, closure:(\{closure#\d+\})\[", recv):
                fb = prog.body(parent.path + "::" + m.group(1))
                if fb is None or fb.arg_count < 2:
                    continue
                fev = CellEval(fb, prog, mark=DAMAGED, init={2: "M"})
                fr = fev.reach(0)
                if fr is None:
                    continue
                rets = []
                for rb, envs in fr.items():
                    if fb.blocks[rb]["term"]["k"] == "return":
                        for env in envs:
                            env = dict(env)
                            fev._step(env, rb)
                            rets.append(env.get(0))
                if rets and all(r == ("c", 0) for r in rets):
                    return True
    return False


def _inner_loop(loops, bb):
    inner = None
    for h, body in loops.items():
        if bb in body and (inner is None or len(body) < len(loops[inner])):
            inner = h
    return inner


def _err_region(cfg, body, errs):
    """blocks from which only error returns are reachable (the `?` failure continuation)"""
    good_ret = [r for r in cfg.returns]
    # blocks that can reach an Ok-producing block
    oks = ok_return_blocks(body)
    can_ok = cfg.reaches(oks) if oks else set()
    return {b for b in cfg.reach if b not in can_ok}


def _guarding_kind_switch(body, cfg, bb):
    """nearest dominating switch on discriminant(<cell>.kind) of type CellKind with an Image(1) edge that dominates bb"""
    best = None
    for j, tt in body.terms():
        if tt["k"] != "switch" or not cfg.dominates(j, bb) or j == bb:
            continue
        dl = op_local(tt["d"])
        for d in body.defs_of(dl) if dl is not None else []:
            if d[1] != "term" and d[2]["k"] == "discr" and d[2]["of"] == "render::CellKind" and "1" in tt["vals"]:
                tgt = tt["targets"][tt["vals"].index("1")]
                if cfg.edge_dominates(j, tgt, bb):
                    if best is None or cfg.dominates(best, j):
                        best = j
    return best


def _top_args(s_):
    args, depth, cur = [], 0, ""
    for ch in s_:
        if ch in "([{":
            depth += 1
        elif ch in ")]}":
            depth -= 1
        if ch == "," and depth == 0:
            args.append(cur.strip())
            cur = ""
        else:
            cur += ch
    args.append(cur.strip())
    return args


def _iter_side(e):
    """for a value projected out of `next(into_iter(zip(A, B)))@Some.0.<i>...` the zip operand it comes from (A or B, recursively);
    for a plain iteration the iterated expression; None when the shape is not recognised"""
    m = re.search(r"Iterator::next\((.*)\)@Some\.0((?:\.\d+)*)", e)
    if not m:
        return None
    it, proj = m.group(1), [int(x) for x in m.group(2).split(".") if x]
    while True:
        it = re.sub(r"^IntoIterator::into_iter\((.*)\)$", r"\1", it)
        z = re.match(r"^Iterator::zip\((.*)\)$", it)
        if not z or not proj:
            return it
        args = _top_args(z.group(1))
        if len(args) != 2 or proj[0] > 1:
            return None
        it, proj = args[proj[0]], proj[1:]
