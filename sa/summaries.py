"""Value summaries of external (std, smallvec, ...) callees for sa/absint.py.
apply() returns HANDLED when it fully updated the state (incl. the destination), a V to be stored in
the destination after the default kill logic, or None for 'unknown callee' (TOP + kills)."""
import re
from .absint import V, TOPV, INF, imeet, ijoin, clip, fits, iadd, isub
from .mir import call_matches, callee_names, op_local
from .obligations import ty_range

HANDLED = object()


def _m(t, pat):
    return call_matches(t, pat)


def _argkey(an, st, t, i):
    o = t["args"][i]
    if o["k"] in ("copy", "move"):
        return an.pkey(st, o["place"])
    return None


def _pointee_key(an, st, t, i, args):
    """key of the place a reference argument points to"""
    a = args[i]
    if a.ref_to is not None:
        return a.ref_to
    k = _argkey(an, st, t, i)
    if k is not None:
        return "(*%s)" % k
    return None


def _pointee_int(an, st, t, i, args):
    """abstract value of the integer a `&iN` argument points to; an untracked place gets its stable symbol (as a read of it would)"""
    k = _pointee_key(an, st, t, i, args)
    if k is None:
        return None
    v = st.vals.get(k)
    if v is not None:
        return v
    ty = re.sub(r"^&('[a-z_]+ )?(mut )?", "", (t.get("arg_tys") or [""] * (i + 1))[i] or "")
    if ty_range(ty) is None or k.startswith("(*"):
        return None
    sid = "m:%s" % k
    nv = an.ensure_sym(st, an.top_for(ty, sid), sid)
    st.vals[k] = nv
    return nv


def _len_of(an, st, t, i, args, sid):
    """length term of a slice-like argument; attaches a stable length symbol to container places"""
    a = args[i]
    if a.len is not None:
        return a.len
    pk = _pointee_key(an, st, t, i, args)
    if pk is not None:
        pv = st.vals.get(pk)
        if pv is not None and pv.len is not None:
            return pv.len
        lsid = "m:%s#len" % pk
        if lsid not in st.syms:
            st.syms[lsid] = (0, (1 << 63) - 1)
        nv = V(ty=pv.ty if pv else None, const=pv.const if pv else None, sym=pv.sym if pv else None, ref_to=pv.ref_to if pv else None,
               len=("s", lsid, 0), is_mut=pv.is_mut if pv else False)
        st.vals[pk] = nv
        return ("s", lsid, 0)
    return None


def _term_v(term, ty):
    if term is None:
        return V(ty=ty)
    if term[0] == "c":
        return V(ty=ty, const=term[1])
    return V(ty=ty, sym=(term[1], term[2]))


def _set(an, st, dkey, v):
    st.kill_prefix(dkey)
    if v is not None and v.key() != TOPV.key():
        st.vals[dkey] = v


def _fresh_int(an, st, ty, sid, itv):
    v = V(ty=ty, sym=(sid, 0))
    r = ty_range(ty) if ty else None
    st.syms[sid] = imeet(itv, r) if r else itv
    return v


LEN = r"(view::flex::FlexArray::len|core::slice::<impl \[T\]>::len|std::vec::Vec::<T, A>::len|core::str::<impl str>::len|std::str::<impl str>::len|smallvec::SmallVec::<A>::len|std::string::String::len|VecDeque::<T, A>::len|core::array::<impl \[T; N\]>::len)$"
IS_EMPTY = r"(core::slice::<impl \[T\]>::is_empty|std::vec::Vec::<T, A>::is_empty|<impl str>::is_empty|smallvec::SmallVec::<A>::is_empty|std::string::String::is_empty)$"
DEREF_LIKE = (r"(<smallvec::SmallVec<A> as std::ops::Deref(Mut)?>::deref(_mut)?|<std::vec::Vec<T, A> as std::ops::Deref(Mut)?>::deref(_mut)?|"
              r"std::vec::Vec::<T, A>::as_(mut_)?slice|smallvec::SmallVec::<A>::as_(mut_)?slice|<impl str>::as_bytes|std::string::String::as_(bytes|str)|"
              r"<std::string::String as std::ops::Deref>::deref|<std::vec::Vec<T, A> as std::convert::AsRef<\[T\]>>::as_ref|<\[T\] as std::convert::AsRef<\[T\]>>::as_ref|"
              r"<std::vec::Vec<T, A> as std::borrow::Borrow<\[T\]>>::borrow|core::array::<impl \[T; N\]>::as_(mut_)?slice|<&T as std::ops::Deref>::deref|<&mut T as std::ops::Deref(Mut)?>::deref(_mut)?|"
              r"<&T as std::convert::AsRef<U>>::as_ref|<\[T; N\] as std::convert::AsRef<\[T\]>>::as_ref|core::slice::<impl \[T\]>::as_(mut_)?ptr|<str as std::convert::AsRef<\[u8\]>>::as_ref)$")
INDEX = r"(impl std::ops::Index(Mut)?<I> for \[T\]>::index(_mut)?|impl std::ops::Index(Mut)?<I> for std::vec::Vec<T, A>>::index(_mut)?|impl std::ops::Index(Mut)?<I> for str>::index(_mut)?|smallvec::SmallVec<A> as std::ops::Index(Mut)?<I>>::index(_mut)?|std::array::<impl std::ops::Index(Mut)?<I> for \[T; N\]>::index(_mut)?|str::traits::<impl std::ops::Index<I> for str>::index)$"
TRY_BRANCH = r"as std::ops::Try>::branch$"
INTO_ITER_ID = r"(<I as std::iter::IntoIterator>::into_iter|<T as std::convert::Into<U>>::into|<T as std::convert::From<T>>::from)$"
RANGE_NEXT = r"(impl std::iter::Iterator for std::ops::Range<A>>::next|<std::ops::Range<T> as std::iter::Iterator>::next)$"
RANGEINC_NEXT = r"(impl std::iter::Iterator for std::ops::RangeInclusive<A>>::next)$"
UNWRAP = r"^std::(option::Option::<T>|result::Result::<T, E>)::(unwrap|expect|unwrap_unchecked)$"
UNWRAP_OR = r"^std::(option::Option::<T>|result::Result::<T, E>)::unwrap_or$"
MINMAX = r"^(std::cmp::(min|max)|std::cmp::Ord::(min|max)|std::cmp::impls::<impl std::cmp::Ord for (usize|u8|u16|u32|u64|i32|i64|isize)>::(min|max))$"
CLAMP = r"(std::cmp::Ord::clamp|impl std::cmp::Ord for (usize|u8|u16|u32|u64|i32|i64|isize)>::clamp)$"
INT_METHOD = r"^(core|std)::num::<impl (usize|u8|u16|u32|u64|u128|i8|i16|i32|i64|isize)>::(\w+)$"


def range_terms(an, st, key, rty):
    """(start_term, end_term_exclusive or None) from the subkeys of a range aggregate; None when unknown"""
    def g(n):
        v = st.vals.get(key + "." + n)
        return st.term(v) if v is not None else None
    if "RangeInclusive" in rty:
        s, e = g("start"), g("end")
        if e is not None:
            e = ("c", e[1] + 1) if e[0] == "c" else ("s", e[1], e[2] + 1)
        return s, e, "incl"
    if "RangeFrom" in rty:
        return g("start"), None, "from"
    if "RangeToInclusive" in rty:
        e = g("end")
        if e is not None:
            e = ("c", e[1] + 1) if e[0] == "c" else ("s", e[1], e[2] + 1)
        return ("c", 0), e, "toincl"
    if "RangeTo" in rty:
        return ("c", 0), g("end"), "to"
    if "RangeFull" in rty:
        return ("c", 0), None, "full"
    if "Range" in rty:
        return g("start"), g("end"), "range"
    return None, None, None


def tsub(st, a, b):
    """term a - b if expressible"""
    if a is None or b is None:
        return None
    if a[0] == "s" and a[1] in st.exprs and st.exprs[a[1]][0] == "add":
        _, x, y = st.exprs[a[1]]
        if x == b:
            return ("c", y[1] + a[2]) if y[0] == "c" else ("s", y[1], y[2] + a[2])
        if y == b:
            return ("c", x[1] + a[2]) if x[0] == "c" else ("s", x[1], x[2] + a[2])
    if b[0] == "c":
        return ("c", a[1] - b[1]) if a[0] == "c" else ("s", a[1], a[2] - b[1])
    if a[0] == "s" and a[1] == b[1]:
        return ("c", a[2] - b[2])
    return None


OP_TRAIT = re.compile(r"^<&?(?:'\w+ )?(u8|u16|u32|u64|u128|usize|i8|i16|i32|i64|i128|isize) as std::ops::(Shr|Shl|BitAnd|BitOr|BitXor|Add|Sub|Mul|Div|Rem)<&?(?:'\w+ )?(\w+)>>::\w+$")


def op_trait_operands(an, st, t, args, sid="ot"):
    """(op, int type, a, b) for `<&u8 as Sub<u8>>::sub(x, y)`-style operator calls on (references to) primitive integers"""
    mo = None
    for n in callee_names(t):
        mo = mo or OP_TRAIT.match(n)
    if not mo or len(args) != 2:
        return None
    ity, opn = mo.group(1), mo.group(2)

    def deref_val(i):
        a = args[i]
        if (t["arg_tys"][i] or "").startswith("&"):
            pk = _pointee_key(an, st, t, i, args)
            v = st.vals.get(pk) if pk else None
            if v is None:
                v = an.ensure_sym(st, an.top_for(re.sub(r"^&('\w+ )?(mut )?", "", t["arg_tys"][i]), sid + "d%d" % i), sid)
            return v
        return a
    return opn, ity, deref_val(0), deref_val(1)


def apply(an, st, t, args, dkey, dty, sid):
    f = t["fn"]
    if f.get("path") is None:
        return None
    names = callee_names(t)

    def m(p):
        return any(re.search(p, n) for n in names)

    # ---- lengths ------------------------------------------------------------------------------------
    if m(LEN):
        lt = _len_of(an, st, t, 0, args, sid)
        v = _term_v(lt, "usize") if lt is not None else _fresh_int(an, st, "usize", sid, (0, (1 << 63) - 1))
        _set(an, st, dkey, v)
        return HANDLED
    if m(IS_EMPTY):
        lt = _len_of(an, st, t, 0, args, sid)
        v = V(ty="bool")
        if lt is not None:
            v.cond = ("Eq", lt, ("c", 0))
            r = an.decide(st, "Eq", lt, ("c", 0))
            if r is not None:
                v.const = 1 if r else 0
        _set(an, st, dkey, v)
        return HANDLED
    if m(DEREF_LIKE):
        lt = _len_of(an, st, t, 0, args, sid)
        v = V(ty=dty, len=lt)
        _set(an, st, dkey, v)
        return HANDLED
    # ---- indexing with ranges ------------------------------------------------------------------------------
    if m(INDEX) and len(t["args"]) == 2:
        rty = t["arg_tys"][1]
        lt = _len_of(an, st, t, 0, args, sid)
        if "Range" in rty:
            rk = _argkey(an, st, t, 1)
            s, e, kind = range_terms(an, st, rk, rty) if rk else (None, None, None)
            if e is None and kind in ("from", "full"):
                e = lt
            nl = tsub(st, e, s)
            v = V(ty=dty)
            if nl is not None:
                v.len = nl
            else:
                lsid = sid + "#len"
                hi = st.itv_term(lt)[1] if lt is not None else (1 << 63) - 1
                st.syms[lsid] = (0, hi)
                v.len = ("s", lsid, 0)
                if e is not None and s is not None:
                    ie, is_ = st.itv_term(e), st.itv_term(s)
                    st.syms[lsid] = imeet(st.syms[lsid], (max(0, ie[0] - is_[1]), ie[1] - is_[0]))
                    if e[0] == "s" and s[0] == "s":
                        st.exprs[lsid] = ("sub", e, s)
            _set(an, st, dkey, v)
            return HANDLED
        _set(an, st, dkey, V(ty=dty))
        return HANDLED
    # ---- Try / Option plumbing ---------------------------------------------------------------------------------
    if m(TRY_BRANCH):
        ak = _argkey(an, st, t, 0)
        st.kill_prefix(dkey)
        if ak is not None:
            vs = st.variants.get(ak)
            mp = {"Some": "Continue", "None": "Break", "Ok": "Continue", "Err": "Break"}
            if vs is not None:
                st.variants[dkey] = frozenset(mp.get(x, x) for x in vs)
            for good in ("Some", "Ok"):
                src = "(%s as %s).0" % (ak, good)
                dst = "(%s as Continue).0" % dkey
                if any(k == src or k.startswith(src + ".") or k.startswith("(" + src + " as ") for k in list(st.vals) + list(st.variants)):
                    st.copy_prefix(src, dst)
        return HANDLED
    if m(INTO_ITER_ID) or m(r"^std::iter::Iterator::(by_ref)$"):
        ak = _argkey(an, st, t, 0)
        if ak is not None:
            st.kill_prefix(dkey)
            st.copy_prefix(ak, dkey)
            if args[0].key() != TOPV.key():
                st.vals[dkey] = args[0]
            return HANDLED
        return None
    if m(UNWRAP):
        ak = _argkey(an, st, t, 0)
        st.kill_prefix(dkey)
        if ak is not None:
            for good in ("Some", "Ok"):
                src = "(%s as %s).0" % (ak, good)
                if any(k == src or k.startswith(src + ".") or k.startswith("(" + src + " as ") for k in list(st.vals) + list(st.variants)):
                    st.copy_prefix(src, dkey)
        if dkey not in st.vals:
            v = an.ensure_sym(st, an.top_for(dty, sid), sid)
            if v.key() != TOPV.key():
                st.vals[dkey] = v
        return HANDLED
    if m(UNWRAP_OR):
        ak = _argkey(an, st, t, 0)
        pv = None
        if ak is not None:
            for good in ("Some", "Ok"):
                pv = pv or st.vals.get("(%s as %s).0" % (ak, good))
        dv = args[1]
        if ty_range(dty or "") is not None:
            it = ijoin(st.itv(pv) if pv is not None else ty_range(dty), st.itv(dv))
            _set(an, st, dkey, _fresh_int(an, st, dty, sid, it))
            return HANDLED
        return None
    # ---- range iteration -------------------------------------------------------------------------------------------
    if m(RANGE_NEXT) or m(RANGEINC_NEXT):
        rk = _pointee_key(an, st, t, 0, args)
        st.kill_prefix(dkey)
        if rk is not None:
            sv = st.vals.get(rk + ".start")
            ev = st.vals.get(rk + ".end")
            it_s = st.itv(sv) if sv is not None else (-INF, INF)
            it_e = st.itv(ev) if ev is not None else (-INF, INF)
            incl = 0 if m(RANGE_NEXT) else 1
            ity = None
            mm = re.search(r"Range(Inclusive)?<(\w+)>", t["arg_tys"][0])
            if mm:
                ity = mm.group(2)
            psid = sid + "#item"
            st.syms[psid] = clip((it_s[0], it_e[1] - 1 + incl), ity) if ity else (it_s[0], it_e[1] - 1 + incl)
            et = st.term(ev) if ev is not None else None
            if et is not None and et[0] == "s":
                st.diffs[(psid, et[1])] = et[2] - 1 + incl
            stt = st.term(sv) if sv is not None else None
            if stt is not None and stt[0] == "s":
                # item >= start_before
                st.diffs[(stt[1], psid)] = -stt[2]
            st.vals["(%s as Some).0" % dkey] = V(ty=ity, sym=(psid, 0))
            # the iterator advances: start becomes item+1 (only its lower bound is kept)
            nsid = sid + "#start"
            st.syms[nsid] = (it_s[0], max(it_e[1], it_s[1]) + incl if it_e[1] != INF else INF)
            st.kill_prefix(rk + ".start")
            st.vals[rk + ".start"] = V(ty=ity, sym=(nsid, 0))
        return HANDLED
    # ---- min / max / clamp -----------------------------------------------------------------------------------------------
    if m(MINMAX) and len(args) == 2:
        ia, ib = st.itv(args[0]), st.itv(args[1])
        is_min = any(n.endswith("min") for n in names)
        it = (min(ia[0], ib[0]), min(ia[1], ib[1])) if is_min else (max(ia[0], ib[0]), max(ia[1], ib[1]))
        ty = dty if ty_range(dty or "") else None
        if ty is None:
            return None
        v = _fresh_int(an, st, ty, sid, it)
        for a in args:
            ta = st.term(a)
            if ta is not None and ta[0] == "s":
                if is_min:
                    st.diffs[(sid, ta[1])] = ta[2]
                else:
                    st.diffs[(ta[1], sid)] = -ta[2]
        _set(an, st, dkey, v)
        return HANDLED
    if m(CLAMP) and len(args) == 3 and ty_range(dty or ""):
        ix, il, ih = st.itv(args[0]), st.itv(args[1]), st.itv(args[2])
        it = (max(ix[0], il[0]), min(ix[1], ih[1]))
        if it[0] > it[1]:
            it = (il[0], ih[1])
        it = imeet((il[0], ih[1]), (min(it[0], ih[1]), max(it[1], il[0])))
        v = _fresh_int(an, st, dty, sid, it)
        tl, th = st.term(args[1]), st.term(args[2])
        if th is not None and th[0] == "s":
            st.diffs[(sid, th[1])] = th[2]
        if tl is not None and tl[0] == "s":
            st.diffs[(tl[1], sid)] = -tl[2]
        _set(an, st, dkey, v)
        return HANDLED
    # ---- integer methods ----------------------------------------------------------------------------------------------------
    mm = None
    for n in names:
        mm = mm or re.search(INT_METHOD, n)
    if mm:
        ity, meth = mm.group(2), mm.group(3)
        r = ty_range(ity)
        ia = st.itv(args[0]) if args else r
        ib = st.itv(args[1]) if len(args) > 1 else None
        if meth in ("saturating_sub", "saturating_add", "saturating_mul"):
            from .absint import imul
            it = {"saturating_sub": isub, "saturating_add": iadd, "saturating_mul": imul}[meth](ia, ib)
            it = (min(max(it[0], r[0]), r[1]), min(max(it[1], r[0]), r[1]))
            v = _fresh_int(an, st, ity, sid, it)
            ta = st.term(args[0])
            if meth == "saturating_sub" and ta is not None and ta[0] == "s" and ib[0] >= 0:
                st.diffs[(sid, ta[1])] = ta[2]
            _set(an, st, dkey, v)
            return HANDLED
        if meth in ("checked_sub", "checked_add", "checked_mul", "checked_div", "checked_rem"):
            from .absint import imul, idiv
            if meth == "checked_div":
                it = idiv(ia, (max(ib[0], 1), ib[1])) if ib[0] >= 0 and ib[1] >= 1 else r
            elif meth == "checked_rem":
                it = (0, ib[1] - 1) if ib[0] >= 0 and ia[0] >= 0 else r
            else:
                it = {"checked_sub": isub, "checked_add": iadd, "checked_mul": imul}[meth](ia, ib)
            it = imeet(it, r)
            st.kill_prefix(dkey)
            psid = sid + "#p"
            st.syms[psid] = it if it[0] <= it[1] else r
            st.vals["(%s as Some).0" % dkey] = V(ty=ity, sym=(psid, 0))
            ta = st.term(args[0])
            if meth == "checked_sub" and ta is not None and ta[0] == "s" and ib[0] >= 0:
                st.diffs[(psid, ta[1])] = ta[2] - ib[0]
            return HANDLED
        if meth in ("wrapping_sub", "wrapping_add", "wrapping_mul", "wrapping_neg", "wrapping_shl", "wrapping_shr", "pow", "abs_diff", "count_ones", "leading_zeros", "trailing_zeros", "rotate_left", "rotate_right", "swap_bytes", "to_be", "to_le"):
            v = _fresh_int(an, st, ity if meth not in ("count_ones", "leading_zeros", "trailing_zeros") else "u32", sid, (0, 128) if meth in ("count_ones", "leading_zeros", "trailing_zeros") else r)
            _set(an, st, dkey, v)
            return HANDLED
        if meth in ("min", "max") and ib is not None:
            is_min = meth == "min"
            it = (min(ia[0], ib[0]), min(ia[1], ib[1])) if is_min else (max(ia[0], ib[0]), max(ia[1], ib[1]))
            v = _fresh_int(an, st, ity, sid, it)
            for a in args:
                ta = st.term(a)
                if ta is not None and ta[0] == "s":
                    if is_min:
                        st.diffs[(sid, ta[1])] = ta[2]
                    else:
                        st.diffs[(ta[1], sid)] = -ta[2]
            _set(an, st, dkey, v)
            return HANDLED
        if meth in ("rem_euclid", "div_euclid") and ib is not None and ib[0] > 0 and ib[1] != INF:
            # positive divisor: 0 <= a.rem_euclid(m) < m ; a.div_euclid(m) lies between a/m rounded down for the interval ends
            if meth == "rem_euclid":
                v = _fresh_int(an, st, ity, sid, (0, ib[1] - 1))
                tb = st.term(args[1])
                if tb is not None and tb[0] == "s":
                    st.diffs[(sid, tb[1])] = tb[2] - 1
            else:
                lo = ia[0] // ib[0] if ia[0] != -INF and ia[0] >= 0 else (ia[0] if ia[0] != -INF else r[0])
                hi = ia[1] // ib[0] if ia[1] != INF and ia[1] >= 0 else (0 if ia[1] != INF else r[1])
                v = _fresh_int(an, st, ity, sid, (max(lo, r[0]) if lo != -INF else r[0], min(hi, r[1])))
            _set(an, st, dkey, v)
            return HANDLED
        if meth == "clamp" and len(args) == 3:
            il, ih = st.itv(args[1]), st.itv(args[2])
            v = _fresh_int(an, st, ity, sid, (il[0], ih[1]))
            tl, th = st.term(args[1]), st.term(args[2])
            if th is not None and th[0] == "s":
                st.diffs[(sid, th[1])] = th[2]
            if tl is not None and tl[0] == "s":
                st.diffs[(tl[1], sid)] = -tl[2]
            _set(an, st, dkey, v)
            return HANDLED
        if meth == "from_str_radix":
            st.kill_prefix(dkey)
            lt = _len_of(an, st, t, 0, args, sid)
            radix = args[1].const
            psid = sid + "#p"
            st.syms[psid] = r
            pv = V(ty=ity, sym=(psid, 0))
            if lt is not None and radix:
                pv.lazy = ("pow", lt, radix)
            st.vals["(%s as Ok).0" % dkey] = pv
            return HANDLED
        if meth in ("div_ceil", "div_euclid", "rem_euclid", "isqrt", "ilog2", "ilog10", "abs", "signum", "unsigned_abs", "is_power_of_two", "next_power_of_two"):
            return None
    # ---- payload-preserving Option/Result conversions ---------------------------------------------------------------------------
    conv = None
    if m(r"^std::result::Result::<T, E>::ok$"):
        conv = {"Ok": "Some", "Err": "None"}
    elif m(r"^std::option::Option::<T>::(ok_or|ok_or_else)$"):
        conv = {"Some": "Ok", "None": "Err"}
    elif m(r"^std::result::Result::<T, E>::(map_err|or_else)$"):
        conv = {"Ok": "Ok", "Err": "Err"}
    elif m(r"^std::option::Option::<T>::(or_else|or|take|filter)$") and False:
        conv = None
    if conv is not None:
        ak = _argkey(an, st, t, 0)
        st.kill_prefix(dkey)
        if ak is not None:
            vs = st.variants.get(ak)
            if vs is not None:
                st.variants[dkey] = frozenset(conv.get(x, x) for x in vs)
            for good in ("Some", "Ok"):
                if good in conv and conv[good] in ("Some", "Ok"):
                    src = "(%s as %s).0" % (ak, good)
                    dst = "(%s as %s).0" % (dkey, conv[good])
                    if any(k == src or k.startswith(src + ".") or k.startswith("(" + src + " as ") for k in list(st.vals) + list(st.variants)):
                        st.copy_prefix(src, dst)
        return HANDLED
    # ---- slice predicates ------------------------------------------------------------------------------------------------------------
    if m(r"(core::slice::<impl \[T\]>::(ends_with|starts_with)|<impl str>::(ends_with|starts_with))$") and len(args) == 2:
        l0 = _len_of(an, st, t, 0, args, sid)
        l1 = args[1].len
        v = V(ty="bool")
        if l0 is not None and l1 is not None:
            v.cond = ("T:Ge", l0, l1)
        _set(an, st, dkey, v)
        return HANDLED
    if m(r"(RangeInclusive<Idx>>::contains|Range<Idx>>::contains|std::ops::RangeInclusive::<Idx>::contains|std::ops::Range::<Idx>::contains|std::ops::RangeBounds::contains)$") and len(args) == 2:
        rk = _pointee_key(an, st, t, 0, args)
        xv = _pointee_int(an, st, t, 1, args)
        v = V(ty="bool")
        if rk is not None and xv is not None and st.term(xv) is not None:
            s_, e_, kind = range_terms(an, st, rk, t["arg_tys"][0])
            x = st.term(xv)
            if s_ is not None and e_ is not None:
                lo_c, hi_c = ("Ge", x, s_), ("Lt", x, e_)
                # a bound written as a negation (`-size..size`): x >= -(t)  <=>  x + t >= 0, kept as a sum constraint
                sv = st.vals.get(rk + ".start")
                ev = st.vals.get(rk + ".end")
                if x[0] == "s" and sv is not None and sv.negof is not None and sv.negof[0] == "s":
                    lo_c = ("SGe", x, sv.negof)
                if x[0] == "s" and kind == "range" and ev is not None and ev.negof is not None and ev.negof[0] == "s":
                    hi_c = ("SLt", x, ev.negof)
                v.cond = ("And", lo_c, hi_c)
        _set(an, st, dkey, v)
        return HANDLED
    # ---- membership in a literal const table: `TABLE.contains(&x)` --------------------------------------------------------------------
    if m(r"core::slice::<impl \[T\]>::contains$") and len(args) == 2:
        pk = _pointee_key(an, st, t, 0, args)
        tdef = None
        if pk is not None and pk.startswith("const:"):
            tdef = pk[6:]
        elif pk is not None and st.vals.get(pk) is not None:
            tdef = st.vals[pk].tbl
        vals = (getattr(an.prog, "const_vals", None) or {}).get(tdef) if tdef else None
        xv = _pointee_int(an, st, t, 1, args)
        v = V(ty="bool")
        if vals and xv is not None and st.term(xv) is not None and st.term(xv)[0] == "s":
            v.cond = ("In", st.term(xv), frozenset(vals))
        _set(an, st, dkey, v)
        return HANDLED
    # ---- surface::ViewBounds::view_bounds: Some((s, e)) => s < e <= size   (postcondition proven by check C08) ---------------------
    if m(r"^surface::ViewBounds::view_bounds$|as surface::ViewBounds>::view_bounds$") and len(args) == 2:
        st.kill_prefix(dkey)
        ssid, esid = sid + "#s", sid + "#e"
        szi = st.itv(args[1])
        hi = szi[1] if szi[1] != INF else (1 << 63) - 1
        st.syms[ssid] = (0, max(hi - 1, 0))
        st.syms[esid] = (1, hi)
        st.diffs[(ssid, esid)] = -1
        tsz = st.term(args[1])
        if tsz is not None and tsz[0] == "s":
            st.diffs[(esid, tsz[1])] = tsz[2]
        st.vals["(%s as Some).0.0" % dkey] = V(ty="usize", sym=(ssid, 0))
        st.vals["(%s as Some).0.1" % dkey] = V(ty="usize", sym=(esid, 0))
        return HANDLED
    # ---- std::io::Read contract: Ok(n) => n <= buf.len() --------------------------------------------------------------------------
    if m(r"^std::io::Read::read$|as std::io::Read>::read$") and len(args) == 2:
        st.kill_prefix(dkey)
        pk = _pointee_key(an, st, t, 0, args)
        if pk and args[0].is_mut:
            st.kill_prefix(pk)
        lt = _len_of(an, st, t, 1, args, sid)
        psid = sid + "#n"
        hi = st.itv_term(lt)[1] if lt is not None else (1 << 63) - 1
        st.syms[psid] = (0, hi)
        st.vals["(%s as Ok).0" % dkey] = V(ty="usize", sym=(psid, 0))
        if lt is not None and lt[0] == "s":
            st.diffs[(psid, lt[1])] = lt[2]
        return HANDLED
    # ---- Enumerate over an in-memory sequence: the index is below the element count, which is at most isize::MAX ---------------
    if m(r"^<std::iter::Enumerate<I> as std::iter::Iterator>::next$") and t.get("arg_tys") and \
            re.search(r"Enumerate<(std::slice::(Iter|IterMut|Chunks|ChunksExact|ChunksMut|Windows)<|std::vec::IntoIter<|std::str::(Chars|Bytes|CharIndices|Split)<|smallvec::|std::collections::)", t["arg_tys"][0]):
        st.kill_prefix(dkey)
        isid = sid + "#idx"
        st.syms[isid] = (0, (1 << 63) - 2)
        st.vals["(%s as Some).0.0" % dkey] = V(ty="usize", sym=(isid, 0))
        return HANDLED
    # ---- u8 / char class predicates: on the true edge the value lies in the class's range ------------------------------------------
    mcls = None
    for n in names:
        mcls = mcls or re.search(r"<impl (u8|char)>::(is_ascii_digit|is_ascii_uppercase|is_ascii_lowercase|is_ascii)$", n)
    if mcls and args:
        rng = {"is_ascii_digit": (48, 57), "is_ascii_uppercase": (65, 90), "is_ascii_lowercase": (97, 122), "is_ascii": (0, 127)}[mcls.group(2)]
        x = args[0]
        if x.ref_to is not None:
            x = st.vals.get(x.ref_to) or V()
        tx = st.term(x)
        v = V(ty="bool")
        if tx is not None:
            v.cond = ("And", ("Ge", tx, ("c", rng[0])), ("Le", tx, ("c", rng[1])))
        _set(an, st, dkey, v)
        return HANDLED
    # ---- widening integer conversions keep the value ---------------------------------------------------------------------------------------
    mfrom = None
    for n in names:
        mfrom = mfrom or re.search(r"<impl std::convert::From<(u8|u16|u32|bool|char)> for (u16|u32|u64|u128|usize|i16|i32|i64|i128|isize)>::from$", n)
    if mfrom and len(args) == 1 and mfrom.group(1) not in ("char",):
        src_bits = {"bool": 1, "u8": 8, "u16": 16, "u32": 32}[mfrom.group(1)]
        dst = mfrom.group(2)
        dst_bits = 64 if dst.endswith("size") else int(re.sub(r"\D", "", dst))
        if dst_bits > src_bits or (dst_bits == src_bits and dst[0] == "u"):
            a0 = args[0]
            nv = V(ty=dst, const=a0.const, sym=a0.sym)
            if nv.const is None and nv.sym is None:
                nv = _fresh_int(an, st, dst, sid, (0, (1 << src_bits) - 1))
            _set(an, st, dkey, nv)
            return HANDLED
    # ---- slice::binary_search*: Ok(i) => i < len, Err(i) => i <= len (the closure argument only compares) -------------------------
    if m(r"core::slice::<impl \[T\]>::binary_search(_by|_by_key)?$"):
        st.kill_prefix(dkey)
        lt = _len_of(an, st, t, 0, args, sid)
        hi = st.itv_term(lt)[1] if lt is not None else (1 << 63) - 1
        if hi == INF:
            hi = (1 << 63) - 1
        oks, ers = sid + "#ok", sid + "#err"
        st.syms[oks] = (0, max(hi - 1, 0))
        st.syms[ers] = (0, hi)
        st.vals["(%s as Ok).0" % dkey] = V(ty="usize", sym=(oks, 0))
        st.vals["(%s as Err).0" % dkey] = V(ty="usize", sym=(ers, 0))
        if lt is not None and lt[0] == "s":
            st.diffs[(oks, lt[1])] = lt[2] - 1
            st.diffs[(ers, lt[1])] = lt[2]
        return HANDLED
    # ---- operator traits on (references to) primitive integers ------------------------------------------------------------------
    ot = op_trait_operands(an, st, t, args, sid)
    if ot is not None:
        opn, ity, a, b = ot
        res = an.arith(st, opn, a, b, ity, sid + "op")
        if res is not None:
            it = st.itv(res)
            if not fits(it, ity):
                res = _fresh_int(an, st, ity, sid + "w", ty_range(ity))
            else:
                res.ty = ity
        _set(an, st, dkey, res)
        return HANDLED
    # ---- char / misc --------------------------------------------------------------------------------------------------------------
    if m(r"^std::iter::Iterator::(rev|map|filter|filter_map|enumerate|zip|take_while|skip|take|chain|flatten|flat_map|peekable|copied|cloned|step_by|skip_while|fuse|inspect|scan)$"):
        # adapters take the iterator by value and do not call anything yet
        return V(ty=dty)
    return None
