"""C05 — encoded commands mean what was commanded: part (a) template agreement of `TTYEncoder::encode`
with refs/ecma48_cmds.json and framing completeness of every path (DESIGN.md §5 C05).

Part (b) (no panic on extreme values: the `-col`, `+ 1` overflow obligations) is NOT here: see `obligations`."""
import json
import os
import re

from .. import templates as T

CLAIM = {
    "text": "For each of the 27 TerminalCommand variants the output template of its TTYEncoder::encode arm (every branch valuation; helpers "
            "inlined, lets and pattern bindings substituted) equals the reference template written from ECMA-48 / xterm ctlseqs / kitty "
            "keyboard protocol: literal bytes and final bytes, hole expressions (row+1, col+1, negated deltas), format specs (two hex digits "
            "per byte for XTGETTCAP), DEC private marker, OSC/DCS framing with ST, alt-screen keyboard-level bracketing under "
            "caps.kitty_keyboard, empty output for Image/ImageErase; variant field types are those the holes assume; every path is a "
            "concatenation of complete control sequences with no non-I/O exit inside one; DecMode discriminants equal xterm's mode numbers. "
            "Not decided: the SGR parameter table (C06; only CSI..m framing and ';' joining), colour reduction (C20), absence of panics on "
            "extreme values (clause (b), hook `obligations` left for the abstract interpreter), control bytes inside Title/Char/Raw payloads, "
            "what a real terminal does beyond the reference templates.",
    "technique": "output-template extraction from the syntax tree (template language per path), comparison with hand-written reference "
                 "templates over all branch valuations, ECMA-48 framing automaton on templates, enum discriminant table",
    "design_ref": "DESIGN.md §5 C05 (a); §4 output templates, reference tables",
}

REFS = os.path.join(os.path.dirname(os.path.dirname(os.path.abspath(__file__))), "refs", "ecma48_cmds.json")

ENUM = "TerminalCommand"
ENUM_PATH = "terminal::TerminalCommand"
N_VARIANTS = 27      # counted by hand in src/terminal.rs on the pinned tree
N_DECMODES = 9


def load_refs():
    d = json.load(open(REFS))
    rows = {}
    for r in d["commands"]:
        if r["variant"] in rows:
            raise ValueError("duplicate reference row " + r["variant"])
        alts = r["any_of"] if "any_of" in r else [r["template"]]
        r["_alts"] = [T.ref_template(a) for a in alts]
        rows[r["variant"]] = r
    return d, rows


def field_type(prog, refs, variant, path):
    """type of `$.a.b` for a variant of TerminalCommand from the MIR ADT facts"""
    adt = prog.adts.get(ENUM_PATH)
    v = [x for x in adt["variants"] if x["name"] == variant]
    if not v:
        return None
    parts = path.split(".")[1:]
    fields = {f["name"]: f["ty"] for f in v[0]["fields"]}
    ty = None
    for i, p in enumerate(parts):
        if p not in fields:
            return None
        ty = fields[p]
        if i + 1 < len(parts):
            a = prog.adts.get(ty)
            if a is None:
                return None
            if a["kind"] == "Struct":
                fields = {f["name"]: f["ty"] for f in a["variants"][0]["fields"]}
            else:
                # payload of an enum: `$.name.0` -> the single variant that has such a field
                cands = [vv for vv in a["variants"] if any(f["name"] == parts[i + 1] for f in vv["fields"])]
                if len(cands) != 1:
                    return None
                fields = {f["name"]: f["ty"] for f in cands[0]["fields"]}
    return ty


def make_resolver(src, impl_self):
    st = src.struct(impl_self)
    ftypes = {}
    if st:
        for f in st[1]["fields"]:
            ftypes[f["name"]] = re.sub(r"^&(mut)?", "", f["ty"])

    def resolver(call):
        if call.recv == "self":
            return src.fn(call.name, impl_self=re.escape(impl_self))
        m = re.match(r"^self\.(\w+)$", call.recv or "")
        if m and m.group(1) in ftypes:
            return src.fn(call.name, impl_self=re.escape(ftypes[m.group(1)]))
        return None
    return resolver


def pattern_cases(pat):
    """[(variant name or None for catch-all, case pattern)]"""
    k = pat.get("k")
    if k == "or":
        out = []
        for c in pat["cases"]:
            out += pattern_cases(c)
        return out
    if k in ("tstruct", "struct"):
        return [(pat["path"].split("::")[-1], pat)]
    if k == "path":
        return [(pat["p"].split("::")[-1], pat)]
    if k == "ident" and not pat.get("sub"):
        if pat["name"][:1].isupper():
            return [(pat["name"], pat)]
        return [(None, pat)]
    if k == "wild":
        return [(None, pat)]
    raise T.Unsupported("arm pattern %s" % T.pat_text(pat))


def check_complete(t, where, report):
    """every valuation of template t is a concatenation of complete sequences / ground text"""
    n = 0
    for val in T.valuations([t]):
        try:
            atoms = T.evaluate(t, val)
        except T.Undefined:
            continue
        n += 1
        for a in atoms:
            if isinstance(a, T.Call):
                report("unresolved-helper", "helper call %s receives the sink and could not be inlined" % a.text(), a.line)

        def nested(a):
            for b in ([a.sep, a.item] if isinstance(a, T.Join) else [a.body]):
                check_complete(b, where, report)
        try:
            T.split_sequences(atoms, nested_ground=nested)
        except T.Malformed as e:
            report(e.reason, "under [%s] the arm writes %s: %s" % (T.val_text(val), T.seq_text(atoms), e), None)
    return n


def run(ctx):
    src, prog = ctx.src, ctx.prog
    ctx.explanation = (
        "Decides C05(a): for every variant of TerminalCommand the output template of its `TTYEncoder::encode` arm (helpers kitty_level and "
        "Chunks::drain inlined, immutable lets and pattern bindings substituted) equals the reference template written from ECMA-48 / xterm "
        "ctlseqs / kitty keyboard protocol on every valuation of the branch conditions: literal bytes, hole expressions (row+1, col+1, "
        "negation on the Less branches, final bytes), format specs (two-digit hex for XTGETTCAP), DEC private marker, OSC/DCS framing; the "
        "declared field types of the variants are those the decimal/Display holes assume; every path is a concatenation of complete "
        "control sequences with no non-I/O failure exit inside a sequence; DecMode discriminants equal the xterm mode numbers. "
        "NOT decided: the SGR parameter table of Face/FaceModify (C06; only CSI..m framing and ';' joining here), colour depth reduction "
        "(C20), absence of panics on extreme values (part (b), pending the abstract interpreter), behaviour of a real terminal beyond "
        "the reference templates, control bytes inside Title/Char/Raw payloads.")
    ctx.assume("I/O errors of the sink abort the command: Err paths of write!/write_all are not part of the template language")
    ctx.assume("functions called inside hole expressions are pure; Display of usize/i32/char/String/RGBA is the std/rasterize one")
    ctx.trust("refs/ecma48_cmds.json", "reference templates written by hand from ECMA-48 5th ed., xterm ctlseqs, kitty keyboard protocol")

    ctx.rule("TEMPLATE", "encode arm template == reference template (per TerminalCommand variant, every branch valuation)", floor=N_VARIANTS)
    ctx.rule("COMPLETE", "every path of an encode arm is a concatenation of complete control sequences (no exit inside a sequence)", floor=N_VARIANTS)
    ctx.rule("DECMODE", "DecMode discriminants == xterm DECSET/DECRST mode numbers; KEYBOARD_LEVEL within the kitty flag range", floor=N_DECMODES + 1)

    try:
        refdoc, rows = load_refs()
    except Exception as e:  # malformed reference table: fail closed
        ctx.anchor("TEMPLATE", "refs/ecma48_cmds.json", "reference table unreadable: %s" % e)
        return

    # ---------------- variants ------------------------------------------------------------------
    en = src.enum(ENUM)
    mv = prog.enum_variants(ENUM_PATH)
    if en is None or mv is None:
        ctx.anchor("TEMPLATE", "enum-TerminalCommand")
        return
    variants = [v["name"] for v in en[1]["variants"]]
    if variants != [n for n, _ in mv]:
        ctx.anchor("TEMPLATE", "enum-TerminalCommand", "src.json and mir.json disagree on the variants of TerminalCommand")
        return

    r = src.fn("encode", impl_self="TTYEncoder", impl_trait="Encoder")
    if r is None:
        ctx.anchor("TEMPLATE", "TTYEncoder::encode")
        return
    file, fn = r
    where = "<encoder::TTYEncoder as encoder::Encoder>::encode"
    try:
        ex = T.Extractor(src, file, fn)
        others = [p["pat"]["name"] for p in fn["sig"]["inputs"] if p.get("pat") and p["pat"].get("name") and p["pat"]["name"] not in ex.sinks]
        if len(others) != 1:
            raise T.Unsupported("encode has parameters %s besides self and the sink" % others)
        cmd = others[0]
        m = ex.match_arms(cmd)
    except T.Unsupported as e:
        ctx.anchor("TEMPLATE", "TTYEncoder::encode", "encode is not `match cmd {..}` over a sink: %s" % e)
        return

    arm_of = {}
    catch_all = None
    try:
        for arm in m["arms"]:
            for name, case in pattern_cases(arm["pat"]):
                if name is None:
                    if catch_all is None:
                        catch_all = (arm, case)
                elif name not in arm_of and catch_all is None:
                    arm_of[name] = (arm, case)
    except T.Unsupported as e:
        ctx.anchor("TEMPLATE", "TTYEncoder::encode", str(e))
        return

    resolver = make_resolver(src, "TTYEncoder")
    enumerated = 0
    for v in variants:
        got = arm_of.get(v) or catch_all
        line = None
        sites = []
        if got is None:
            ctx.instance("TEMPLATE", {"variant": v, "arm": None})
            ctx.violation("TEMPLATE", v, "no-arm", "no arm of encode handles %s" % v, sites=["%s:%d" % (file, m["line"])])
            continue
        arm, case = got
        sites = ["%s:%d" % (file, arm["line"])]
        if arm.get("guard") is not None:
            ctx.instance("TEMPLATE", {"variant": v})
            ctx.violation("TEMPLATE", v, "unsupported-construct", "arm of %s has a guard" % v, sites=sites)
            continue
        try:
            t = ex.arm_template(case, arm["body"], T.mkpath("$"))
            t = T.inline_calls(t, resolver, src)
        except T.Unsupported as e:
            ctx.instance("TEMPLATE", {"variant": v})
            ctx.instance("COMPLETE", {"variant": v})
            ctx.violation("TEMPLATE", v, "unsupported-construct", "the arm of %s uses a construct outside the template subset (fail closed): %s" % (v, e), sites=sites)
            continue
        enumerated += 1
        row = rows.get(v)
        if row is None:
            ctx.instance("TEMPLATE", {"variant": v, "template": t.text()})
            ctx.violation("TEMPLATE", v, "no-reference", "TerminalCommand::%s has no row in refs/ecma48_cmds.json; its arm writes %s" % (v, t.text() or "(nothing)"), sites=sites)
        else:
            try:
                ms, n = T.compare(t, row["_alts"])
            except T.Unsupported as e:
                ms, n = None, 0
                ctx.violation("TEMPLATE", v, "unsupported-construct", str(e), sites=sites)
            ctx.instance("TEMPLATE", {"variant": v, "reference": row["name"], "template": t.text()[:300], "valuations": n})
            for mm in ms or []:
                ctx.violation("TEMPLATE", v, mm.shape,
                              "%s (%s): %s; reference: %s" % (v, row["name"], mm, row["cite"]), sites=sites,
                              detail={"valuation": mm.val, "expected": mm.expected, "found": mm.actual})
            if ms is not None and n == 0:
                ctx.violation("TEMPLATE", v, "structure", "no branch valuation on which both the arm and the reference are defined", sites=sites)
            for path, ty in sorted(row.get("types", {}).items()):
                have = field_type(prog, refdoc, v, path)
                if have != ty:
                    ctx.violation("TEMPLATE", v, "field-type",
                                  "%s: the reference template assumes %s: %s but the variant declares %s" % (v, path, ty, have), sites=sites)

        def report(reason, msg, ln, v=v, sites=sites):
            ctx.violation("COMPLETE", v, reason, "%s: %s" % (v, msg), sites=sites if ln is None else ["%s:%s" % (file, ln)])
        try:
            nval = check_complete(t, v, report)
        except T.Unsupported as e:
            nval = 0
            ctx.violation("COMPLETE", v, "unsupported-construct", str(e), sites=sites)
        ctx.instance("COMPLETE", {"variant": v, "valuations": nval})
        # informational: string-typed payloads inside control strings are passed through unescaped
        for a in T.atoms_in(t):
            if isinstance(a, T.Hole) and row is not None and row.get("types", {}).get(a.expr) == "std::string::String":
                ctx.note("%s writes the String %s unescaped inside a control string: a payload containing BEL/ESC ends the sequence early "
                         "(not reported: payload sanitising is outside the reference templates)" % (v, a.expr))
    for name in rows:
        if name not in variants:
            ctx.note("reference row %s has no variant in the repository (constrains nothing)" % name)
    ctx.exhaustive = (enumerated == len(variants))
    ctx.extra["variants"] = len(variants)

    # ---------------- DEC private mode numbers ------------------------------------------------
    dm = prog.enum_variants("terminal::DecMode")
    if dm is None:
        ctx.anchor("DECMODE", "enum-DecMode")
    else:
        want = {r["variant"]: r for r in refdoc["dec_modes"]["rows"]}
        for name, discr in dm:
            ctx.instance("DECMODE", {"mode": name, "code": discr})
            if name not in want:
                ctx.violation("DECMODE", "terminal::DecMode", "%s-no-reference" % name, "DecMode::%s = %s has no row in the reference mode table" % (name, discr))
            elif discr != want[name]["code"]:
                ctx.violation("DECMODE", "terminal::DecMode", name,
                              "DecMode::%s = %s but xterm's mode number is %d (%s)" % (name, discr, want[name]["code"], want[name]["cite"]))
    kl = src.const("KEYBOARD_LEVEL")
    val = T.canon(kl[1]["expr"]) if kl else None
    ctx.instance("DECMODE", {"const": "KEYBOARD_LEVEL", "value": val})
    if kl is None or not re.match(r"^\d+$", val or ""):
        ctx.anchor("DECMODE", "KEYBOARD_LEVEL")
    elif int(val) > refdoc["consts"]["KEYBOARD_LEVEL"]["max"]:
        ctx.violation("DECMODE", "decoder::KEYBOARD_LEVEL", "range", "KEYBOARD_LEVEL = %s exceeds the defined kitty keyboard flags (<= %d)" % (val, refdoc["consts"]["KEYBOARD_LEVEL"]["max"]))

    obligations(ctx)


def obligations(ctx):
    """HOOK for C05(b): E1 obligations over Reach(TTYEncoder::encode) (Assert/overflow/neg at `-col`, `-row`, `-count`, `pos.row + 1`,
    `pos.col + 1`, `start + 1`, `end + 1`) are to be discharged by the abstract interpreter; not implemented here."""
    pass
