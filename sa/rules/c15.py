"""C15 — compiled automata accept exactly the language of the expression (DESIGN.md §5 C15, §3, §11).

R1  wiring templates of the nine NFA combinators are READ from src/automata.rs (role dataflow, sa.grammar.read_wiring) and must equal
    Thompson's template in its fresh or in-place variant; merge_states renumbers with strictly increasing offsets; `+`/`|` delegate.
R2  shape typing of every combinator application reachable from the production grammars: an in-place start->stop ε-edge is only
    language-preserving on a clean operand (start without in-edge, stop without out-edge).
R3  every production grammar: as-built language == regex language (exact DFA equivalence, shortest counterexample); the two
    decoder automata equal the fresh union of their (as-built) members with the same tags; bounded check of the model itself.
R4  compile(): density assert on every path; is_accepting / is_terminal / tags dataflow facts (MIR); R4-TABLE: geometry of the flattened
    transition table — the stride DFA::transition multiplies the state by, the stride compile() stores and the number of entries each state
    contributes are all |alphabet| = 256 (symbols 0..=255 in order, entry j looked up as edges.get(&j)).
"""
import re
import time

from .. import grammar as G
from .. import regex as R
from ..mir import callee_name
from ..regex import Rx

CLAIM = {
    "text": "Decides, from the source and MIR of the current tree: (R1) the ε-wiring of every NFA combinator (sequence, choice, some, optional, many, "
            "From<&str>, predicate, empty, nothing) read as a template over roles equals Thompson's construction in its fresh or in-place variant, "
            "merge_states renumbers operands into disjoint increasing id ranges, `+`/`|` delegate to sequence/choice; (R2) every combinator application "
            "reachable from the grammars of decoder.rs is shape-typed and an in-place start→stop ε-edge is applied to clean operands only; (R3) for each "
            "of the production grammars (all `impl Matcher`, both decoder automata, the UTF-8 helper) the automaton as built accepts exactly the regular "
            "language of the expression (exact DFA equivalence with a shortest counterexample), never the empty input, and each decoder automaton is the "
            "tagged union of its registered members; the as-built model itself is checked exhaustively on all expressions up to 2 (quick) / 4 (thorough) "
            "operators; (R4) compile() guards every emitted table row by the density assert and assigns is_accepting/is_terminal/tags from "
            "contains(stop)/empty row/member tags; (R4-TABLE, 4 instances) DFA::transition indexes the flattened table by <stride field> * state + symbol, "
            "compile() stores a constant stride equal to the number of values of the symbol type (256), every state contributes exactly the entries for symbols "
            "0..=255 in order and entry j is edges.get(&j) of that state's edge map - so stepping on any byte stays in the row of its own state (a dead "
            "transition is None, never another state's entry). Not decided: the power-set worklist and ε-closure of compile() beyond R4, and termination.",
    "technique": "role dataflow over combinator bodies (syn AST) + own Thompson builder driven by the read templates + DFA equivalence; MIR provenance terms and must-pass for compile()",
    "design_ref": "DESIGN.md §5 C15, §3, §11",
}

AUTOMATA_MOD = "automata::NFA"


def _slug(s):
    s = re.sub(r"[^A-Za-z0-9+]+", "-", s).strip("-")
    return s[:70]


def _where(site):
    mod = re.sub(r"^src/|\.rs$", "", site.file).replace("/", "::")
    return "%s::%s" % (mod, site.fn)


# ------------------------------------------------------------------------------------------------
# MIR value expressions (provenance of an operand written as a term over calls / arguments / fresh containers)
# ------------------------------------------------------------------------------------------------
def _short_ty(t):
    return re.sub(r"\b(?:[A-Za-z_][A-Za-z0-9_]*::)+", "", t or "?")


def _short_fn(n):
    n = n or "?"
    for _ in range(4):
        n = re.sub(r"<[^<>]*>", "", n)
    segs = [x for x in n.split("::") if x]
    return "::".join(segs[-2:])


def _proj(base, proj):
    s = base
    for e in proj:
        k = e["k"]
        if k == "deref":
            s = s[1:] if s.startswith("&") else "*" + s
        elif k == "field":
            s += "." + e["name"]
        elif k == "downcast":
            s = "(%s as %s)" % (s, e["variant"])
        elif k == "index":
            s += "[_]"
        else:
            s += "<%s>" % k
    return s


def vexpr(body, x, depth=0, seen=()):
    """term describing where the operand/place x comes from (single-definition chasing)"""
    if x.get("k") == "const":
        c = x["c"]
        return str(c.get("int", c.get("text", "?")))
    place = x["place"] if "place" in x else x
    l, proj = place["l"], place["p"]
    if depth > 30 or l in seen:
        return _proj("_%d" % l, proj)
    if 0 < l <= body.arg_count:
        return _proj("arg%d" % l, proj)
    ds = body.defs_of(l)
    if len(ds) != 1:
        return _proj("_%d" % l, proj)
    bb, si, rv = ds[0]
    seen = seen + (l,)
    if si == "term":
        if not rv["args"]:
            base = "new<%s>" % _short_ty(body.local_ty(l))
        else:
            base = "%s(%s)" % (_short_fn(callee_name(rv)), ", ".join(vexpr(body, a, depth + 1, seen) for a in rv["args"]))
        return _proj(base, proj)
    k = rv["k"]
    if k == "use":
        if rv["a"]["k"] == "const":
            return _proj(vexpr(body, rv["a"]), proj)
        p2 = rv["a"]["place"]
        return vexpr(body, {"l": p2["l"], "p": p2["p"] + proj}, depth + 1, seen)
    if k == "ref":
        p2 = rv["place"]
        if proj and proj[0]["k"] == "deref":
            return vexpr(body, {"l": p2["l"], "p": p2["p"] + proj[1:]}, depth + 1, seen)
        return _proj("&" + vexpr(body, p2, depth + 1, seen), proj)
    if k == "agg":
        if rv["ak"] == "tuple" and proj and proj[0]["k"] == "field":
            return _proj(vexpr(body, rv["fields"][int(proj[0]["name"])], depth + 1, seen), proj[1:])
        if rv["ak"] == "closure":
            return _proj("closure<%s>" % rv["def"], proj)
        return _proj("%s{%s}" % (rv.get("adt", rv["ak"]), ", ".join(vexpr(body, f, depth + 1, seen) for f in rv["fields"])), proj)
    if k == "bin":
        return _proj("%s(%s, %s)" % (rv["op"], vexpr(body, rv["a"], depth + 1, seen), vexpr(body, rv["b"], depth + 1, seen)), proj)
    if k == "cast":
        return _proj(vexpr(body, rv["a"], depth + 1, seen), proj)
    return _proj("<%s>" % k, proj)


# ------------------------------------------------------------------------------------------------
# R1
# ------------------------------------------------------------------------------------------------
MUST_BE_FRESH = ("predicate", "empty", "nothing", "from", "choice")


def rule_r1(ctx, wiring):
    ctx.rule("R1-WIRING", "ε-wiring of each NFA combinator read from automata.rs equals Thompson's template (fresh or in-place variant)", floor=9)
    problems = dict()
    for c, what in wiring.problems:
        problems.setdefault(c, []).append(what)
    classes = {}
    for c in G.COMBINATORS:
        where = "%s::%s" % (AUTOMATA_MOD, c)
        line = wiring.lines.get(c)
        sites = ["%s:%s" % (G.AUTOMATA, line)] if line else []
        t = wiring.templates.get(c)
        if t is None:
            ctx.instance("R1-WIRING", {"combinator": c, "read": None, "problem": problems.get(c)})
            ctx.violation("R1-WIRING", where, "not-understood",
                          "the body of NFA::%s is outside the role-dataflow subset (fail closed): %s" % (c, "; ".join(problems.get(c, ["definition not found"]))), sites=sites)
            continue
        cl = R.classify(t)
        classes[c] = cl
        ctx.instance("R1-WIRING", {"combinator": c, "read": t.describe(), "class": cl})
        ref = R.THOMPSON[c]
        if cl is None:
            exp = " | ".join("%s: %s" % (v, ref[v].describe()) for v in ("fresh", "inplace") if ref[v] is not None)
            ctx.violation("R1-WIRING", where, "not-thompson",
                          "NFA::%s wires {%s}; Thompson's construction for it is {%s}" % (c, t.describe(), exp), sites=sites + list(t.sites))
        elif c in MUST_BE_FRESH and cl != "fresh":
            ctx.violation("R1-WIRING", where, "not-fresh", "NFA::%s must allocate its own states, read: %s" % (c, t.describe()), sites=sites)
    ctx.extra["wiring"] = {c: {"class": classes.get(c), "template": (wiring.templates[c].describe() if c in wiring.templates else None)} for c in G.COMBINATORS}

    ctx.rule("R1-MERGE", "merge_states shifts ids/edges/ε-targets/ends of operand i by an offset that grows by max_id+1 per operand", floor=14)
    where = "%s::merge_states" % AUTOMATA_MOD
    line = wiring.lines.get("merge_states")
    sites = ["%s:%s" % (G.AUTOMATA, line)] if line else []
    for fact, ok in wiring.merge["facts"].items():
        ctx.instance("R1-MERGE", {"fact": fact, "holds": ok})
        if not ok:
            ctx.violation("R1-MERGE", where, _slug(fact), "merge_states: not established: " + fact, sites=sites)
    for p in wiring.merge["problems"]:
        if p not in wiring.merge["facts"]:
            ctx.violation("R1-MERGE", where, _slug(p), "merge_states: " + p, sites=sites)

    ctx.rule("R1-DELEG", "`a + b` is NFA::sequence([a, b]) and `a | b` is NFA::choice([a, b])", floor=2)
    for op, comb in (("add", "sequence"), ("bitor", "choice")):
        got = wiring.delegations.get(op)
        ctx.instance("R1-DELEG", {"operator": op, "delegates_to": got})
        if got != comb:
            ctx.violation("R1-DELEG", "%s::%s" % (AUTOMATA_MOD, op), "delegation",
                          "operator impl `%s` does not evaluate to NFA::%s([self, rhs]) (found %s)" % (op, comb, got))

    # src/MIR agreement: the number of ε-insertions in each combinator body
    ctx.rule("R1-MIR", "MIR of each operand-taking combinator has exactly the ε-insert call sites that the source template was read from", floor=5)
    for c in ("sequence", "choice", "some", "optional", "many"):
        body = ctx.prog.one(r"^automata::NFA::<T>::%s$" % c)
        t = wiring.templates.get(c)
        if body is None:
            ctx.anchor("R1-MIR", "mir-body-of-" + c)
            continue
        n = 0
        merges = 0
        for bb, term in body.calls():
            nm = callee_name(term) or ""
            if re.search(r"BTreeSet::<T, A>::insert$", nm) and term["args"] and vexpr(body, term["args"][0]).endswith(".epsilons"):
                n += 1
            if nm.endswith("::merge_states"):
                merges += 1
        ctx.instance("R1-MIR", {"combinator": c, "mir_eps_inserts": n, "src_eps_inserts": t.extra.get("eps_inserts") if t else None, "merge_calls": merges})
        if t is not None and (n != t.extra.get("eps_inserts") or merges != (1 if t.reserve or t.arity == "nary" else 0)):
            ctx.violation("R1-MIR", "%s::%s" % (AUTOMATA_MOD, c), "src-mir-disagree",
                          "source template of NFA::%s has %s ε-insertions / merge=%s but MIR has %d / %d" % (
                              c, t.extra.get("eps_inserts"), 1 if t.reserve or t.arity == "nary" else 0, n, merges))
    return classes


# ------------------------------------------------------------------------------------------------
# R2
# ------------------------------------------------------------------------------------------------
def _flags_text(si, so):
    f = []
    if si:
        f.append("start-has-in-edge")
    if so:
        f.append("stop-has-out-edge")
    return "+".join(f) or "clean"


def rule_r2(ctx, wiring, grammars):
    ctx.rule("R2-SHAPE", "each combinator application in the grammars is typed (start-has-in-edge, stop-has-out-edge); in-place start→stop needs a clean operand", floor=51)
    model = wiring.model()
    memo = {}
    seen_nodes = {}
    seen_keys = set()
    unsafe = []
    for g in grammars.values():
        if g.rx is None:
            continue
        for node in R.rx_nodes(g.rx, seen_nodes):
            if node.op not in ("seq", "choice", "some", "many", "optional") or node.site is None:
                continue
            comb = R.COMB_OF[node.op]
            t = model[comb]
            frs = [R.build_asbuilt(a, model, memo) for a in node.args]
            flags = tuple((R.start_has_in(f), R.stop_has_out(f)) for f in frs)
            site = node.site
            key = (site.fn, comb, site.ordinal, flags)
            if key in seen_keys:
                continue
            seen_keys.add(key)
            forward = t.inplace_forward()
            bad = [i for i, (si, so) in enumerate(flags) if forward and (si or so)]
            ctx.instance("R2-SHAPE", {"where": _where(site), "application": "%s#%d" % (comb, site.ordinal), "in_place_forward": forward,
                                      "operand_flags": [_flags_text(*f) for f in flags][:6], "safe": not bad}, nontrivial=bool(frs))
            for i in bad:
                si, so = flags[i]
                operand = node.args[i]
                d = R.distinguish(R.minimize(R.determinize(R.build_asbuilt(node, model, memo)), keep_tags=False), R.compile_rx(node))
                if d is not None:
                    local = "this sub-expression as built %s %s which `%s` does not contain" % (
                        "accepts" if d[1] else "rejects", R.bytes_text(d[0]), R.rx_text(node, 120))
                else:
                    local = "(the language of this particular sub-expression happens to be unchanged)"
                ctx.violation(
                    "R2-SHAPE", _where(site), "%s#%d:operand-%s" % (comb, site.ordinal, _flags_text(si, so)),
                    "NFA::%s adds start→stop in place (no fresh states) but its operand `%s` is not clean (%s): by DESIGN §11 (ii) the added edge can be "
                    "taken after re-entering the start / before leaving the stop; %s" % (comb, R.rx_text(operand, 120), _flags_text(si, so), local),
                    sites=["%s:%d" % (site.file, site.line)] + list(t.sites))
                unsafe.append(key)
    ctx.extra["r2_unsafe_applications"] = len(unsafe)


# ------------------------------------------------------------------------------------------------
# R3
# ------------------------------------------------------------------------------------------------
def _fresh_union(frags):
    u = R.NFA(2)
    u.start, u.stop = 0, 1
    for a in frags:
        off = u.absorb(a)
        u.eps[0].add(a.start + off)
        u.eps[a.stop + off].add(1)
    return u


def rule_r3(ctx, wiring, grammars, src):
    ctx.rule("GRAMMARS", "every `impl Matcher` is extracted and folded; decoder registrations resolve to extracted grammars", floor=15)
    impls = {}
    for g in grammars.values():
        if g.impl:
            impls.setdefault(g.impl, []).append(g)
    n_impl = G.matcher_impl_count(src)
    kinds = {"parsed": 0, "table": 0, "generic": 0}
    for impl, gs in sorted(impls.items()):
        ctx.instance("GRAMMARS", {"impl": impl, "grammars": [x.name for x in gs], "kind": gs[0].kind}, nontrivial=gs[0].rx is not None)
        kinds[gs[0].kind] = kinds.get(gs[0].kind, 0) + 1
        for x in gs:
            if x.rx is None and x.kind != "generic":
                ctx.violation("GRAMMARS", "decoder::%s::matcher" % impl, "unfoldable", "grammar %s could not be folded (fail closed): %s" % (x.name, x.problem),
                              sites=[x.site] if x.site else [])
    if len(impls) != n_impl:
        ctx.violation("GRAMMARS", "ANCHOR", "impl-count", "%d `impl Matcher` blocks but %d extracted" % (n_impl, len(impls)))
    for p in G.extraction_problems(src):
        ctx.violation("GRAMMARS", "ANCHOR", _slug(p), "extraction: " + p)
    ev = G.registrations(src, "event")
    cm = G.registrations(src, "command")
    ctx.extra["grammar_inventory"] = {"matcher_impls": n_impl, "kinds": kinds, "event_alternatives": [r.name for r in ev], "command_alternatives": [r.name for r in cm]}
    if len(ev) < 14 or len(cm) < 2 or kinds.get("parsed", 0) < 13 or kinds.get("table", 0) < 1:
        ctx.violation("GRAMMARS", "ANCHOR", "inventory-floor",
                      "fewer grammars than counted by hand on the pinned tree: event=%d (14) command=%d (2) parsed=%d (13) table=%d (1)" % (
                          len(ev), len(cm), kinds.get("parsed", 0), kinds.get("table", 0)))

    ctx.rule("R3-LANG", "as-built language == regex language for every grammar; each decoder automaton == tagged fresh union of its members", floor=18)
    model = wiring.model()
    facts = {}
    for name, g in grammars.items():
        if g.rx is None or g.kind == "union":
            continue
        d = R.distinguish(g.asbuilt_dfa, g.regex_dfa)
        facts[name] = {"kind": g.kind, "minlen": g.minlen, "maxlen": g.maxlen, "prefix": R.bytes_text(g.prefix), "suffix": R.bytes_text(g.suffix),
                       "accepts_empty": g.accepts_empty, "dfa_states": g.asbuilt_dfa.n, "equal": d is None}
        ctx.instance("R3-LANG", {"grammar": name, "minlen": g.minlen, "dfa_states": (g.asbuilt_dfa.n, g.regex_dfa.n), "equal": d is None})
        if d is not None:
            w, in_built, in_regex = d
            more = R.subset_witness(g.regex_dfa, g.asbuilt_dfa)
            ctx.violation(
                "R3-LANG", name, "asbuilt!=regex",
                "the automaton built for %s %s %s but the expression `%s` %s; shortest word lost by the as-built automaton: %s" % (
                    name, "accepts" if in_built else "rejects", R.bytes_text(w), R.rx_text(g.rx, 160),
                    "does not contain it" if not in_regex else "contains it", R.bytes_text(more) if more is not None else "none"),
                sites=[g.site] if g.site else [], detail={"word_hex": w.hex(), "accepted_as_built": in_built, "in_regex_language": in_regex})
        if g.accepts_empty:
            ctx.violation("R3-LANG", name, "accepts-empty", "the automaton of %s accepts the empty input (the decoder would emit events without consuming bytes)" % name,
                          sites=[g.site] if g.site else [])
    ctx.extra["grammar_facts"] = facts
    for which, regs in (("event", ev), ("command", cm)):
        try:
            urx = G.union_rx(src, which)
        except G.Unfoldable as ex:
            ctx.violation("R3-LANG", "ANCHOR", "union-" + which, str(ex))
            continue
        name = [n for n, g in grammars.items() if g.rx is urx][0]
        top = urx
        if top.op != "choice" or len(top.args) != len(regs):
            ctx.instance("R3-LANG", {"automaton": name, "understood": False})
            ctx.violation("R3-LANG", name, "not-a-choice", "MatcherAutomata::new does not build one NFA::choice over the registered matchers (%s with %d operands, %d registrations)" % (
                top.op, len(top.args), len(regs)))
            continue
        memo = {}
        built = R.minimize(R.determinize(R.build_asbuilt(urx, model, memo)), keep_tags=True)
        ref = R.minimize(R.determinize(_fresh_union([R.build_asbuilt(a, model, memo) for a in top.args])), keep_tags=True)
        d = R.distinguish_tagged(built, ref)
        # alternative i is the grammar of registration i, and carries MatcherTag::Matcher(i)
        order_ok = True
        for i, (a, r) in enumerate(zip(top.args, regs)):
            g = grammars.get(r.name)
            if g is None or g.rx is None:
                order_ok = False
                continue
            if R.distinguish(R.compile_rx(a), g.regex_dfa) is not None:
                order_ok = False
                ctx.violation("R3-LANG", name, "alternative-%d" % i, "alternative %d of %s is not the grammar of its registration %s" % (i, name, r.name))
            if g.kind == "parsed":
                tags = {G.value_text(x) for q in range(built.n) for x in built.tags[q]}
                if "MatcherTag::Matcher(%d)" % i not in tags:
                    order_ok = False
                    ctx.violation("R3-LANG", name, "tag-%d" % i, "no state of %s carries MatcherTag::Matcher(%d) for %s" % (name, i, r.name))
        ctx.instance("R3-LANG", {"automaton": name, "alternatives": len(regs), "dfa_states": built.n, "equals_union_of_members": d is None, "order_ok": order_ok})
        if d is not None:
            w, s1, s2 = d
            ctx.violation("R3-LANG", name, "union!=members",
                          "%s as built treats %s as (accepted=%s, tags=%s) but the union of its members gives (accepted=%s, tags=%s)" % (
                              name, R.bytes_text(w), s1[0], sorted(map(G.value_text, s1[1])), s2[0], sorted(map(G.value_text, s2[1]))))


def _enumerate_exprs(max_ops):
    a = Rx("pred", (), R.cls(b"a"))
    b = Rx("pred", (), R.cls(b"b"))
    by_ops = {0: [a, b]}
    for k in range(1, max_ops + 1):
        cur = []
        for e in by_ops[k - 1]:
            for op in ("some", "many", "optional"):
                cur.append(Rx(op, (e,)))
        for i in range(0, k):
            j = k - 1 - i
            for x in by_ops[i]:
                for y in by_ops[j]:
                    cur.append(Rx("seq", (x, y)))
                    cur.append(Rx("choice", (x, y)))
        by_ops[k] = cur
    return by_ops


def rule_model(ctx, wiring, max_ops, deno_ops):
    """bounded check of the MODEL: for all expressions up to max_ops operators over {a,b}: a discrepancy between the as-built and the regex
    language occurs only where R2's criterion flags an application; the DFA pipeline agrees with the set-theoretic denotation."""
    ctx.rule("R3-MODEL", "bounded check of the model over {a,b}: as-built≠regex only where R2 flags an application; DFA pipeline == denotational semantics",
             floor={2: 170, 3: 2256, 4: 33826}.get(max_ops, 0))
    model = wiring.model()
    by_ops = _enumerate_exprs(max_ops)
    memo_a, memo_r, flagged_memo, dfa_r, dfa_a = {}, {}, {}, {}, {}
    stats = {"expressions": 0, "different": 0, "different_and_flagged": 0, "flagged_but_equal": 0, "unexplained": 0, "denotation_checked": 0, "denotation_mismatch": 0}
    examples = []

    def flagged(e):
        k = id(e)
        if k in flagged_memo:
            return flagged_memo[k]
        r = False
        for x in e.args:
            r = flagged(x) or r
        if not r and e.op in R.COMB_OF and e.args:
            t = model[R.COMB_OF[e.op]]
            if t.inplace_forward():
                for x in e.args:
                    f = R.build_asbuilt(x, model, memo_a)
                    if R.start_has_in(f) or R.stop_has_out(f):
                        r = True
        flagged_memo[k] = r
        return r
    t0 = time.time()
    for k in range(0, max_ops + 1):
        for e in by_ops[k]:
            stats["expressions"] += 1
            da = R.minimize(R.determinize(R.build_asbuilt(e, model, memo_a)), keep_tags=False)
            dr = R.minimize(R.determinize(R.build_regex(e, memo_r)), keep_tags=False)
            d = R.distinguish(da, dr)
            fl = flagged(e)
            ctx.instance("R3-MODEL", None)
            if d is not None:
                stats["different"] += 1
                if fl:
                    stats["different_and_flagged"] += 1
                    if len(examples) < 5:
                        examples.append("%s : %s" % (R.rx_text(e), R.bytes_text(d[0])))
                else:
                    stats["unexplained"] += 1
                    ctx.violation("R3-MODEL", "model", "unexplained:" + _slug(R.rx_text(e)),
                                  "as-built and regex semantics differ on `%s` (%s) although no application is flagged by the shape typing: the model or the "
                                  "theorem is violated by the wiring read from automata.rs" % (R.rx_text(e), R.bytes_text(d[0])))
            elif fl:
                stats["flagged_but_equal"] += 1
            if k <= deno_ops:
                stats["denotation_checked"] += 1
                if set(R.words_upto(dr, 6)) != R.lang_upto(e, 6, b"ab"):
                    stats["denotation_mismatch"] += 1
                    ctx.violation("R3-MODEL", "model", "denotation:" + _slug(R.rx_text(e)), "checker self-test: DFA pipeline disagrees with the denotation of `%s`" % R.rx_text(e))
    stats["seconds"] = round(time.time() - t0, 2)
    stats["max_operators"] = max_ops
    stats["examples_of_flagged_differences"] = examples
    ctx.extra["bounded_model_check"] = stats
    ctx.exhaustive = {"domain": "all combinator expressions with <= %d operators over leaves {a, b}" % max_ops, "size": stats["expressions"]}



# ------------------------------------------------------------------------------------------------
# R5  subset construction: where a DFA edge may point
# ------------------------------------------------------------------------------------------------
def rule_r5(ctx):
    """Every edge stored in a DFA state's edge map points to the DFA state of the ε-closure of the move set: the id looked up in /
    freshly allocated for `epsilon_closure(flat_map(state -> edges.get(symbol)))`.  A shortcut that reuses another id (the current
    state for a "self loop", a cached neighbour) keeps NFA states alive that the symbol does not reach."""
    from ..flow import origins as forigins, expr as fexpr, arg_place as farg_place
    from ..mir import call_matches
    prog = ctx.prog
    ctx.rule("R5-SUBSET", "compile(): every (symbol -> DFAState) edge inserted for a state targets the id found in / allocated from the closure table for "
                          "epsilon_closure(move(state, symbol)); the work list and the table receive that same closure", floor=3)
    comp = prog.one(r"^automata::NFA::<T>::compile$")
    if comp is None:
        ctx.anchor("R5-SUBSET", "compile")
        return
    where = "automata::NFA::compile"
    ins = [(bb, t) for bb, t in comp.calls() if call_matches(t, r"BTreeMap::<K, V, A>::insert$") and len(t["args"]) == 3]
    edge_ins = [(bb, t) for bb, t in ins if t["arg_tys"][1] == "u8" and t["arg_tys"][2].endswith("DFAState")]
    closure_tab = [(bb, t) for bb, t in ins if "BTreeSet<automata::NFAStateId>" in t["arg_tys"][1] and t["arg_tys"][2].endswith("DFAState")]
    if not edge_ins or not closure_tab:
        ctx.anchor("R5-SUBSET", "compile/edge-insert", "the insertion of DFA edges or the closure table is not recognised")
        return
    tab_place = farg_place(comp, closure_tab[0][1], 0)
    for bb, t in edge_ins:
        og = forigins(comp, t["args"][2])
        bad = []
        for o in og:
            if o[0] == "call" and re.search(r"BTreeMap::<K, V, A>::(get|len)$", o[2]):
                ct = comp.blocks[o[1]]["term"]
                same_tab = farg_place(comp, ct, 0) == tab_place
                key_ok = True
                if o[2].endswith("::get"):
                    key_ok = "NFA::epsilon_closure(" in fexpr(comp, ct["args"][1])
                if same_tab and key_ok:
                    continue
            bad.append(o)
        ctx.instance("R5-SUBSET", {"edge_insert_block": bb, "target_origins": sorted(str(o) for o in og), "ok": not bad and bool(og)})
        if bad or not og:
            ctx.violation("R5-SUBSET", where, "edge-target", "a DFA edge is stored whose target does not come from the closure table entry of epsilon_closure(move(state, symbol)) "
                          "(origins %s): NFA states the symbol does not reach stay alive, so strings outside the language are accepted" % sorted(str(o) for o in bad or og),
                          sites=["%s:%d" % (comp.file, t["line"])])
    # the closure inserted into the table (with the fresh id) is the ε-closure of the move set over edges.get(symbol)
    for bb, t in closure_tab:
        k = fexpr(comp, t["args"][1])
        v = fexpr(comp, t["args"][2])
        if v == "DFAState(0)":
            ok = "NFA::epsilon_closure(arg1, iter::once(arg1.start))" in k
            ctx.instance("R5-SUBSET", {"initial_state": k[:100], "ok": ok})
            if not ok:
                ctx.violation("R5-SUBSET", where, "initial-state", "DFA state 0 is not the ε-closure of the NFA start state: %s" % k[:120], sites=["%s:%d" % (comp.file, t["line"])])
        else:
            ok = re.search(r"NFA::epsilon_closure\(arg1, .*Iterator::flat_map\(", k) is not None and re.fullmatch(r"DFAState\(BTreeMap::len\(.*\)\)", v) is not None
            ctx.instance("R5-SUBSET", {"new_state_key": k[:100], "id": v[:60], "ok": ok})
            if not ok:
                ctx.violation("R5-SUBSET", where, "new-state", "a new DFA state is registered with key %s / id %s instead of the ε-closure of the move set with the next free id" % (k[:100], v[:60]),
                              sites=["%s:%d" % (comp.file, t["line"])])

# ------------------------------------------------------------------------------------------------
# R4
# ------------------------------------------------------------------------------------------------
def rule_r4(ctx):
    prog = ctx.prog
    ctx.rule("R4-DENSITY", "compile(): the `index == state.0` assert guards every row that flows into DFA.states (MUST-PASS)", floor=3)
    ctx.rule("R4-INFO", "compile(): is_accepting <- contains(&self.stop); is_terminal <- dfa_table[id].is_empty(); tags <- union of member tags", floor=4)
    comp = prog.one(r"^automata::NFA::<T>::compile$")
    if comp is None:
        ctx.anchor("R4-DENSITY", "compile")
        ctx.anchor("R4-INFO", "compile")
        return
    where = "automata::NFA::compile"
    T_STATES = "new<BTreeMap<Rc<BTreeSet<NFAStateId>>, DFAState>>"
    T_TABLE = "new<BTreeMap<DFAState, BTreeMap<u8, DFAState>>>"
    T_INFOS = "new<Vec<DFAStateInfo<T>>>"
    ITER = "next(&into_iter(%s))" % T_STATES
    # ---- density
    closures = [b for b in prog.bodies if b.kind == "Closure" and b.j.get("closure_root") == comp.path]
    guard = None
    for c in closures:
        for bb, t in c.terms():
            if t["k"] != "switch":
                continue
            cond = vexpr(c, t["d"])
            m = re.fullmatch(r"Eq\((.+), (.+)\)", cond)
            if not m or {m.group(1), m.group(2)} != {"arg2.0", "arg2.1.0.0"}:
                continue
            fail = [tg for v, tg in zip(t["vals"], t["targets"]) if str(v) == "0"]
            if len(fail) != 1:
                continue
            ft = c.blocks[fail[0]]["term"]
            if ft["k"] == "call" and re.search(r"panicking::assert_failed", callee_name(ft) or "") and ft.get("t", -1) < 0:
                guard = (c, bb)
    ctx.instance("R4-DENSITY", {"guard_closure": guard[0].path if guard else None})
    if guard is None:
        ctx.violation("R4-DENSITY", where, "no-density-assert",
                      "no closure of compile() compares the enumeration index with the DFA state id (assert_eq!(index, state.0)) before emitting a table row",
                      sites=[comp.loc])
    else:
        c, bb = guard
        ok, wit = c.cfg().must_pass([bb])
        tyok = c.local_ty(2).startswith("(usize, (automata::DFAState")
        ctx.instance("R4-DENSITY", {"closure_returns_pass_guard": ok, "argument": c.local_ty(2)})
        if not ok or not tyok:
            ctx.violation("R4-DENSITY", where, "guard-bypassed", "a path through %s returns without the index/state comparison (%s)" % (c.path, wit), sites=[c.loc])
        # the guarded closure is what produces DFA.states
        want = "Vec::into_boxed_slice(Iterator::collect(Iterator::flat_map(Iterator::enumerate(into_iter(%s)), closure<%s>)))" % (T_TABLE, c.path)
        got = None
        agg_bb = None
        for i, si, s in comp.assigns():
            rv = s["rv"]
            if rv["k"] == "agg" and rv["ak"] == "adt" and rv["adt"].endswith("automata::DFA") and "fnames" in rv:
                f = dict(zip(rv["fnames"], rv["fields"]))
                got = {k: vexpr(comp, v) for k, v in f.items()}
                agg_bb = i
        fm = [bbi for bbi, t in comp.calls() if (callee_name(t) or "").endswith("Iterator::flat_map") and len(t["args"]) == 2 and vexpr(comp, t["args"][1]) == "closure<%s>" % c.path]
        okp = bool(fm) and comp.cfg().must_pass(fm)[0]
        ctx.instance("R4-DENSITY", {"dfa_states_field": got and got.get("states"), "flat_map_on_every_path": okp})
        if got is None or got.get("states") != want or not okp:
            ctx.violation("R4-DENSITY", where, "states-not-from-guarded-rows",
                          "DFA.states is not the collected flat_map of the guarded closure over enumerate(dfa_table) on every path (found %s)" % (got and got.get("states")),
                          sites=[comp.loc])
        if got is not None and got.get("infos") != "Vec::into_boxed_slice(%s)" % T_INFOS:
            ctx.violation("R4-INFO", where, "infos-origin", "DFA.infos is not the info vector filled in compile (found %s)" % got.get("infos"), sites=[comp.loc])
    # ---- infos
    info_dest = r"\*index_mut\(&%s, \(%s as Some\)\.0\.1\.0\)" % (re.escape(T_INFOS), re.escape(ITER))
    writes = {"is_accepting": [], "is_terminal": []}
    for i, si, s in comp.assigns():
        pl = s["place"]["p"]
        if pl and pl[-1]["k"] == "field" and pl[-1]["name"] in writes and s["rv"]["k"] == "use":
            writes[pl[-1]["name"]].append((vexpr(comp, s["place"]), vexpr(comp, s["rv"]["a"]), s.get("line")))
    exp = {
        "is_accepting": "BTreeSet::contains(&*deref(&(%s as Some).0.0), &*arg1.stop)" % ITER,
        "is_terminal": "BTreeMap::is_empty(&*index(&%s, &(%s as Some).0.1))" % (T_TABLE, ITER),
    }
    for fld in ("is_accepting", "is_terminal"):
        ws = writes[fld]
        good = len(ws) == 1 and re.fullmatch(info_dest + r"\." + fld, ws[0][0]) and ws[0][1] == exp[fld]
        ctx.instance("R4-INFO", {"field": fld, "writes": [(w[0], w[1]) for w in ws]})
        if not good:
            ctx.violation("R4-INFO", where, fld,
                          "%s of the DFA state info is not assigned (once) from %s for the state set / id of the same dfa_states entry; found %s" % (
                              fld, exp[fld], [(w[0], w[1]) for w in ws]),
                          sites=["%s:%s" % (comp.file, w[2]) for w in ws] or [comp.loc])
    tag_ins = []
    for bb, t in comp.calls():
        if re.search(r"BTreeSet::<T, A>::insert$", callee_name(t) or "") and len(t["args"]) == 2:
            a0 = vexpr(comp, t["args"][0])
            if a0.endswith(".tags"):
                tag_ins.append((bb, a0, vexpr(comp, t["args"][1]), t.get("line")))
    member = "(next(&into_iter(BTreeSet::iter(&*deref(&(%s as Some).0.0)))) as Some).0" % ITER
    good = False
    why = "no insert into info.tags"
    if len(tag_ins) == 1:
        bb, a0, a1, line = tag_ins[0]
        m = re.fullmatch(r"Clone::clone\(&\(Option::and_then\(BTreeMap::get\(&\*arg1\.states, &\*" + re.escape(member) + r"\), closure<(.+)>\) as Some\)\.0\)", a1)
        if not re.fullmatch("&" + info_dest + r"\.tags", a0):
            why = "tags are inserted into %s" % a0
        elif not m:
            why = "inserted value is %s" % a1
        else:
            cb = prog.body(m.group(1))
            rets = []
            if cb is not None:
                for b2, t2 in cb.calls():
                    rets.append("%s(%s)" % (_short_fn(callee_name(t2)), ", ".join(vexpr(cb, x) for x in t2["args"])))
            nxt = [b3 for b3, t3 in comp.calls() if vexpr(comp, t3["dest"]) == member[1:-len(" as Some).0")]]
            cfg = comp.cfg()
            outer = [b3 for b3, t3 in comp.calls() if vexpr(comp, t3["dest"]) == ITER]
            # the insert must flow back to the *inner* next() without leaving through the loop over dfa_states
            in_loop = bool(nxt) and bool(outer) and bb in cfg.reachable_from(nxt[0], removed=outer) and nxt[0] in cfg.reachable_from(bb, removed=outer)
            if rets != ["clone(&*arg2.tag)"]:
                why = "the and_then closure computes %s instead of s.tag.clone()" % rets
            elif not in_loop:
                why = "the insert is not inside the loop over the member NFA states"
            else:
                good = True
    else:
        why = "%d inserts into info.tags" % len(tag_ins)
    ctx.instance("R4-INFO", {"field": "tags", "inserts": [(x[1], x[2]) for x in tag_ins]})
    if not good:
        ctx.violation("R4-INFO", where, "tags", "tags of a DFA state are not the union of the tags of its member NFA states: " + why,
                      sites=["%s:%s" % (comp.file, x[3]) for x in tag_ins] or [comp.loc])
    # the initial value of the infos: is_accepting false, tags empty
    ctx.instance("R4-INFO", {"infos_len": [vexpr(comp, t["args"][1]) for bb, t in comp.calls() if (callee_name(t) or "").endswith("resize_with")]})
    rs = [vexpr(comp, t["args"][1]) for bb, t in comp.calls() if (callee_name(t) or "").endswith("resize_with")]
    if rs != ["BTreeMap::len(&%s)" % T_STATES]:
        ctx.violation("R4-INFO", where, "infos-len", "the info vector is not sized by dfa_states.len(): %s" % rs, sites=[comp.loc])


# ------------------------------------------------------------------------------------------------
# R4-TABLE: geometry of the flattened transition table (row width written by compile == stride read by DFA::transition == |alphabet|)
# ------------------------------------------------------------------------------------------------
class _NotConst(Exception):
    pass


_UINT_BITS = {"u8": 8, "u16": 16, "u32": 32, "u64": 64, "usize": 64}


def _closure_agg(prog, closure_body):
    """(parent body, aggregate rvalue) that creates the closure"""
    parent = prog.body(closure_body.j.get("closure_parent") or "")
    if parent is None:
        return None, None
    aggs = [s["rv"] for i, si, s in parent.assigns() if s["rv"]["k"] == "agg" and s["rv"]["ak"] == "closure" and s["rv"].get("def") == closure_body.path]
    return (parent, aggs[0]) if len(aggs) == 1 else (parent, None)


def const_int(prog, body, x, depth=0):
    """value of a MIR operand/place that is a compile-time constant of the function: integer literals, integer casts, + - * of such, moves,
    references, and variables captured by a closure (followed into the enclosing body).  Raises _NotConst (with the construct) otherwise."""
    if depth > 40:
        raise _NotConst("definition chain too long")
    if x.get("k") == "const":
        c = x["c"]
        if "int" not in c:
            raise _NotConst("constant %s" % c.get("text", "?"))
        return int(c["int"])
    place = x["place"] if "place" in x else x
    l = place["l"]
    proj = [e for e in place["p"] if e["k"] != "deref"]
    if body.kind == "Closure" and l == 1:
        if len(proj) != 1 or proj[0]["k"] != "field":
            raise _NotConst("captured place %s" % _proj("_1", place["p"]))
        parent, agg = _closure_agg(prog, body)
        idx = proj[0].get("i", int(proj[0]["name"]) if str(proj[0].get("name", "")).isdigit() else None)
        if agg is None or idx is None or idx >= len(agg["fields"]):
            raise _NotConst("capture %s of %s" % (proj[0].get("name"), body.path))
        return const_int(prog, parent, agg["fields"][idx], depth + 1)
    if 0 < l <= body.arg_count:
        raise _NotConst("argument %d" % l)
    ds = body.defs_of(l)
    if len(ds) != 1:
        raise _NotConst("local _%d has %d definitions" % (l, len(ds)))
    bb, si, rv = ds[0]
    if si == "term":
        raise _NotConst("result of %s" % _short_fn(callee_name(rv)))
    k = rv["k"]
    if k == "bin":
        op = rv["op"]
        checked = op.endswith("WithOverflow")
        if (checked and not (len(proj) == 1 and proj[0]["k"] == "field" and str(proj[0]["name"]) == "0")) or (not checked and proj):
            raise _NotConst("projection of %s" % op)
        a = const_int(prog, body, rv["a"], depth + 1)
        b = const_int(prog, body, rv["b"], depth + 1)
        op = op.replace("WithOverflow", "").replace("Unchecked", "")
        if op == "Add":
            return a + b
        if op == "Sub":
            return a - b
        if op == "Mul":
            return a * b
        if op == "Shl" and 0 <= b < 64:
            return a << b
        if op == "Shr" and 0 <= b < 64:
            return a >> b
        if op == "Div" and b:
            return a // b
        if op in ("BitOr", "BitAnd", "BitXor"):
            return {"BitOr": a | b, "BitAnd": a & b, "BitXor": a ^ b}[op]
        raise _NotConst("operator %s" % op)
    if proj:
        raise _NotConst("projection %s" % _proj("_%d" % l, place["p"]))
    if k == "use":
        return const_int(prog, body, rv["a"], depth + 1)
    if k == "ref":
        return const_int(prog, body, rv["place"], depth + 1)
    if k == "cast" and rv.get("ck") == "IntToInt":
        v = const_int(prog, body, rv["a"], depth + 1)
        bits = _UINT_BITS.get(rv.get("ty"))
        if bits is None:
            raise _NotConst("cast to %s" % rv.get("ty"))
        return v & ((1 << bits) - 1)
    raise _NotConst("rvalue %s" % k)


def _single_def(body, x):
    """(kind, rvalue-or-terminator) of the single definition behind a plain local operand, chasing moves"""
    for _ in range(20):
        if x.get("k") == "const":
            return None, None
        place = x["place"] if "place" in x else x
        if place["p"] or 0 < place["l"] <= body.arg_count:
            return None, None
        ds = body.defs_of(place["l"])
        if len(ds) != 1:
            return None, None
        bb, si, rv = ds[0]
        if si != "term" and rv["k"] == "use":
            x = rv["a"]
            continue
        return ("call" if si == "term" else rv["k"]), rv
    return None, None


def row_iterator(prog, body, x, depth=0):
    """(first symbol, number of items, map closure body or None) of the per-state iterator a row closure returns: a (possibly mapped)
    integer range with constant bounds.  Raises _NotConst for any other shape (fail closed)."""
    if depth > 8:
        raise _NotConst("iterator chain too long")
    kind, d = _single_def(body, x)
    if kind == "call":
        nm = callee_name(d) or ""
        if re.search(r"Iterator::map$", nm) and len(d["args"]) == 2:
            lo, n, inner = row_iterator(prog, body, d["args"][0], depth + 1)
            if inner is not None:
                raise _NotConst("two map() layers")
            ck, cd = _single_def(body, d["args"][1])
            mc = prog.body(cd["def"]) if ck == "agg" and cd.get("ak") == "closure" else None
            if mc is None:
                raise _NotConst("map() argument is not a closure literal")
            return lo, n, mc
        if re.search(r"IntoIterator>?::into_iter$", nm) and len(d["args"]) == 1:
            return row_iterator(prog, body, d["args"][0], depth + 1)
        if re.search(r"RangeInclusive::<\w+>::new$", nm) and len(d["args"]) == 2:
            lo, hi = const_int(prog, body, d["args"][0]), const_int(prog, body, d["args"][1])
            return lo, hi - lo + 1, None
        raise _NotConst("iterator built by %s" % _short_fn(nm))
    if kind == "agg" and d.get("ak") == "adt" and re.search(r"\bops::Range$", d.get("adt") or "") and len(d["fields"]) == 2:
        lo, hi = const_int(prog, body, d["fields"][0]), const_int(prog, body, d["fields"][1])
        return lo, hi - lo, None
    raise _NotConst("row iterator is not a mapped integer range")


def _term_args(term, head):
    """top-level arguments of a canonical term `head(a, b, ..)` (sa.flow.expr text), or None"""
    if not (term.startswith(head + "(") and term.endswith(")")):
        return None
    inner = term[len(head) + 1:-1]
    out, depth, cur = [], 0, ""
    for ch in inner:
        if ch == "," and depth == 0:
            out.append(cur.strip())
            cur = ""
            continue
        depth += ch == "("
        depth -= ch == ")"
        if depth < 0:
            return None
        cur += ch
    out.append(cur.strip())
    return out if depth == 0 else None


def _ret_operand():
    return {"k": "move", "place": {"l": 0, "p": []}}


def rule_r4_table(ctx):
    from ..flow import expr as fexpr
    prog = ctx.prog
    ctx.rule("R4-TABLE", "flattened table geometry: DFA::transition indexes states[stride*state + symbol]; compile() stores stride = |alphabet| = 256 and emits, per "
                         "state, exactly one entry for each symbol 0..=255 in order, looked up in that state's edge map", floor=4)
    where = "automata::NFA::compile"
    tr = prog.one(r"^automata::DFA::<T>::transition$")
    comp = prog.one(r"^automata::NFA::<T>::compile$")
    if tr is None or comp is None:
        ctx.anchor("R4-TABLE", "transition/compile")
        return
    # ---- (1) the stride DFA::transition uses
    idx_locals = set()

    def scan(place):
        for e in place.get("p", []):
            if e["k"] == "index":
                idx_locals.add(e["l"])
    for i, si, s in tr.assigns():
        scan(s["place"])
        rv = s["rv"]
        for key in ("a", "b"):
            if isinstance(rv.get(key), dict) and "place" in rv[key]:
                scan(rv[key]["place"])
        if "place" in rv:
            scan(rv["place"])
    stride_field = None
    sym_bits = None
    sym_ty = None
    term = None
    if len(idx_locals) == 1:
        term = fexpr(tr, {"k": "copy", "place": {"l": list(idx_locals)[0], "p": []}})
        parts = _term_args(term, "Add")
        if parts is not None and len(parts) == 2:
            mul = [p for p in parts if p.startswith("Mul(")]
            sym = [p for p in parts if not p.startswith("Mul(")]
            mm = re.fullmatch(r"Mul\((arg\d+(?:\.\w+)+), (arg\d+(?:\.\w+)+)\)", mul[0]) if len(mul) == 1 else None
            ms = re.fullmatch(r"\(arg(\d+) as usize\)", sym[0]) if len(sym) == 1 else None
            if mm and ms:
                fs = [re.fullmatch(r"arg1\.(\w+)", g) for g in mm.groups()]
                st = [g for g in mm.groups() if re.fullmatch(r"arg[2-9]\.0", g) and g[3] != ms.group(1)]
                fs = [f.group(1) for f in fs if f]
                sym_arg = int(ms.group(1))
                if len(fs) == 1 and len(st) == 1 and 1 < sym_arg <= tr.arg_count and re.search(r"\bDFAState$", tr.local_ty(int(st[0][3]))):
                    stride_field = fs[0]
                    sym_ty = tr.local_ty(sym_arg)
                    sym_bits = _UINT_BITS.get(sym_ty)
    ctx.instance("R4-TABLE", {"fn": tr.path, "index": term, "stride_field": stride_field, "symbol_type": sym_ty})
    if stride_field is None or sym_bits is None or sym_bits > 16:
        ctx.anchor("R4-TABLE", "transition-index", "DFA::transition does not index the table by <self.field> * state.0 + symbol as usize (found %s)" % term)
        return
    alphabet = 1 << sym_bits
    # ---- (2) the stride compile() stores
    dfa_agg = [s["rv"] for i, si, s in comp.assigns() if s["rv"]["k"] == "agg" and s["rv"]["ak"] == "adt" and s["rv"]["adt"].endswith("automata::DFA") and "fnames" in s["rv"]]
    stride = None
    why = None
    if len(dfa_agg) == 1 and stride_field in dfa_agg[0]["fnames"]:
        op = dfa_agg[0]["fields"][dfa_agg[0]["fnames"].index(stride_field)]
        try:
            stride = const_int(prog, comp, op)
        except _NotConst as ex:
            why = "%s (%s)" % (fexpr(comp, op), ex)
    else:
        why = "no unique DFA{..} literal with field %s" % stride_field
    ctx.instance("R4-TABLE", {"stride_field": stride_field, "stored_by_compile": stride, "alphabet": alphabet})
    if stride is None:
        ctx.anchor("R4-TABLE", "stride-not-constant", "DFA.%s as stored by compile() is not a constant the rule can evaluate: %s" % (stride_field, why))
    elif stride != alphabet:
        ctx.violation("R4-TABLE", where, "stride",
                      "compile() stores %s = %d but a symbol is a %s (%d values): DFA::transition(s, %d) reads index %d*s + %d = %d*(s+1) + %d, i.e. the entry of state s+1 "
                      "for symbol %d (a wrong state instead of a dead transition; out of bounds from the last state)"
                      % (stride_field, stride, sym_ty, alphabet, alphabet - 1, stride, alphabet - 1, stride, alphabet - 1 - stride, alphabet - 1 - stride)
                      if 0 < stride < alphabet else
                      "compile() stores %s = %d but a symbol is a %s (%d values): rows of the flattened table must be exactly %d entries apart" % (stride_field, stride, sym_ty, alphabet, alphabet),
                      sites=[comp.loc, tr.loc], detail={"stride": stride, "alphabet": alphabet})
    # ---- (3) the rows compile() emits: the closure handed to flat_map over enumerate(dfa_table)
    # (followed backwards from the `states` field of the DFA{..} literal through the one-argument adaptors collect / into_boxed_slice / into_iter)
    rc = None
    chain = []
    if len(dfa_agg) == 1 and "states" in dfa_agg[0]["fnames"]:
        x = dfa_agg[0]["fields"][dfa_agg[0]["fnames"].index("states")]
        for _ in range(8):
            kind, d = _single_def(comp, x)
            if kind != "call":
                break
            nm = callee_name(d) or ""
            chain.append(_short_fn(nm))
            if nm.endswith("Iterator::flat_map") and len(d["args"]) == 2:
                ck, cd = _single_def(comp, d["args"][1])
                if ck == "agg" and cd.get("ak") == "closure":
                    rc = prog.body(cd["def"])
                break
            if len(d["args"]) != 1:
                break
            x = d["args"][0]
    if rc is None:
        ctx.anchor("R4-TABLE", "row-closure", "DFA.states is not the collected flat_map(<closure>) over the table rows (definition chain: %s)" % " <- ".join(chain))
        return
    try:
        lo, n, mc = row_iterator(prog, rc, _ret_operand())
    except _NotConst as ex:
        ctx.instance("R4-TABLE", {"row_closure": rc.path, "understood": False})
        ctx.anchor("R4-TABLE", "row-iterator", "the per-state row built by %s is not a mapped integer range with constant bounds: %s" % (rc.path, ex))
        return
    ctx.instance("R4-TABLE", {"row_closure": rc.path, "first_symbol": lo, "entries_per_state": n, "alphabet": alphabet})
    if lo != 0 or n != alphabet:
        ctx.violation("R4-TABLE", where, "row-width",
                      "each state contributes the entries for symbols %d..%d (%d entries) to the flattened table, but DFA::transition addresses the row by any %s symbol "
                      "(index = %s*state + symbol, %d values): symbols %d..=%d have no entry in their state's row, the index computed for them lies in the row of a later "
                      "state (a wrong state instead of a dead transition) or past the end of the table"
                      % (lo, lo + n - 1, n, sym_ty, stride_field, alphabet, n, alphabet - 1) if lo == 0 and 0 < n < alphabet else
                      "each state contributes the entries for symbols %d..%d (%d entries) to the flattened table; the full alphabet 0..=%d (%d entries) is required"
                      % (lo, lo + n - 1, n, alphabet - 1, alphabet),
                      sites=[rc.loc], detail={"first": lo, "entries": n, "alphabet": alphabet})
    # ---- (4) column j of a row is the edge for symbol j of that state
    key = edges = ret = None
    if mc is not None:
        gets = [t for bb, t in mc.calls() if re.search(r"BTreeMap::<K, V, A>::get$", callee_name(t) or "") and len(t["args"]) == 2]
        ret = fexpr(mc, _ret_operand())
        if len(gets) == 1:
            key = fexpr(mc, gets[0]["args"][1])
            m = re.fullmatch(r"arg1\.(\d+)", fexpr(mc, gets[0]["args"][0]))
            parent, agg = _closure_agg(prog, mc)
            if m and agg is not None and parent is rc and int(m.group(1)) < len(agg["fields"]):
                edges = fexpr(rc, agg["fields"][int(m.group(1))])
    good = key in ("arg2", "(arg2 as u8)") and edges == "arg2.1.1" and ret is not None and "BTreeMap::get(" in ret
    ctx.instance("R4-TABLE", {"map_closure": mc.path if mc else None, "lookup_key": key, "edge_map": edges, "entry": ret, "ok": good})
    if not good:
        ctx.violation("R4-TABLE", where, "column-key",
                      "entry j of a state's row must be edges.get(&j) on the edge map of the enumerated (state, edges) pair; found key %s on %s giving %s" % (key, edges, ret),
                      sites=[(mc or rc).loc])


# ------------------------------------------------------------------------------------------------
def run(ctx):
    ctx.explanation = (
        "Decided: (R1) the ε-wiring of sequence/choice/some/optional/many/From<&str>/predicate/empty/nothing is read from the source of automata.rs "
        "as a template over roles {fresh start/stop, operand start/stop} and equals Thompson's template in its fresh or in-place variant; merge_states "
        "renumbers operands into disjoint increasing id ranges; (R2) every combinator application reachable from the grammars of decoder.rs is typed by "
        "(start-has-in-edge, stop-has-out-edge) on the as-built fragment and in-place start→stop edges are only applied to clean operands; (R3) for every "
        "grammar the automaton as built (own Thompson builder driven by the templates read in R1, own power-set construction) accepts exactly the language "
        "of the expression under the documented regex meaning, the two decoder automata equal the tagged union of their members, and the model is checked "
        "exhaustively on small expressions; (R4) compile() guards every table row by the density assert and derives is_accepting/is_terminal/tags from "
        "contains(stop)/empty row/member tags; (R4-TABLE) the flattened transition table has rows of exactly 256 entries (symbols 0..=255 in order, each "
        "looked up in the state's own edge map) and DFA::transition addresses it with the same stride, stored as a constant by compile(). NOT decided: "
        "correctness of the repository's power-set loop beyond R4 (worklist, closure), termination, and Debug output.")
    ctx.assume("BTreeMap/BTreeSet/Vec/Rc behave as documented; NFA values are owned (clone copies), so in-place edits never alias another fragment")
    ctx.assume("the as-built model applies the wiring templates read by R1; where R1 reports a template as not understood, Thompson's fresh template is substituted and R2/R3 are relative to that")
    src = ctx.src
    wiring = G.read_wiring(src)
    rule_r1(ctx, wiring)
    grammars = G.extract(src)
    rule_r2(ctx, wiring, grammars)
    rule_r3(ctx, wiring, grammars, src)
    if ctx.tier == "thorough":
        rule_model(ctx, wiring, 4, 3)
    else:
        rule_model(ctx, wiring, 2, 2)
    rule_r4(ctx)
    rule_r4_table(ctx)
    rule_r5(ctx)
