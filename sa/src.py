"""Model over src.json (syn dump): lookup of items and generic tree walking."""
import re


class Src:
    def __init__(self, j):
        self.j = j
        self.files = {f["path"]: f for f in j["files"]}
        for f in j["files"]:
            if "error" in f:
                raise ValueError("srcdump could not parse %s: %s" % (f["path"], f["error"]))
        self.fns = []      # (file, impl_self, impl_trait, fn_item, in_test)
        self.consts = []   # (file, impl_self, const_item, in_test)
        self.enums = []
        self.structs = []
        self.impls = []
        self.macro_items = []
        for f in j["files"]:
            self._walk(f["path"], f["items"], None, None, False)

    def _walk(self, file, items, impl_self, impl_trait, in_test):
        for it in items or []:
            k = it["k"]
            t = in_test or it.get("cfg_test", False) or any(a == "test" for a in it.get("attrs", []))
            if k == "fn":
                self.fns.append((file, impl_self, impl_trait, it, t))
            elif k == "impl":
                self.impls.append((file, it, t))
                self._walk(file, it["items"], it["self_ty"], it["trait"], t)
            elif k in ("const", "static"):
                self.consts.append((file, impl_self, it, t))
            elif k == "mod":
                self._walk(file, it.get("items"), None, None, t)
            elif k == "enum":
                self.enums.append((file, it, t))
            elif k == "struct":
                self.structs.append((file, it, t))
            elif k == "macroitem":
                self.macro_items.append((file, impl_self, it, t))
            elif k == "trait":
                for ti in it["items"]:
                    if ti["k"] == "fn" and ti.get("body"):
                        self.fns.append((file, "trait " + it["name"], None, ti, t))

    def fn(self, name, impl_self=None, impl_trait=None, file=None, test=False):
        """unique non-test fn by name and optional impl filters (regex on self type / trait)"""
        out = []
        for (f, s, tr, it, t) in self.fns:
            if it["name"] != name or t != test:
                continue
            if file and f != file:
                continue
            if impl_self is not None:
                if s is None or not re.fullmatch(impl_self, s):
                    continue
            if impl_trait is not None:
                if impl_trait == "":
                    if tr is not None:
                        continue
                elif tr is None or not re.fullmatch(impl_trait, tr):
                    continue
            out.append((f, it))
        if len(out) == 1:
            return out[0]
        return None

    def fns_named(self, name, test=False):
        return [(f, s, tr, it) for (f, s, tr, it, t) in self.fns if it["name"] == name and t == test]

    def const(self, name, file=None, impl_self=None):
        out = [(f, it) for (f, s, it, t) in self.consts
               if it["name"] == name and not t and (file is None or f == file) and (impl_self is None or s == impl_self)]
        if len(out) == 1:
            return out[0]
        return None

    def enum(self, name, file=None):
        out = [(f, it) for (f, it, t) in self.enums if it["name"] == name and not t and (file is None or f == file)]
        return out[0] if len(out) == 1 else None

    def struct(self, name, file=None):
        out = [(f, it) for (f, it, t) in self.structs if it["name"] == name and not t and (file is None or f == file)]
        return out[0] if len(out) == 1 else None


def walk(node, fn, parents=()):
    """pre-order walk over every dict node having 'k'; fn(node, parents) may return False to prune"""
    if isinstance(node, dict):
        if "k" in node:
            r = fn(node, parents)
            if r is False:
                return
            parents = parents + (node,)
        for key, v in node.items():
            if key in ("tokens",):
                continue
            walk(v, fn, parents)
    elif isinstance(node, list):
        for v in node:
            walk(v, fn, parents)


def find_all(node, pred):
    out = []

    def f(n, parents):
        if pred(n):
            out.append(n)
    walk(node, f)
    return out


def lit_int(e):
    """integer value of literal expr (int, byte, char) incl. negation; else None"""
    if e is None:
        return None
    if e.get("k") == "lit":
        if e["t"] == "int":
            return int(e["v"])
        if e["t"] in ("byte", "char"):
            return int(e["v"])
    if e.get("k") == "un" and e["op"] == "-":
        v = lit_int(e["e"])
        return -v if v is not None else None
    if e.get("k") == "cast":
        return lit_int(e["e"])
    return None


def lit_float(e):
    if e is None:
        return None
    if e.get("k") == "lit" and e["t"] in ("float", "int"):
        return float(e["v"])
    if e.get("k") == "un" and e["op"] == "-":
        v = lit_float(e["e"])
        return -v if v is not None else None
    return None


def expr_text(e):
    """compact rendering of an expression for reports/keys (no line numbers)"""
    if e is None:
        return ""
    k = e.get("k")
    if k == "lit":
        if e["t"] in ("str",):
            return repr(e["v"])
        if e["t"] == "bytestr":
            return "b" + repr(bytes(e["v"]))[1:]
        if e["t"] == "byte":
            return "b'%s'" % chr(e["v"]) if 32 <= e["v"] < 127 else "0x%02x" % e["v"]
        if e["t"] == "char":
            return "'%s'" % chr(e["v"])
        return str(e["v"])
    if k == "path":
        return e["p"]
    if k == "call":
        return "%s(%s)" % (expr_text(e["f"]), ", ".join(expr_text(a) for a in e["args"]))
    if k == "mcall":
        return "%s.%s(%s)" % (expr_text(e["recv"]), e["m"], ", ".join(expr_text(a) for a in e["args"]))
    if k == "bin":
        return "(%s %s %s)" % (expr_text(e["l"]), e["op"], expr_text(e["r"]))
    if k == "un":
        return "%s%s" % (e["op"], expr_text(e["e"]))
    if k == "field":
        return "%s.%s" % (expr_text(e["e"]), e["name"])
    if k == "index":
        return "%s[%s]" % (expr_text(e["e"]), expr_text(e["i"]))
    if k == "ref":
        return "&%s%s" % ("mut " if e["mut"] else "", expr_text(e["e"]))
    if k == "cast":
        return "(%s as %s)" % (expr_text(e["e"]), e["ty"])
    if k == "try":
        return expr_text(e["e"]) + "?"
    if k == "tuple":
        return "(%s)" % ", ".join(expr_text(a) for a in e["elems"])
    if k == "array":
        return "[%s]" % ", ".join(expr_text(a) for a in e["elems"])
    if k == "range":
        return "%s..%s%s" % (expr_text(e["lo"]), "=" if e["incl"] else "", expr_text(e["hi"]))
    if k == "macro":
        return "%s!(..)" % e["short"]
    if k == "struct":
        return "%s{..}" % e["path"]
    if k == "closure":
        return "|..| " + expr_text(e["body"])
    if k == "block":
        return "{..}"
    if k == "if":
        return "if %s {..}" % expr_text(e["cond"])
    if k == "match":
        return "match %s {..}" % expr_text(e["e"])
    return "<%s>" % k


def pat_text(p):
    if p is None:
        return ""
    k = p.get("k")
    if k == "ident":
        return p["name"] + (("@" + pat_text(p["sub"])) if p.get("sub") else "")
    if k == "lit":
        return expr_text(p["e"])
    if k == "range":
        return "%s..%s%s" % (expr_text(p["lo"]), "=" if p["incl"] else "", expr_text(p["hi"]))
    if k == "or":
        return " | ".join(pat_text(c) for c in p["cases"])
    if k == "tuple":
        return "(%s)" % ", ".join(pat_text(c) for c in p["elems"])
    if k == "tstruct":
        return "%s(%s)" % (p["path"], ", ".join(pat_text(c) for c in p["elems"]))
    if k == "struct":
        return "%s{%s}" % (p["path"], ", ".join(f["name"] for f in p["fields"]))
    if k == "wild":
        return "_"
    if k == "path":
        return p["p"]
    if k == "ref":
        return "&" + pat_text(p["pat"])
    if k == "slice":
        return "[%s]" % ", ".join(pat_text(c) for c in p["elems"])
    if k == "rest":
        return ".."
    return "<%s>" % k
