"""C14 — streaming base64 codec: RFC 4648 tables, 3<->4 bit regrouping, padding, carry state machine, copy = min(available, room),
short-read rule, length error (DESIGN §5 C14 clauses a, b, c-shape, d, e).

How it is decided.  The codec's *source* (src.json) is evaluated symbolically by `SymInterp` (a subclass of the shared evaluator
sa/consteval.py; nothing of the repository is run): control state is concrete and enumerated (carry index, input lengths, destination
sizes, how the inner reader cuts the stream), every data byte is a symbol whose bits are tracked exactly by sa/bitflow.py.  Rules
therefore compare *values* with RFC 4648 (which bit of which octet reaches which index bit of which emitted character; which bytes read()
delivers, when it errs), not statements: helper extraction / inlining, array literal vs element stores, match vs if, loops vs iterator
chains, named constants, hoisted locals, flipped comparisons, fast paths and debug_assert!s do not change the verdict.  A data-dependent
branch, an unknown method or a would-be panic is `Unsupported` -> anchor (fail closed).
MIR shape rules (Counts / retry_loop / check_reads / check_read_min / check_dec_use) are kept as *diagnostics*: their findings are reported
only for a clause the evaluation did not establish (they then name the deviating construct); on code of another shape they are notes.
Numeric panic-freedom (clauses c/f BOUNDS, INT) is NOT done here: see `obligations`."""
import copy
import json
import os
import re
from collections import defaultdict

from .. import bitflow as bf
from .. import consteval as ce
from ..mir import call_matches, callee_name, op_local, op_const_int
from ..flow import resolve_place, arg_place, origins, err_return_blocks, ok_return_blocks, writes_to_field, expr as fexpr
from ..src import lit_int, expr_text, pat_text

REF = os.path.join(os.path.dirname(os.path.dirname(os.path.abspath(__file__))), "refs", "rfc4648.json")


def codec_fields(prog):
    """field names by role (robust to renaming): encoder (carry, index), decoder (buffer, capacity, consumed offset, filled size)"""
    def fields(path):
        vs = prog.adts.get(path, {}).get("variants", [])
        return vs[0]["fields"] if len(vs) == 1 else []
    enc = fields("encoder::Base64Encoder")
    e_idx = [f["name"] for f in enc if f["ty"] == "usize"]
    dec = fields("decoder::Base64Decoder")
    arr = [(f["name"], int(re.match(r"^\[u8; (\d+)\]$", f["ty"]).group(1))) for f in dec if re.match(r"^\[u8; (\d+)\]$", f["ty"])]
    us = [f["name"] for f in dec if f["ty"] == "usize"]
    off = size = None
    if len(us) == 2 and len(arr) == 1:
        # the window handed out is <buffer>[offset..size]: a Range over the two usize fields that indexes the array field
        for b in prog.bodies:
            if not (b.impl_self and re.search(r"(^|::)Base64Decoder\b", b.impl_self)):
                continue
            for _, t in b.calls():
                if not call_matches(t, r"Index(Mut)?<I>.*::index(_mut)?$") or len(t["args"]) != 2:
                    continue
                rg = range_def(b, t, 1)
                if rg and rg[0] == "Range" and all(x[0] == "place" for x in rg[1]):
                    m0, m1 = (re.fullmatch(r"\(\*_1\)\.(\w+)", x[1]) for x in rg[1])
                    if m0 and m1 and {m0.group(1), m1.group(1)} == set(us):
                        off, size = m0.group(1), m1.group(1)
    return {"enc_index": e_idx[0] if len(e_idx) == 1 else None, "dec_buffer": arr[0][0] if len(arr) == 1 else None,
            "dec_cap": arr[0][1] if len(arr) == 1 else None, "dec_offset": off, "dec_size": size}


def suffix_prefix_lemmas(prog):
    """Lemma SUFFIX-PREFIX for `s[a..][..n]` (the same sub-slice as `s[a..a + n]`): the range index `[..n]` on the suffix `s[a..]` is in
    bounds when n = min(.., s.len() - a, ..) and `a` is not assigned between that minimum and the indexing — then n <= len(s) - a =
    len(s[a..]) (that `a <= s.len()` is the obligation of the first index, discharged on its own).  The side conditions are re-checked on
    the MIR terms on every run; the abstract interpreter does not relate the length of a suffix to the length of the slice."""
    from .. import obligations as obl, oblrules
    out = {}
    for b in prog.bodies:
        if not b.file.endswith(("decoder.rs", "encoder.rs")) or not (b.impl_self and re.search(r"(^|::)Base64(De|En)coder\b", b.impl_self)):
            continue
        obs = [o for o in obl.collect(b, lossy=False, unsafe=True) if not o.exp]
        cand = [o for o in obs if o.kind == "RANGEIDX" and o.term is not None and o.term.get("k") == "call"]
        if not cand:
            continue
        keys = oblrules.site_keys(obs)
        cfg = b.cfg()
        for o in cand:
            t = o.term
            try:
                rg = range_def(b, t, 1)
                t2 = call_def(b, t["args"][0])
                if not (rg and rg[0] == "RangeTo" and t2 is not None and call_matches(t2, r"Index(Mut)?<I>.*::index(_mut)?$")):
                    continue
                rg2 = range_def(b, t2, 1)
                if not (rg2 and rg2[0] == "RangeFrom"):
                    continue
                n, a = rg[1][0], rg2[1][0]
                S = arg_place(b, t2, 0)
                if n[0] != "min" or ("sub", ("len", S), a) not in n[1:]:
                    continue
                # the minimum is computed once (a call result) and `a` keeps its value from there to the indexing
                el = op_local(agg_def(b, t["args"][1])["fields"][0])
                mins = [(bb, rv) for l in ([el] if el is not None else []) for (bb, si, rv) in _chase(b, l)]
                if len(mins) != 1:
                    continue
                min_bb = mins[0][0]
                tb = [bb for bb, tt in b.calls() if tt is t]
                if len(tb) != 1:
                    continue
                if a[0] == "var":
                    between = cfg.reachable_from(min_bb, removed={tb[0]}) | {min_bb}
                    if any(bb in between and bb != min_bb for (bb, si, rv) in b.defs_of(a[1])):
                        continue
                elif a[0] not in ("c", "arg"):
                    continue
            except (KeyError, IndexError, TypeError):
                continue
            out[(b.path, keys[id(o)])] = ("SUFFIX-PREFIX", "`s[a..][..n]` with n = min(.., s.len() - a): n <= len of the suffix")
    return out


def _item_source(body, o, depth=0):
    """the call whose `Some` payload the operand (a slice reference) is: through moves, reborrows `&(*x)` and `(opt as Some).0`"""
    l = op_local(o)
    while l is not None and depth < 10:
        depth += 1
        ds = body.defs_of(l)
        if len(ds) != 1:
            return None
        bb, si, rv = ds[0]
        if si == "term":
            return None
        if rv["k"] == "ref" and len(rv["place"]["p"]) == 1 and rv["place"]["p"][0]["k"] == "deref":
            l = rv["place"]["l"]
            continue
        if rv["k"] == "use" and rv["a"]["k"] in ("copy", "move"):
            pl = rv["a"]["place"]
            if not pl["p"]:
                l = pl["l"]
                continue
            pj = pl["p"]
            if len(pj) == 2 and pj[0].get("k") == "downcast" and pj[1].get("k") == "field" and pj[1].get("i") == 0:
                od = body.defs_of(pl["l"])
                if len(od) == 1 and od[0][1] == "term" and str(body.local_ty(pl["l"])).startswith("std::option::Option<"):
                    return od[0][2]
        return None
    return None


def chunks_exact_lemmas(prog):
    """Lemma CHUNKS-EXACT for `dst.copy_from_slice(chunk)` with `dst: [T; N]` and `chunk` an item of `s.chunks_exact(N)`: every item of
    ChunksExact has exactly the chunk size (std contract), so the two lengths are equal.  Side conditions re-checked on the MIR on every
    run: every ChunksExact value of the function comes from a `chunks_exact(_, c)` call with the same literal c (or from the identity
    adaptors by_ref / into_iter of one), none is received as an argument; the source operand is the `Some` payload of an
    `Iterator::next` on (references to) a ChunksExact; the destination is an unsized `[T; N]` with N == c."""
    from .. import obligations as obl, oblrules
    out = {}
    CE = r"^(&(mut )?)*std::slice::ChunksExact(Mut)?<"
    for b in prog.bodies:
        if not b.file.endswith(("decoder.rs", "encoder.rs")) or not (b.impl_self and re.search(r"(^|::)Base64(De|En)coder\b", b.impl_self)):
            continue
        sizes, ok = set(), True
        for i in range(1, b.arg_count + 1):
            if "ChunksExact" in str(b.local_ty(i)):
                ok = False
        for bb, t in b.calls():
            dl = t["dest"]["l"]
            if "ChunksExact" not in str(b.local_ty(dl)):
                continue
            if call_matches(t, r"::chunks_exact(_mut)?$") and len(t["args"]) == 2 and op_const_int(t["args"][1]) is not None and re.match(CE, str(b.local_ty(dl))):
                sizes.add(op_const_int(t["args"][1]))
            elif call_matches(t, r"(Iterator::by_ref|IntoIterator>?::into_iter)$") and len(t["args"]) == 1 and re.match(CE, str(b.local_ty(dl))):
                pass
            else:
                ok = False
        if not ok or len(sizes) != 1:
            continue
        c = next(iter(sizes))
        obs = [o for o in obl.collect(b, lossy=False, unsafe=True) if not o.exp]
        keys = oblrules.site_keys(obs)
        for o in obs:
            t = o.term
            if o.kind != "LIBPRE" or t is None or t.get("k") != "call" or not call_matches(t, r"::(copy|clone)_from_slice$") or len(t["args"]) != 2:
                continue
            try:
                dl = op_local(t["args"][0])
                dd = b.defs_of(dl) if dl is not None else []
                if len(dd) != 1 or dd[0][1] == "term" or dd[0][2]["k"] != "cast" or "Unsize" not in str(dd[0][2].get("ck")):
                    continue
                src_l = op_local(dd[0][2].get("a") or dd[0][2].get("e"))
                m = re.fullmatch(r"&(?:'\w+ )?mut \[.+; (\d+)\]", str(b.local_ty(src_l))) if src_l is not None else None
                if not m or int(m.group(1)) != c:
                    continue
                nx = _item_source(b, t["args"][1])
                if nx is None or not call_matches(nx, r"Iterator>?::next$") or len(nx["args"]) != 1:
                    continue
                rl = op_local(nx["args"][0])
                if rl is None or not re.match(CE, str(b.local_ty(rl))):
                    continue
            except (KeyError, IndexError, TypeError):
                continue
            out[(b.path, keys[id(o)])] = ("CHUNKS-EXACT", "`[T; %d]::copy_from_slice(item of chunks_exact(%d))`: every item has the chunk size" % (c, c))
    return out


def _chase(body, l, depth=0):
    """the call definition a local's value comes from through plain moves: [(bb, 'term', call)] or []"""
    ds = body.defs_of(l)
    if len(ds) != 1 or depth > 10:
        return []
    bb, si, rv = ds[0]
    if si == "term":
        return [ds[0]]
    if rv["k"] == "use" and op_local(rv["a"]) is not None:
        return _chase(body, op_local(rv["a"]), depth + 1)
    return []


def _obligations(ctx):
    """one pass over ctx.prog (the program, or a view of it with private helpers expanded)"""
    from .. import structinv, oblrules
    prog = ctx.prog
    fl = codec_fields(prog)
    if None in fl.values():
        ctx.anchor("TOTAL", "codec-fields", "Base64Encoder{[u8;N], usize} / Base64Decoder{[u8;N], usize offset, usize size} not recognised: %s" % fl)
        return
    inv_enc = {"fields": {fl["enc_index"]: (0, 2)}}
    cap = fl["dec_cap"]
    inv_dec = {"fields": {fl["dec_size"]: (0, cap), fl["dec_offset"]: (0, cap)}, "diffs": [(fl["dec_offset"], fl["dec_size"], 0)]}
    ok1, e1 = structinv.establish(ctx, "INV-ENCODER", "encoder::Base64Encoder", inv_enc)
    ok2, e2 = structinv.establish(ctx, "INV-DECODER", "decoder::Base64Decoder", inv_dec)
    ef = {}
    invs = {}
    if ok1:
        ef.update(e1)
        invs["encoder::Base64Encoder"] = inv_enc
    if ok2:
        ef.update(e2)
        invs["decoder::Base64Decoder"] = inv_dec
    entries = [b.path for b in prog.bodies if b.kind == "AssocFn" and re.sub(r"<.*$", "", b.impl_self or "") in ("encoder::Base64Encoder", "decoder::Base64Decoder")]
    ctx.assume("an io::Write/Read call on a Base64 codec object is not repeated after it returned Err (the carry index may then be 3)")
    oblrules.run(ctx, "TOTAL", entries, lossy=False, entry_facts=ef, invariants=invs, floor_bodies=5, lemmas={**suffix_prefix_lemmas(prog), **chunks_exact_lemmas(prog)},
                 scope=lambda b: b.file.endswith(("decoder.rs", "encoder.rs")),
                 desc="no reachable panic/overflow/out-of-bounds/length-mismatch in the base64 encoder and decoder")


class Recorder:
    """stands in for the check context during one pass of the numeric obligations, so that the pass that proves them is the one reported"""

    def __init__(self, ctx, prog):
        self.ctx, self.prog, self.src, self.tier = ctx, prog, ctx.src, ctx.tier
        self.log, self.failed, self.extra = [], [], {}

    def _call(self, name, *a, **kw):
        self.log.append((name, a, kw))

    def rule(self, *a, **kw):
        self._call("rule", *a, **kw)

    def instance(self, *a, **kw):
        self._call("instance", *a, **kw)

    def oblig(self, *a, **kw):
        self._call("oblig", *a, **kw)

    def trust(self, *a, **kw):
        self._call("trust", *a, **kw)

    def assume(self, *a, **kw):
        self._call("assume", *a, **kw)

    def note(self, *a, **kw):
        self._call("note", *a, **kw)

    def violation(self, rule, where, shape, msg, sites=(), detail=None):
        self.failed.append(where)
        self._call("violation", rule, where, shape, msg, sites=sites, detail=detail)

    def anchor(self, rule, what, msg=None):
        self.failed.append("ANCHOR")
        self._call("anchor", rule, what, msg)

    def replay(self):
        for name, a, kw in self.log:
            getattr(self.ctx, name)(*a, **kw)
        for k, v in self.extra.items():
            if isinstance(v, dict):
                self.ctx.extra.setdefault(k, {}).update(v)
            else:
                self.ctx.extra[k] = v


def sole_caller_helpers(prog):
    """{helper path: root path}: private fns / inherent methods of the codec files all of whose call sites lie in one function (sa/inline.py)"""
    from .. import inline
    out = {}
    for b in prog.bodies:
        if b.kind not in ("Fn", "AssocFn") or b.impl_trait or not b.file.endswith(("decoder.rs", "encoder.rs")):
            continue
        roots = set()
        for c in inline.callers_of(prog, b.path):
            cb = prog.body(c)
            roots.add((cb.closure_root or cb.path) if cb is not None else c)
        if len(roots) == 1:
            r = next(iter(roots))
            rb = prog.body(r)
            if rb is not None and rb.impl_self and re.search(r"(^|::)Base64(De|En)coder\b", rb.impl_self) and inline.inlinable(prog, b, r):
                out[b.path] = r
    return out


def inline_only(prog, path, only, depth=3):
    """the expansion of sa/inline.py restricted to the callees named in `only` (each still subject to inline.inlinable)"""
    from .. import inline
    from ..mir import Body
    base = prog.body(path)
    if base is None:
        return None
    root = base.closure_root or base.path
    j = None
    work = list(range(len(base.blocks)))
    level = {i: 0 for i in work}
    blocks, locals_, vars_ = base.blocks, base.locals, base.j["vars"]
    while work:
        bb = work.pop(0)
        blk = blocks[bb]
        t = blk["term"]
        if t["k"] != "call" or level.get(bb, 0) >= depth or blk["cleanup"]:
            continue
        f = t["fn"]
        cpath = f.get("resolved") if f.get("resolved_local") else (f.get("path") if f.get("local") else None)
        callee = prog.body(cpath) if cpath else None
        if callee is None or callee.path not in only or len(t["args"]) != callee.arg_count or not inline.inlinable(prog, callee, root):
            continue
        if j is None:
            j = copy.deepcopy(base.j)
            blocks, locals_, vars_ = j["blocks"], j["locals"], j["vars"]
            blk = blocks[bb]
            t = blk["term"]
        lo, bo = len(locals_), len(blocks)
        locals_.extend(copy.deepcopy(callee.locals))
        for v in callee.j["vars"]:
            vars_.append({"name": v["name"], "place": inline._shift(v["place"], lo, 0)})
        for k, a in enumerate(t["args"]):
            blk["stmts"].append({"k": "assign", "place": {"l": lo + 1 + k, "p": []}, "rv": {"k": "use", "a": a}, "line": t.get("line", 0), "exp": False, "expk": "", "inl_arg": callee.path})
        dest, target, line = t["dest"], t["t"], t.get("line", 0)
        blk["term"] = {"k": "goto", "t": bo, "inl_call": callee.path, "line": line}
        for i, cb in enumerate(callee.blocks):
            nb = inline._shift(cb, lo, bo)
            nb["inl_from"] = cb.get("inl_from") or callee.path
            if nb["term"]["k"] == "return":
                nb["stmts"].append({"k": "assign", "place": dest, "rv": {"k": "use", "a": {"k": "move", "place": {"l": lo, "p": []}}}, "line": line, "exp": False, "expk": "", "inl_ret": callee.path})
                nb["term"] = {"k": "goto", "t": target} if target >= 0 else {"k": "unreachable"}
            blocks.append(nb)
            level[bo + i] = level.get(bb, 0) + 1
            work.append(bo + i)
    if j is None:
        return base
    return forward_refs(Body(j, prog))


def forward_refs(body):
    """Copy propagation of references in a freshly expanded body (its json is private to it): a reference local defined exactly once, as
    `&[mut] P` or as a copy/move of another such local, is replaced where it is dereferenced by the place it points to, provided that place
    is made of derefs and fields only (stable).  `(*_A).size` of an expanded `&mut self` helper then reads `(*_1).size`, the form under
    which the struct invariant and the caller's facts are known to the abstract interpreter."""
    from ..mir import Body
    j = body.j
    defs = defaultdict(list)
    for b in j["blocks"]:
        for s in b["stmts"]:
            if s["k"] == "assign" and not s["place"]["p"]:
                defs[s["place"]["l"]].append(s["rv"])
        t = b["term"]
        if t["k"] == "call" and not t["dest"]["p"]:
            defs[t["dest"]["l"]].append(None)
    argc = j["arg_count"]

    def target(l, seen):
        if l <= argc:
            return None
        if l in seen or len(defs.get(l, [])) != 1 or defs[l][0] is None or not str(body.local_ty(l)).startswith("&"):
            return None
        rv = defs[l][0]
        if rv["k"] == "ref":
            r = resolve({"l": rv["place"]["l"], "p": list(rv["place"]["p"])}, seen + (l,))
        elif rv["k"] == "use" and rv["a"]["k"] in ("copy", "move") and not rv["a"]["place"]["p"]:
            r = resolve({"l": rv["a"]["place"]["l"], "p": [{"k": "deref"}]}, seen + (l,))
            if r["p"] and r["p"][0]["k"] == "deref" and r["l"] == rv["a"]["place"]["l"] and r["l"] > argc:
                return None         # a reference of unknown origin: leave it
        else:
            return None
        if r["l"] <= argc and defs.get(r["l"]):
            return None             # an argument that is assigned to
        return r if all(e["k"] in ("deref", "field") for e in r["p"]) else None

    def resolve(p, seen=()):
        if p["p"] and p["p"][0]["k"] == "deref":
            tg = target(p["l"], seen)
            if tg is not None:
                return {"l": tg["l"], "p": tg["p"] + p["p"][1:]}
        return p

    def rewrite(n):
        if isinstance(n, list):
            for x in n:
                rewrite(x)
        elif isinstance(n, dict):
            if isinstance(n.get("l"), int) and isinstance(n.get("p"), list) and n["p"] and isinstance(n["p"][0], dict) and n["p"][0].get("k") == "deref":
                r = resolve(n)
                n["l"], n["p"] = r["l"], r["p"]
            for v in n.values():
                rewrite(v)
    for b in j["blocks"]:
        rewrite(b["stmts"])
        rewrite(b["term"])
    return Body(j, body.prog)


def expanded_view(prog, only):
    """program in which the helpers named in `only` are expanded into their (sole) callers and no longer exist as bodies"""
    repl, absorbed = {}, set()
    for b in prog.bodies:
        if b.path in only or not b.file.endswith(("decoder.rs", "encoder.rs")):
            continue
        ib = inline_only(prog, b.path, only)
        if ib is not None and ib is not b:
            repl[b.path] = ib
            absorbed |= {blk["inl_from"] for blk in ib.blocks if blk.get("inl_from")}
    if not repl:
        return prog, set()
    p2 = copy.copy(prog)
    p2.bodies = []
    for b in prog.bodies:
        if b.path in absorbed:
            continue
        b = repl.get(b.path, b)
        if b.closure_root in absorbed:          # a closure written in an expanded helper now belongs to the caller
            nb = copy.copy(b)
            r = b.closure_root
            while r in absorbed and r in only:
                r = only[r]
            nb.closure_root = r
            nb.j = dict(b.j, closure_root=r)
            b = nb
        p2.bodies.append(b)
    p2.by_path = defaultdict(list)
    for b in p2.bodies:
        p2.by_path[b.path].append(b)
    p2._cg = None
    p2.__dict__.pop("_inl_cache", None)
    return p2, absorbed


_CMPS = ("Lt", "Le", "Gt", "Ge", "Eq", "Ne")
_UINT_TYS = ("u8", "u16", "u32", "u64", "u128", "usize")


def normalise_difference_guards(body):
    """Equivalent form of comparisons of a checked difference, in the terms the abstract interpreter refines: with `t = A - x` computed by
    a *checked* subtraction (MIR `SubWithOverflow` + `assert(!overflow)`, so 0 <= x <= A holds wherever t is read) `t OP K` is the same
    condition as `A OP x + K` (add x to both sides) for every comparison OP and either operand order.  The interpreter relates `x + K`
    to x (a symbol plus an offset) but not `A - x` to x, so a guard written `cap - used >= 3` would not bound `used` whereas the same guard
    written `used + 3 <= cap` does.  The rewritten statement reads copies of A and x taken at the subtraction (fresh locals that nothing
    else writes or invalidates); the added `x + K` is a plain Add: the interpreter makes it TOP when it may not fit the type, so a wrap
    cannot be mistaken for the mathematical sum.  No obligation is added or removed (those are the `assert` terminators, untouched).
    Returns the body itself when nothing of this shape occurs."""
    from ..mir import Body
    cfg = None
    plan = []
    for bb, blk in enumerate(body.blocks):
        if blk["cleanup"]:
            continue
        for si, st in enumerate(blk["stmts"]):
            if st["k"] != "assign" or st["rv"]["k"] != "bin" or st["rv"]["op"] not in _CMPS:
                continue
            for side, other in (("a", "b"), ("b", "a")):
                o = st["rv"][side]
                if o["k"] not in ("copy", "move") or o["place"]["p"]:
                    continue
                T = o["place"]["l"]
                if body.local_ty(T) not in _UINT_TYS:
                    continue
                ds = body.defs_of(T)
                if len(ds) != 1 or ds[0][1] == "term":
                    continue
                tb, tsi, rv = ds[0]
                if not (rv["k"] == "use" and rv["a"]["k"] in ("copy", "move") and len(rv["a"]["place"]["p"]) == 1
                        and rv["a"]["place"]["p"][0].get("k") == "field" and rv["a"]["place"]["p"][0].get("i") == 0):
                    continue
                P = rv["a"]["place"]["l"]
                pd = body.defs_of(P)
                if len(pd) != 1 or pd[0][1] == "term" or pd[0][2]["k"] != "bin" or pd[0][2]["op"] != "SubWithOverflow":
                    continue
                pb, psi, prv = pd[0]
                at = body.blocks[pb]["term"]
                if not (at["k"] == "assert" and at.get("expected") is False and at["cond"]["k"] in ("copy", "move")
                        and at["cond"]["place"]["l"] == P and len(at["cond"]["place"]["p"]) == 1 and at["cond"]["place"]["p"][0].get("i") == 1):
                    continue
                # the difference is read only past the overflow check: its (single) definition lies in the block the assert continues
                # to, which is entered from the assert only; the comparison is dominated by it
                cfg = cfg or body.cfg()
                if at["t"] != tb or cfg.pred[tb] != [pb] or not (tb == bb and tsi < si or (tb != bb and cfg.dominates(tb, bb))):
                    continue
                # other writes to P's fields (none in rustc's MIR) would invalidate the reading
                if any(s2["k"] == "assign" and s2["place"]["l"] == P and s2["place"]["p"] for b2 in body.blocks for s2 in b2["stmts"]):
                    continue
                plan.append((bb, si, side, other, pb, psi))
                break
    if not plan:
        return body
    j = copy.deepcopy(body.j)
    blocks, locals_ = j["blocks"], j["locals"]
    inserts = defaultdict(list)          # block -> [(index before which to insert, stmt)]
    saved = {}                           # (pb, psi) -> (local of A, local of x)
    for bb, si, side, other, pb, psi in plan:
        sub = blocks[pb]["stmts"][psi]
        line = sub.get("line", 0)
        if (pb, psi) not in saved:
            ty = body.local_ty(blocks[bb]["stmts"][si]["rv"][side]["place"]["l"])
            la, lx = len(locals_), len(locals_) + 1
            locals_.extend([{"ty": ty, "mut": True}, {"ty": ty, "mut": True}])
            for l, opnd in ((la, sub["rv"]["a"]), (lx, sub["rv"]["b"])):
                c = copy.deepcopy(opnd)
                if c["k"] == "move":
                    c["k"] = "copy"
                inserts[pb].append((psi + 1, {"k": "assign", "place": {"l": l, "p": []}, "rv": {"k": "use", "a": c}, "line": line, "exp": False, "expk": "", "norm": "difference-guard"}))
            saved[(pb, psi)] = (la, lx, ty)
        la, lx, ty = saved[(pb, psi)]
        cmp_ = blocks[bb]["stmts"][si]
        ls = len(locals_)
        locals_.append({"ty": ty, "mut": True})
        inserts[bb].append((si, {"k": "assign", "place": {"l": ls, "p": []}, "line": cmp_.get("line", 0), "exp": False, "expk": "", "norm": "difference-guard",
                                 "rv": {"k": "bin", "op": "Add", "a": {"k": "copy", "place": {"l": lx, "p": []}}, "b": cmp_["rv"][other]}}))
        cmp_["rv"][side] = {"k": "copy", "place": {"l": la, "p": []}}
        cmp_["rv"][other] = {"k": "move", "place": {"l": ls, "p": []}}
    for bb, ins in inserts.items():
        for idx, stmt in sorted(ins, key=lambda x: -x[0]):
            blocks[bb]["stmts"].insert(idx, stmt)
    return Body(j, body.prog)


def replaced_view(prog, repl):
    """program in which the bodies named in repl are replaced"""
    if not repl:
        return prog
    p2 = copy.copy(prog)
    p2.bodies = [repl.get(b.path, b) for b in prog.bodies]
    p2.by_path = defaultdict(list)
    for b in p2.bodies:
        p2.by_path[b.path].append(b)
    p2._cg = None
    p2.__dict__.pop("_inl_cache", None)
    return p2


def normalised_view(prog):
    repl = {}
    for b in prog.bodies:
        if b.file.endswith(("decoder.rs", "encoder.rs")) and b.impl_self and re.search(r"(^|::)Base64(De|En)coder\b", b.impl_self):
            nb = normalise_difference_guards(b)
            if nb is not b:
                repl[b.path] = nb
    return replaced_view(prog, repl)


def decision_table_view(ctx):
    """View of the program in which a pure `fn([u8; N]) -> usize` of Base64Decoder (N <= 4, e.g. the size-from-padding function) is replaced
    by its decision table over the classes {pad, not pad} of the input bytes: a tree of `chunk[k] == '='` tests with constant leaves.  The table
    is computed by the symbolic evaluator (SymInterp over the syn tree, every byte either the pad value or an opaque non-pad cell that only
    admits ==/!= against the pad value), exhaustively over the 2^N class vectors - these cover every concrete input, and an evaluation that
    would panic, overflow or inspect a byte in any other way is Unsupported (then nothing is replaced).  The interval engine then sees the exact
    result set whatever idiom (if chain, match, position().map_or(..), filter().count() ..) the function is written in.  Obligations inside
    the replaced function are those of the exhaustive evaluation (all intermediate values concrete and <= N + 1)."""
    from ..mir import Body
    prog, src = ctx.prog, ctx.src
    try:
        padv = ord(json.load(open(REF))["alphabet"]["pad"])
    except Exception:
        return prog, []

    def compare(op, a, b):
        if isinstance(b, NonPad):
            a, b = b, a
        if isinstance(a, NonPad) and _is_int(b) and b == padv and op in ("==", "!="):
            return op == "!="
        raise ce.Unsupported("comparison of a chunk byte with something else than the pad value")
    repl, names = {}, []
    for b in prog.bodies:
        if b.kind != "AssocFn" or b.impl_trait or not (b.impl_self and re.search(r"(^|::)Base64Decoder\b", b.impl_self)) or b.arg_count != 1:
            continue
        m = re.fullmatch(r"\[u8; (\d+)\]", str(b.local_ty(1)))
        if not m or not 1 <= int(m.group(1)) <= 4 or b.local_ty(0) != "usize" or (b.j.get("vis") or "") == "Public":
            continue
        if not any(blk["term"]["k"] == "call" for blk in b.blocks):
            continue                            # already plain tests and constants
        n = int(m.group(1))
        f = src.fn(b.name, impl_self=r"Base64Decoder.*")
        if f is None or param_name(f[1]) is None:
            continue
        table = {}
        try:
            for bits in range(1 << n):
                it = SymInterp(src)
                it.compare_hook = compare
                cls = tuple(bool(bits >> k & 1) for k in range(n))
                got = it.run_item(f[1], "Base64Decoder", [[padv if cls[k] else NonPad(k) for k in range(n)]], f[0])
                if not _is_int(got) or isinstance(got, bool) or not 0 <= got <= n + 1:
                    raise ce.Unsupported("result %r" % (got,))
                table[cls] = got
        except (ce.Unsupported, KeyError, IndexError, TypeError, ValueError, AttributeError, RecursionError):
            continue
        locals_ = [{"ty": "usize", "mut": True}, {"ty": "[u8; %d]" % n, "mut": False}]
        blocks = [{"cleanup": False, "stmts": [], "term": {"k": "goto", "t": 2}}, {"cleanup": False, "stmts": [], "term": {"k": "return"}}]
        line = f[1].get("line", 0)

        def build(prefix):
            vals = {v for c, v in table.items() if c[:len(prefix)] == prefix}
            bb = len(blocks)
            if len(vals) == 1:
                v = vals.pop()
                blocks.append({"cleanup": False, "term": {"k": "goto", "t": 1}, "stmts": [
                    {"k": "assign", "place": {"l": 0, "p": []}, "rv": {"k": "use", "a": {"k": "const", "c": {"ty": "usize", "int": str(v), "text": "%d_usize" % v}}},
                     "line": line, "exp": False, "expk": "", "norm": "decision-table"}]})
                return bb
            k = len(prefix)
            lt, lc = len(locals_), len(locals_) + 1
            locals_.extend([{"ty": "u8", "mut": True}, {"ty": "bool", "mut": True}])
            blk = {"cleanup": False, "stmts": [
                {"k": "assign", "place": {"l": lt, "p": []}, "line": line, "exp": False, "expk": "", "norm": "decision-table",
                 "rv": {"k": "use", "a": {"k": "copy", "place": {"l": 1, "p": [{"k": "cindex", "offset": k, "min_length": n, "from_end": False}]}}}},
                {"k": "assign", "place": {"l": lc, "p": []}, "line": line, "exp": False, "expk": "", "norm": "decision-table",
                 "rv": {"k": "bin", "op": "Eq", "a": {"k": "move", "place": {"l": lt, "p": []}}, "b": {"k": "const", "c": {"ty": "u8", "int": str(padv), "text": "%d_u8" % padv}}}}],
                "term": None}
            blocks.append(blk)
            no = build(prefix + (False,))
            yes = build(prefix + (True,))
            blk["term"] = {"k": "switch", "d": {"k": "move", "place": {"l": lc, "p": []}}, "dty": "bool", "vals": ["0"], "targets": [no], "otherwise": yes, "line": line, "exp": False}
            return bb
        build(())
        j = copy.deepcopy({k_: v_ for k_, v_ in b.j.items() if k_ not in ("blocks", "locals", "vars", "promoted")})
        j.update({"locals": locals_, "blocks": blocks, "promoted": [], "vars": [v_ for v_ in copy.deepcopy(b.j.get("vars", [])) if v_.get("place", {}).get("l") == 1]})
        repl[b.path] = Body(j, b.prog)
        names.append("%s %s" % (b.path, sorted(set(table.values()))))
    return replaced_view(prog, repl), names


def obligations(ctx):
    """Numeric obligations of clauses (c)/(f): BOUNDS on `[u8;3]`/`[u8;64]`, RANGEIDX, overflow, copy_from_slice lengths — no panic in
    Reach(Base64Decoder::read, Base64Encoder::{write,finish}) — discharged by the abstract interpreter under two inductive struct
    invariants that are themselves proven (sa/structinv.py): encoder carry index in 0..=2, decoder 0 <= buffer_offset <= buffer_size <= 64.
    The proof is modular: every method assumes the invariant and re-establishes it.  A private helper that was split off a method (all of its
    call sites in one function) need not do so on its own; when the modular pass leaves something open, the helpers involved are expanded
    into their callers (MIR inlining + forwarding of the `&mut self` reborrows) and the pass is repeated on that view of the program: a proof
    of the expanded program is a proof of the program.  The first pass that discharges everything is the one reported."""
    first = Recorder(ctx, normalised_view(ctx.prog))
    _obligations(first)
    if not first.failed:
        first.replay()
        return
    tview, tnames = decision_table_view(ctx)
    if tnames:
        rec = Recorder(ctx, normalised_view(tview))
        _obligations(rec)
        if not rec.failed:
            rec.replay()
            ctx.note("numeric obligations established with %s replaced by the decision table over pad / non-pad input bytes (symbolic evaluation)" % tnames)
            return
    helpers = sole_caller_helpers(ctx.prog)
    failing = set(first.failed)
    for b in ctx.prog.bodies:                       # a closure fails on behalf of the function it is written in
        if b.path in failing and b.closure_root:
            failing.add(b.closure_root)
    own = {h: r for h, r in helpers.items() if h in failing}                    # helpers that do not stand on their own
    callees = {h: r for h, r in helpers.items() if h in failing or r in failing}    # .. and helpers of functions that fail
    tried = []
    for only in (own, callees, helpers):
        if not only or only in tried:
            continue
        tried.append(only)
        view, absorbed = ctx.prog, set()
        for _ in range(3):                          # helpers of helpers
            view, ab = expanded_view(view, only)
            if not ab:
                break
            absorbed |= ab
        if not absorbed:
            continue
        rec = Recorder(ctx, normalised_view(view))
        _obligations(rec)
        if not rec.failed:
            rec.replay()
            ctx.note("numeric obligations established with the sole-caller helpers %s expanded into their callers" % sorted(absorbed))
            return
    first.replay()


# =============================================================================================
# reference data
# =============================================================================================
def load_ref(ctx):
    ref = json.load(open(REF))
    chars = ref["alphabet"]["chars"]
    bits = ref["quantum"]["bits"]
    ok = (len(chars) == 64 and len(set(chars)) == 64 and ref["alphabet"]["pad"] not in chars and len(bits) == 24
          and len({(r["octet"], r["octet_bit"]) for r in bits}) == 24 and len({(r["sextet"], r["sextet_bit"]) for r in bits}) == 24
          and all(r["group_bit"] == 8 * r["octet"] + 7 - r["octet_bit"] == 6 * r["sextet"] + 5 - r["sextet_bit"] for r in bits))
    if not ok:
        ctx.anchor("ALPHABET", "refs/rfc4648.json", "reference table is not self-consistent")
    ref["sx"] = {(r["sextet"], r["sextet_bit"]): (r["octet"], r["octet_bit"]) for r in bits}
    ref["oc"] = {(r["octet"], r["octet_bit"]): (r["sextet"], r["sextet_bit"]) for r in bits}
    ref["padv"] = ord(ref["alphabet"]["pad"])
    return ref


# =============================================================================================
# (a) tables
# =============================================================================================
def table_values(item):
    e = item["expr"]
    while e.get("k") in ("ref", "cast") or (e.get("k") == "un" and e.get("op") == "*"):
        e = e["e"]
    if e.get("k") == "lit" and e.get("t") == "bytestr":
        return list(e["v"])
    if e.get("k") == "array":
        vs = [lit_int(x) for x in e["elems"]]
        return None if any(v is None for v in vs) else vs
    if e.get("k") == "repeat":
        v, n = lit_int(e["e"]), lit_int(e["n"])
        return None if v is None or n is None else [v] * n
    return None


def const_table(ctx, cst):
    """values of a byte-table constant: literal forms directly, anything else through the source evaluator"""
    vs = table_values(cst[1])
    if vs is None:
        try:
            v = SymInterp(ctx.src).const(None, cst[1]["name"], cst[0])
        except ce.Unsupported:
            return None
        if isinstance(v, (bytes, list)) and all(_is_int(x) for x in v):
            vs = list(v)
    return vs


def check_tables(ctx, ref, enc_name, dec_name):
    ctx.rule("ALPHABET", "encoder table row i == RFC 4648 §4 Table 1 row i (64 rows, exhaustive)", floor=64)
    ctx.rule("DECODE-INVERSE", "DECODE[ENCODE[i]] == i for all 64 i; DECODE['='] == 0; DECODE has 256 rows", floor=66)
    enc = dec = None
    cst_e = ctx.src.const(enc_name) if enc_name else None
    cst_d = ctx.src.const(dec_name) if dec_name else None
    if cst_e is None or const_table(ctx, cst_e) is None:
        ctx.anchor("ALPHABET", "encoder-table", "the encoder's alphabet table %r is not a literal const" % enc_name)
    else:
        enc = const_table(ctx, cst_e)
        site = ["%s:%d" % (cst_e[0], cst_e[1]["line"])]
        if len(enc) != 64:
            ctx.violation("ALPHABET", enc_name, "length", "%s has %d rows, RFC 4648 has 64" % (enc_name, len(enc)), sites=site)
        for i, ch in enumerate(ref["alphabet"]["chars"]):
            ctx.instance("ALPHABET", {"row": i, "rfc": ch, "table": chr(enc[i]) if i < len(enc) else None})
            if i >= len(enc) or enc[i] != ord(ch):
                ctx.violation("ALPHABET", enc_name, "row%d" % i,
                              "%s[%d] is %r, RFC 4648 value %d is %r" % (enc_name, i, chr(enc[i]) if i < len(enc) else None, i, ch), sites=site)
    if cst_d is None or const_table(ctx, cst_d) is None:
        ctx.anchor("DECODE-INVERSE", "decoder-table", "the decoder's table %r is not a literal const" % dec_name)
    else:
        dec = const_table(ctx, cst_d)
        site = ["%s:%d" % (cst_d[0], cst_d[1]["line"])]
        ctx.instance("DECODE-INVERSE", {"rows": len(dec)})
        if len(dec) != 256:
            ctx.violation("DECODE-INVERSE", dec_name, "length", "%s has %d rows; it is indexed by an arbitrary byte (256)" % (dec_name, len(dec)), sites=site)
        ctx.instance("DECODE-INVERSE", {"pad": "=", "decodes_to": dec[ref["padv"]] if ref["padv"] < len(dec) else None})
        if ref["padv"] >= len(dec) or dec[ref["padv"]] != 0:
            ctx.violation("DECODE-INVERSE", dec_name, "pad", "%s[b'='] must be 0 (padding contributes zero bits)" % dec_name, sites=site)
        if enc is not None:
            for i in range(min(64, len(enc))):
                c = enc[i]
                got = dec[c] if c < len(dec) else None
                ctx.instance("DECODE-INVERSE", {"i": i, "char": chr(c), "decoded": got})
                if got != i:
                    ctx.violation("DECODE-INVERSE", dec_name, "row%d" % c,
                                  "%s[%s[%d]=%r] is %s, must be %d: the character does not decode to the sextet it encodes" % (dec_name, enc_name, i, chr(c), got, i), sites=site)
    return enc, dec


# =============================================================================================
# (b) symbolic evaluation of the codec's source: concrete control state, symbolic data bytes
# =============================================================================================
# The encoder / the two pure decoder functions are evaluated by `SymInterp`, a subclass of the shared source-level
# evaluator `sa.consteval.Interp` (nothing of the repository is run): the *control* state is concrete (carry index
# 0..3, number of input bytes, which chunk bytes are '='), every *data* byte is a symbol whose bits are tracked exactly
# by `sa.bitflow`.  What is decided is therefore the meaning of the code (which bit of which octet reaches which
# index bit of which emitted character, for every byte value), not the statements that compute it: helpers, array
# literals vs element stores, `match` vs `if`, iterator vs index access, named constants, renamed / hoisted locals
# all evaluate to the same values.  A data-dependent branch, an unknown method or operator raises `Unsupported`
# (reported as an anchor: fail closed).
class BV:
    """symbolic unsigned integer: per-bit provenance (sa.bitflow), LSB first"""
    __slots__ = ("bits",)

    def __init__(self, bits):
        self.bits = list(bits)

    def __repr__(self):
        return "BV(%s)" % bf.render(self.bits)


class NonPad:
    """a chunk byte of which only `!= '='` is known (size-from-padding function)"""
    __slots__ = ("k",)

    def __init__(self, k):
        self.k = k

    def __repr__(self):
        return "<non-pad byte %d>" % self.k


class Table(bytes):
    """value of a literal byte-table constant, remembering the constant's name"""
    name = None


class Writer:
    """an opaque io::Write object; write_all is recorded by the interpreter"""

    def __init__(self, name):
        self.name = name

    def __repr__(self):
        return "<writer %s>" % self.name


class SliceView:
    """`base[lo..hi]` aliasing base (stores go through)"""

    def __init__(self, base, lo, hi):
        while isinstance(base, SliceView):
            lo, hi, base = base.lo + lo, base.lo + hi, base.base
        self.base, self.lo, self.hi = base, lo, hi

    def __len__(self):
        return self.hi - self.lo

    def __getitem__(self, i):
        if not (0 <= i < len(self)):
            raise IndexError(i)
        return self.base[self.lo + i]

    def __setitem__(self, i, v):
        if not (0 <= i < len(self)) or not isinstance(self.base, list):
            raise IndexError(i)
        self.base[self.lo + i] = v

    def __iter__(self):
        return iter([self.base[i] for i in range(self.lo, self.hi)])


class IterV:
    """iterator over a snapshot of items.  Adaptors are evaluated eagerly on the remaining items; an iterator whose items went into an adaptor
    is `spent`: using it again (possible in Rust after `by_ref()`, where a lazy or short-circuiting adaptor may leave items) is Unsupported"""

    def __init__(self, items):
        self.items = list(items)
        self.pos = 0
        self.spent = False
        self.remainder = None       # chunks_exact: the tail that is not part of any chunk

    def _check(self):
        if self.spent:
            raise ce.Unsupported("an iterator is used again after an adaptor took its items (by_ref + adaptor is not modelled)")

    def next(self):
        self._check()
        if self.pos < len(self.items):
            self.pos += 1
            return ce.some(self.items[self.pos - 1])
        return ce.NONE

    def rest(self, spend=False):
        self._check()
        r = self.items[self.pos:]
        self.pos = len(self.items)
        self.spent = spend
        return r


class ElemRef:
    """`&mut base[i]` handed out by iter_mut(): `*r = v` stores through it"""

    def __init__(self, base, i):
        self.base, self.i = base, i

    def get(self):
        return self.base[self.i]

    def set(self, v):
        self.base[self.i] = v


class _BreakL(ce._Break):
    def __init__(self, label=None, value=()):
        self.label, self.value = label, value


class _ContinueL(ce._Continue):
    def __init__(self, label=None):
        self.label = label


def _mine(ex, label):
    """does this break / continue belong to the loop labelled `label`"""
    l = getattr(ex, "label", None)
    return l is None or l == label


def is_cell(v):
    return isinstance(v, tuple) and len(v) == 5 and v[0] == "tab"


def _seq(v):
    """items of a sequence value (None: not a sequence)"""
    if isinstance(v, IterV):
        return v.rest()
    if isinstance(v, (list, SliceView, bytes)):
        return list(v)
    return None


def _is_int(v):
    return isinstance(v, int) and not isinstance(v, bool)


def _is_opt(v, *names):
    return isinstance(v, tuple) and not isinstance(v, ce.EnumV) and len(v) in (1, 2) and v and v[0] in names


_CMP_OPS = ("==", "!=", "<", "<=", ">", ">=")
_ASSERTS = ("assert", "debug_assert", "assert_eq", "debug_assert_eq", "assert_ne", "debug_assert_ne")
_UINTS = ("u8", "u16", "u32", "u64", "u128", "usize")


class SymInterp(ce.Interp):
    def __init__(self, src):
        super().__init__(src)
        self.table_hook = None      # (Table, BV index, index node) -> value of `TABLE[<symbolic index>]`
        self.compare_hook = None    # (op, a, b) -> bool for a comparison with a symbolic operand
        self.emits = []             # (cells, line, writer)
        self.local_consts = {}      # constants declared inside function bodies (by name)
        for ty in _UINTS:
            self.extern_fns[ty + "::from"] = (lambda args, ty=ty: self._cast(args[0], ty))
        for pre in ("std::cmp::", "core::cmp::", "cmp::", "usize::", "Ord::"):
            self.extern_fns[pre + "min"] = lambda a: self._minmax("min", a[0], a[1])
            self.extern_fns[pre + "max"] = lambda a: self._minmax("max", a[0], a[1])

    # ---- lookup: impl self types are compared without their generics -------------------------
    @staticmethod
    def _base(ty):
        return re.sub(r"<.*$", "", ty).split("::")[-1] if ty else ty

    def _find_fn(self, impl_self, name, impl_trait=None, file=None):
        if impl_self is None:
            return super()._find_fn(impl_self, name, impl_trait, file)
        c = []
        for (s, nm), lst in self._fn_index.items():
            if nm == name and s is not None and self._base(s) == self._base(impl_self):
                c += lst
        if impl_trait is not None:
            c = [x for x in c if x[1] is not None and ce._last(x[1]) == impl_trait]
        if file is not None and len(c) > 1:
            c = [x for x in c if x[0] == file]
        return c[0] if len(c) == 1 else None

    def const(self, impl_self, name, file=None):
        v = super().const(impl_self, name, file)
        if v is None and impl_self is not None:
            out = [(f, it) for (f, s, it, t) in self.src.consts if it["name"] == name and not t and s is not None and self._base(s) == self._base(impl_self)]
            if len(out) == 1:
                v = self.eval(out[0][1]["expr"], ce.Frame({}, self._base(impl_self), out[0][0]))
        if isinstance(v, (bytes, list)) and not isinstance(v, Table) and len(v) >= 16 and all(_is_int(x) and 0 <= x < 256 for x in v):
            t = Table(bytes(v))
            t.name = name
            return t
        return v

    def call_item(self, item, impl_self, args, file=None, memo=True):
        return super().call_item(item, self._base(impl_self), args, file, memo=False)

    def run_item(self, item, impl_self, args, file=None):
        """call_item for the rules: whatever goes wrong inside the evaluation is `Unsupported` (reported as an anchor)"""
        try:
            return self.call_item(item, impl_self, args, file)
        except ce.Unsupported:
            raise
        except (ce._Break, ce._Continue):
            raise ce.Unsupported("break/continue outside a loop")
        except (TypeError, IndexError, KeyError, ValueError, AttributeError, ZeroDivisionError, RecursionError) as ex:
            raise ce.Unsupported("evaluation failed (%s: %s)" % (type(ex).__name__, ex))

    # ---- operators ----------------------------------------------------------------------------
    def _bits_op(self, op, a, b):
        env = {}
        for nm, x in (("lhs", a), ("rhs", b)):
            if isinstance(x, BV):
                env[nm] = bf.Val(x.bits, False)
            elif _is_int(x):
                env[nm] = x
            else:
                raise ce.Unsupported("operator `%s` on %s" % (op, type(x).__name__))
        node = {"k": "bin", "op": op, "l": {"k": "path", "p": "lhs"}, "r": {"k": "path", "p": "rhs"}}
        try:
            v = bf.evaluate(node, env)
        except bf.BitflowError as ex:
            raise ce.Unsupported(str(ex))
        return BV(v.bits) if isinstance(v, bf.Val) else v.v

    def binop(self, op, a, b, memo=True):
        sa_, sb_ = isinstance(a, (BV, NonPad)) or is_cell(a), isinstance(b, (BV, NonPad)) or is_cell(b)
        if sa_ or sb_:
            if op in _CMP_OPS:
                if self.compare_hook is not None:
                    return self.compare_hook(op, a, b)
                raise ce.Unsupported("comparison `%s` depends on a data byte" % op)
            return self._bits_op(op, a, b)
        if op == "-" and _is_int(a) and _is_int(b) and 0 <= a < b:
            raise ce.Unsupported("%d - %d underflows (would panic; the codec computes with unsigned integers)" % (a, b))
        return super().binop(op, a, b, memo)

    def _e_bin(self, e, fr):
        try:
            return super()._e_bin(e, fr)
        except ce.Unsupported as ex:
            if str(ex).startswith("in `"):
                raise
            raise ce.Unsupported("in `%s`: %s" % (expr_text(e), ex))

    def _cast(self, v, ty):
        if isinstance(v, BV):
            if ty not in _UINTS:
                raise ce.Unsupported("cast of a data byte to " + ty)
            return BV(bf.zext(v.bits, bf.TYPES[ty][0]))
        if ty in ce._INT_TY and isinstance(v, (int, float)):
            return int(v) & ((1 << ce._INT_TY[ty]) - 1) if isinstance(v, int) else max(0, min(int(v), (1 << ce._INT_TY[ty]) - 1))
        if ty == "u128" and _is_int(v) and v >= 0:
            return v
        if ty in ("f32", "f64") and isinstance(v, (int, float)):
            return float(v)
        if re.fullmatch(r"i(8|16|32|64|size)", ty) and _is_int(v):
            return v
        raise ce.Unsupported("cast to " + ty)

    def _e_cast(self, e, fr):
        return self._cast(self.eval(e["e"], fr), e["ty"].replace(" ", ""))

    def _e_un(self, e, fr):
        if e["op"] == "*":
            return ce.copyv(self.place(e, fr))
        return super()._e_un(e, fr)

    def _minmax(self, which, a, b):
        if _is_int(a) and _is_int(b):
            return min(a, b) if which == "min" else max(a, b)
        raise ce.Unsupported("%s of non-integers / data bytes" % which)

    # ---- places -------------------------------------------------------------------------------
    def place(self, e, fr):
        if e["k"] == "un" and e["op"] == "*":
            v = self.place(e["e"], fr)
            return v.get() if isinstance(v, ElemRef) else v
        if e["k"] != "index":
            return super().place(e, fr)
        b = self.place(e["e"], fr)
        if isinstance(b, ElemRef):
            b = b.get()
        ie = e["i"]
        if ie.get("k") == "range":
            if not isinstance(b, (list, bytes, SliceView)):
                raise ce.Unsupported("range index of a non-array")
            lo = self.eval(ie["lo"], fr) if ie.get("lo") else 0
            hi = (self.eval(ie["hi"], fr) + (1 if ie.get("incl") else 0)) if ie.get("hi") else len(b)
            if not (_is_int(lo) and _is_int(hi) and 0 <= lo <= hi <= len(b)):
                raise ce.Unsupported("slice range %r..%r out of bounds of %d elements (would panic)" % (lo, hi, len(b)))
            return SliceView(b, lo, hi)
        i = self.eval(ie, fr)
        if isinstance(i, BV):
            if isinstance(b, Table) and self.table_hook is not None:
                return self.table_hook(b, i, e)
            raise ce.Unsupported("data-dependent index into `%s`" % expr_text(e["e"]))
        if isinstance(b, (list, bytes, SliceView)) and _is_int(i) and 0 <= i < len(b):
            return b[i]
        raise ce.Unsupported("index `%s` out of range or not an array (would panic)" % expr_text(e))

    def store(self, e, fr, v):
        if e["k"] == "index":
            b = self.place(e["e"], fr)
            i = self.eval(e["i"], fr)
            if isinstance(b, (list, SliceView)) and _is_int(i) and 0 <= i < len(b):
                try:
                    b[i] = v
                    return
                except IndexError:
                    pass
            raise ce.Unsupported("store to `%s` out of range / not an array (would panic)" % expr_text(e))
        if e["k"] == "un" and e["op"] == "*":
            tgt = self.place(e["e"], fr)
            if isinstance(tgt, ElemRef):
                tgt.set(v)
                return
            if e["e"].get("k") == "path" and e["e"]["p"] in fr.vars and not isinstance(tgt, (ce.StructV, list, SliceView)):
                raise ce.Unsupported("store through the reference `%s`" % e["e"]["p"])
        return super().store(e, fr, v)

    # ---- expression kinds missing in the base evaluator ------------------------------------------
    def _e_block(self, e, fr):
        for s in e.get("stmts") or []:      # constants declared inside a block are visible in all of it
            it = s.get("item") if s.get("k") == "item" else None
            if isinstance(it, dict) and it.get("k") in ("const", "static") and it.get("expr") is not None:
                fr.vars[it["name"]] = self.local_consts[it["name"]] = self.eval(it["expr"], fr)
        if e.get("label"):
            try:
                return super()._e_block(e, fr)
            except ce._Break as ex:
                if getattr(ex, "label", None) != e["label"]:
                    raise
                return getattr(ex, "value", ())
        return super()._e_block(e, fr)

    def _e_repeat(self, e, fr):
        v, n = self.eval(e["e"], fr), self.eval(e["n"], fr)
        if not _is_int(n) or n < 0 or n > 4096:
            raise ce.Unsupported("repeat length")
        return [ce.copyv(v) for _ in range(n)]

    def _e_break(self, e, fr):
        raise _BreakL(e.get("label"), self.eval(e["e"], fr) if e.get("e") else ())

    def _e_continue(self, e, fr):
        raise _ContinueL(e.get("label"))

    def _body(self, e, fr):
        """one iteration: 'break' (with .value) / 'next'"""
        try:
            self.eval(e["body"], fr)
        except ce._Break as ex:
            if not _mine(ex, e.get("label")):
                raise
            return ("break", getattr(ex, "value", ()))
        except ce._Continue as ex:
            if not _mine(ex, e.get("label")):
                raise
        return ("next", ())

    def _e_loop(self, e, fr):
        for _ in range(100000):
            r = self._body(e, fr)
            if r[0] == "break":
                return r[1]
        raise ce.Unsupported("loop bound")

    def _e_while(self, e, fr):
        for _ in range(100000):
            if not self._cond(e["cond"], fr):
                return ()
            if self._body(e, fr)[0] == "break":
                return ()
        raise ce.Unsupported("loop bound")

    def _e_for(self, e, fr):
        it = self.eval(e["iter"], fr)
        if not isinstance(it, IterV):
            items = _seq(it)
            if items is None:
                raise ce.Unsupported("for over `%s`" % expr_text(e["iter"]))
            it = IterV(items)
        while True:                         # item by item: a `break` leaves the rest in the iterator
            o = it.next()
            if o == ce.NONE:
                break
            if not self.match_pat(e["pat"], o[1], fr.vars):
                raise ce.Unsupported("refutable for pattern")
            if self._body(e, fr)[0] == "break":
                break
        return ()

    def _e_macro(self, e, fr):
        if e.get("short") in _ASSERTS:
            # an assertion that holds changes nothing; whether it can fail is a panic-freedom question (obligations())
            args = e.get("args") or []
            try:
                if e["short"].endswith("_eq") and len(args) >= 2:
                    ok = self.binop("==", self.eval(args[0], fr), self.eval(args[1], fr))
                elif e["short"].endswith("_ne") and len(args) >= 2:
                    ok = self.binop("!=", self.eval(args[0], fr), self.eval(args[1], fr))
                else:
                    ok = self.eval(args[0], fr) if args else True
            except ce.Unsupported:
                return ()
            if ok is False:
                raise ce.Unsupported("`%s!` fails on a reachable state" % e["short"])
            return ()
        return super()._e_macro(e, fr)

    # ---- patterns -----------------------------------------------------------------------------
    _NOCONST = object()

    def _const_of_ident(self, p):
        """An identifier pattern that names a constant in scope is a constant pattern, not a binding (`BASE64_PAD => ..`); constants are
        the SCREAMING_CASE names that resolve to exactly one const item of the crate / of the enclosing blocks."""
        name = p["name"]
        if p.get("sub") or p.get("by_ref") or p.get("mut") or not re.fullmatch(r"[A-Z][A-Z0-9_]*", name):
            return self._NOCONST
        if name in self.local_consts:
            return self.local_consts[name]
        cands = [(f, it) for (f, s_, it, t) in self.src.consts if it["name"] == name and not t and s_ is None]
        if len(cands) == 1:
            v = self.const(None, name, cands[0][0])
            if v is not None:
                return v
        return self._NOCONST

    def match_pat(self, p, v, binds):
        k = p["k"]
        if k == "struct":
            if not isinstance(v, ce.StructV):
                raise ce.Unsupported("struct pattern on a non-struct")
            for f in p["fields"]:
                if f["name"] not in v.fields:
                    raise ce.Unsupported("field " + f["name"])
                if not self.match_pat(f["pat"], v.fields[f["name"]], binds):
                    return False
            return True
        cv = self._NOCONST
        if k == "ident":
            cv = self._const_of_ident(p)
        elif k == "lit":
            cv = self._lit(p["e"])
        elif k == "path" and (isinstance(v, (BV, NonPad)) or is_cell(v)):
            cv = self._path_value(p["p"], ce.Frame())
        if isinstance(v, (BV, NonPad)) or is_cell(v):
            if cv is not self._NOCONST:
                if self.compare_hook is not None:
                    return self.compare_hook("==", v, cv)
                raise ce.Unsupported("pattern `%s` tests a data byte" % pat_text(p))
            if k in ("range", "path"):
                raise ce.Unsupported("pattern `%s` tests a data byte" % pat_text(p))
        elif k == "ident" and cv is not self._NOCONST:
            return type(cv) is type(v) and cv == v
        if k in ("slice", "tuple") and isinstance(v, (SliceView, bytes)):
            v = list(v)
        if k == "slice" and isinstance(v, list):
            el = p["elems"]
            ri = [i for i, x in enumerate(el) if x["k"] == "rest" or (x["k"] == "ident" and (x.get("sub") or {}).get("k") == "rest")]
            if len(ri) == 1:                # [a, b, ..] / [first, .., last] / [head, tail @ ..]
                r = ri[0]
                before, after = el[:r], el[r + 1:]
                if len(v) < len(before) + len(after):
                    return False
                mid = v[len(before):len(v) - len(after)]
                if el[r]["k"] == "ident":
                    binds[el[r]["name"]] = mid
                return (all(self.match_pat(x, y, binds) for x, y in zip(before, v)) and
                        all(self.match_pat(x, y, binds) for x, y in zip(after, v[len(v) - len(after):])))
        return super().match_pat(p, v, binds)

    def call_closure(self, c, args):
        """closure call on a copy of the defining frame (base evaluator): a closure that reassigns a captured local is not modelled"""
        if len(c.params) != len(args):
            raise ce.Unsupported("closure arity")
        fr = ce.Frame(dict(c.frame.vars), c.frame.self_ty, c.frame.file)
        own = set()
        for p, a in zip(c.params, args):
            own |= set(ce.pat_names(p))
            if not self.match_pat(p, a, fr.vars):
                raise ce.Unsupported("refutable closure parameter")
        try:
            r = self.eval(c.body, fr)
        except ce._Return as ret:
            r = ret.v
        for name, v in c.frame.vars.items():
            if name not in own and fr.vars.get(name) is not v and not (type(v) in (int, bool) and fr.vars.get(name) == v):
                raise ce.Unsupported("closure reassigns the captured local `%s`" % name)
        return r

    def _e_call(self, e, fr):
        f = e["f"]
        m = re.search(r"(^|::)mem::(replace|take|swap)$", f["p"]) if f.get("k") == "path" else None
        if m:
            args = e.get("args") or []
            refs = [a["e"] for a in args if a.get("k") == "ref" and a.get("mut")]
            kind = m.group(2)
            if kind == "replace" and len(args) == 2 and len(refs) >= 1 and args[0].get("k") == "ref":
                old = ce.copyv(self.place(refs[0], fr))
                self.store(refs[0], fr, self.eval(args[1], fr))
                return old
            if kind == "take" and len(args) == 1 and len(refs) == 1:
                old = ce.copyv(self.place(refs[0], fr))
                if not _is_int(old) and not isinstance(old, bool):
                    raise ce.Unsupported("mem::take of a non-integer")
                self.store(refs[0], fr, False if isinstance(old, bool) else 0)
                return old
            if kind == "swap" and len(args) == 2 and len(refs) == 2:
                a0, a1 = ce.copyv(self.place(refs[0], fr)), ce.copyv(self.place(refs[1], fr))
                self.store(refs[0], fr, a1)
                self.store(refs[1], fr, a0)
                return ()
            raise ce.Unsupported("call `%s`" % expr_text(e))
        if f.get("k") == "path" and f["p"].split("::")[-1] == "Err" and len(e.get("args") or []) == 1:
            try:                            # the payload of an error is not looked at
                v = self.eval(e["args"][0], fr)
            except ce.Unsupported:
                v = Opaque("error value")
            return ("Err", v)
        if f.get("k") == "path" and "::" not in f["p"] and isinstance(fr.vars.get(f["p"]), ce.ClosureV) and f["p"] not in self.extern_fns:
            # a local closure called by name (`let sextet = |i| TABLE[..]; sextet(x)`): its body in a copy of the defining frame
            return self.call_closure(fr.vars[f["p"]], [self.eval(a, fr) for a in e.get("args") or []])
        return super()._e_call(e, fr)

    # ---- method calls (the receiver is evaluated exactly once) ------------------------------------
    def _e_mcall(self, e, fr):
        m = e["m"]
        recv = self.place(e["recv"], fr)
        args_e = e.get("args") or []
        ty = recv.ty if isinstance(recv, (ce.StructV, ce.EnumV)) else None
        if ty is not None:
            fn = self.find_fn(ty, m)
            if fn is not None:
                return self._apply(fn, ty, args_e, fr, recv=recv)
        args = [self.place(a, fr) for a in args_e]
        n = len(args)
        if isinstance(recv, Writer):
            if m == "write_all" and n == 1:
                items = _seq(args[0]) if not isinstance(args[0], IterV) else None
                if items is None:
                    raise ce.Unsupported("write_all of a non-slice")
                self.emits.append(([x if is_cell(x) else (("lit", x) if _is_int(x) else ("raw", x)) for x in items], e["line"], recv))
                return ("Ok", ())
            if m == "flush" and n == 0:
                return ("Ok", ())
            if m in ("by_ref", "borrow_mut") and n == 0:
                return recv
            raise ce.Unsupported("method %s on the inner writer" % m)
        if isinstance(recv, Reader):
            if m == "read" and n == 1 and isinstance(args[0], (list, SliceView)):
                return recv.read(args[0])
            if m in ("by_ref", "borrow_mut") and n == 0:
                return recv
            raise ce.Unsupported("method %s on the inner reader" % m)
        if isinstance(recv, (list, SliceView, bytes)):
            if m in ("iter", "into_iter") and n == 0:
                return IterV(recv)
            if m == "len" and n == 0:
                return len(recv)
            if m == "is_empty" and n == 0:
                return len(recv) == 0
            if m in ("first", "last") and n == 0:
                return ce.some(recv[0 if m == "first" else len(recv) - 1]) if len(recv) else ce.NONE
            if m == "get" and n == 1 and _is_int(args[0]):
                return ce.some(recv[args[0]]) if 0 <= args[0] < len(recv) else ce.NONE
            if m in ("as_slice", "as_ref", "as_mut", "as_mut_slice", "borrow") and n == 0:
                return recv
            if m in ("to_vec", "to_owned", "clone") and n == 0:
                return [ce.copyv(x) for x in recv]
            if m in ("copy_from_slice", "clone_from_slice") and n == 1 and isinstance(recv, (list, SliceView)):
                src_ = _seq(args[0]) if not isinstance(args[0], IterV) else None
                if src_ is None or len(src_) != len(recv):
                    raise ce.Unsupported("copy_from_slice with different lengths (would panic)")
                for i, x in enumerate(src_):
                    recv[i] = x
                return ()
            if m == "fill" and n == 1 and isinstance(recv, (list, SliceView)):
                for i in range(len(recv)):
                    recv[i] = ce.copyv(args[0])
                return ()
            if m in ("chunks", "chunks_exact") and n == 1 and _is_int(args[0]) and args[0] > 0:
                c = args[0]
                stop = len(recv) if m == "chunks" else len(recv) - len(recv) % c
                it = IterV([SliceView(recv, i, min(i + c, stop)) for i in range(0, stop, c)])
                if m == "chunks_exact":         # `.remainder()`: the len % c elements no chunk covers, whatever was iterated so far
                    it.remainder = SliceView(recv, stop, len(recv))
                return it
            if m == "contains" and n == 1 and _is_int(args[0]) and all(_is_int(x) for x in recv):
                return args[0] in list(recv)
            if m == "iter_mut" and n == 0 and isinstance(recv, (list, SliceView)):
                return IterV([ElemRef(recv, i) for i in range(len(recv))])
            if m == "map" and n == 1 and isinstance(args[0], ce.ClosureV):
                # `[T; N]::map`: the closure applied to the elements in order, an array of the results
                return [self.call_closure(args[0], [x]) for x in recv]
            if m in ("split_at", "split_at_mut") and n == 1 and _is_int(args[0]):
                if not 0 <= args[0] <= len(recv):
                    raise ce.Unsupported("split_at out of bounds (would panic)")
                return (SliceView(recv, 0, args[0]), SliceView(recv, args[0], len(recv)))
            if m == "copy_within" and n == 2 and isinstance(recv, (list, SliceView)) and isinstance(args[0], list) and _is_int(args[1]):
                idx = args[0]
                if not all(_is_int(i) and 0 <= i < len(recv) for i in idx) or not 0 <= args[1] <= len(recv) - len(idx):
                    raise ce.Unsupported("copy_within out of bounds (would panic)")
                vals = [recv[i] for i in idx]
                for k_, v_ in enumerate(vals):
                    recv[args[1] + k_] = v_
                return ()
        if isinstance(recv, IterV):
            if m == "next" and n == 0:
                return recv.next()
            if m in ("copied", "cloned", "by_ref", "into_iter", "iter", "fuse") and n == 0:
                return recv
            if m in ("remainder", "into_remainder") and n == 0 and getattr(recv, "remainder", None) is not None:
                return recv.remainder
            if m == "enumerate" and n == 0:
                return IterV([(i, x) for i, x in enumerate(recv.rest(True))])
            if m == "rev" and n == 0:
                return IterV(list(reversed(recv.rest(True))))
            if m in ("take", "skip") and n == 1 and _is_int(args[0]) and args[0] >= 0:
                r = recv.rest(True)
                return IterV(r[:args[0]] if m == "take" else r[args[0]:])
            if m == "zip" and n == 1:
                other = args[0].rest(True) if isinstance(args[0], IterV) else _seq(args[0])
                if other is not None:
                    return IterV(list(zip(recv.rest(True), other)))
            if m in ("len", "count") and n == 0:
                return len(recv.items) - recv.pos if m == "len" else len(recv.rest())
            fcl = args[n - 1] if n and isinstance(args[n - 1], ce.ClosureV) else None
            if fcl is not None and n == 1:
                # closure adaptors, evaluated eagerly over the remaining items (the closures of this code are pure or act on `self`)
                if m == "for_each":
                    for x in recv.rest():
                        self.call_closure(fcl, [x])
                    return ()
                if m == "try_for_each":
                    for x in recv.rest(True):
                        r = self.call_closure(fcl, [x])
                        if not _is_opt(r, "Ok", "Some"):
                            return r
                    return ("Ok", ())
                if m == "map":
                    return IterV([self.call_closure(fcl, [x]) for x in recv.rest(True)])
                if m in ("filter", "take_while", "skip_while", "position", "any", "all", "find"):
                    items = recv.rest(True)
                    flags = []
                    for x in items:
                        t = self.call_closure(fcl, [x])
                        if not isinstance(t, bool):
                            raise ce.Unsupported("predicate of `%s` is not a bool" % m)
                        flags.append(t)
                        if (m in ("take_while", "all") and not t) or (m in ("position", "any", "find", "skip_while") and t == (m != "skip_while")):
                            break
                    k = len(flags)
                    if m == "filter":
                        return IterV([x for x, t in zip(items, flags) if t])
                    if m == "take_while":
                        return IterV(items[:k - 1] if flags and not flags[-1] else items[:k])
                    if m == "skip_while":
                        return IterV(items[k - 1:] if flags and not flags[-1] else [])
                    if m == "any":
                        return bool(flags) and flags[-1]
                    if m == "all":
                        return not flags or flags[-1]
                    hit = bool(flags) and flags[-1]
                    if m == "position":
                        return ce.some(k - 1) if hit else ce.NONE
                    return ce.some(items[k - 1]) if hit else ce.NONE
                if m == "find_map":
                    for x in recv.rest(True):
                        r = self.call_closure(fcl, [x])
                        if r != ce.NONE:
                            return r
                    return ce.NONE
            if fcl is not None and n == 2 and m in ("fold", "try_fold"):
                acc = args[0]
                for x in recv.rest(True):
                    acc = self.call_closure(fcl, [acc, x])
                    if m == "try_fold":
                        if not _is_opt(acc, "Ok", "Some") or len(acc) != 2:
                            return acc
                        acc = acc[1]
                return acc if m == "fold" else ("Ok", acc)
            if m == "sum" and n == 0:
                r = recv.rest()
                if all(_is_int(x) for x in r):
                    return sum(r)
            if m == "last" and n == 0:
                r = recv.rest()
                return ce.some(r[-1]) if r else ce.NONE
            if m == "nth" and n == 1 and _is_int(args[0]) and args[0] >= 0:
                r = recv.rest()
                recv.items, recv.pos = r, min(len(r), args[0] + 1)
                return ce.some(r[args[0]]) if args[0] < len(r) else ce.NONE
        if _is_int(recv):
            if m in ("min", "max") and n == 1:
                return self._minmax(m, recv, args[0])
            if m == "clamp" and n == 2 and _is_int(args[0]) and _is_int(args[1]) and args[0] <= args[1]:
                return max(args[0], min(recv, args[1]))
            if m in ("wrapping_add", "saturating_add") and n == 1 and _is_int(args[0]) and recv + args[0] < (1 << 32):
                return recv + args[0]
            if m == "saturating_sub" and n == 1 and _is_int(args[0]):
                return max(0, recv - args[0])
            if m == "abs" and n == 0:
                return abs(recv)
        if _is_opt(recv, "Some", "None", "Ok", "Err"):
            if m in ("unwrap", "expect") and _is_opt(recv, "Some", "Ok") and len(recv) == 2:
                return recv[1]
            if m == "unwrap_or" and n == 1:
                return recv[1] if _is_opt(recv, "Some", "Ok") and len(recv) == 2 else args[0]
            if m in ("copied", "cloned", "as_ref", "as_mut") and n == 0:
                return recv
            if m == "is_some" and n == 0:
                return recv != ce.NONE
            if m == "is_none" and n == 0:
                return recv == ce.NONE
            if m == "is_ok" and n == 0:
                return recv[0] == "Ok"
            if m == "is_err" and n == 0:
                return recv[0] == "Err"
            if m == "ok" and n == 0 and recv[0] in ("Ok", "Err"):
                return ce.some(recv[1]) if recv[0] == "Ok" else ce.NONE
            if m == "map" and n == 1 and isinstance(args[0], ce.ClosureV) and recv[0] in ("Some", "None"):
                return ce.some(self.call_closure(args[0], [recv[1]])) if recv[0] == "Some" else ce.NONE
            present = _is_opt(recv, "Some", "Ok") and len(recv) == 2
            cl = [a for a in args if isinstance(a, ce.ClosureV)]
            if m == "map_or" and n == 2 and isinstance(args[1], ce.ClosureV):
                return self.call_closure(args[1], [recv[1]]) if present else args[0]
            if m == "map_or_else" and n == 2 and len(cl) == 2:
                if present:
                    return self.call_closure(args[1], [recv[1]])
                return self.call_closure(args[0], [recv[1]] if recv[0] == "Err" and len(recv) == 2 else [])
            if m == "unwrap_or_else" and n == 1 and len(cl) == 1:
                if present:
                    return recv[1]
                return self.call_closure(args[0], [recv[1]] if recv[0] == "Err" and len(recv) == 2 else [])
            if m == "and_then" and n == 1 and len(cl) == 1:
                return self.call_closure(args[0], [recv[1]]) if present else recv
            if m in ("is_some_and", "is_ok_and") and n == 1 and len(cl) == 1:
                r_ = self.call_closure(args[0], [recv[1]]) if present else False
                if not isinstance(r_, bool):
                    raise ce.Unsupported("predicate of `%s` is not a bool" % m)
                return r_
            if m == "filter" and n == 1 and len(cl) == 1 and recv[0] in ("Some", "None"):
                if not present:
                    return recv
                r_ = self.call_closure(args[0], [recv[1]])
                if not isinstance(r_, bool):
                    raise ce.Unsupported("predicate of `filter` is not a bool")
                return recv if r_ else ce.NONE
            if m == "or" and n == 1 and recv[0] in ("Some", "None"):
                return recv if present else args[0]
            if m == "map_err" and n == 1 and recv[0] in ("Ok", "Err"):
                return recv if recv[0] == "Ok" else ("Err", Opaque("mapped error"))
        if m in ("clone", "to_owned") and n == 0:
            return ce.copyv(recv)
        if m == "into" and n == 0 and (_is_int(recv) or isinstance(recv, BV)):
            return recv             # a lossless widening; the width is fixed where the value is used (table index: usize)
        raise ce.Unsupported("method `%s` on %s" % (m, ty or type(recv).__name__))


def encoder_fields(ctx):
    s = ctx.src.struct("Base64Encoder")
    if s is None:
        return None
    carry = size = inner = None
    n = None
    for f in s[1]["fields"]:
        m = re.fullmatch(r"\[u8;(\d+)\]", f["ty"].replace(" ", ""))
        if m:
            carry, n = f["name"], int(m.group(1))
        elif f["ty"] == "usize":
            size = f["name"]
        else:
            inner = f["name"]
    if None in (carry, size, inner):
        return None
    return carry, size, inner, n, [f["name"] for f in s[1]["fields"]]


def expected_char(ref, k, octs):
    """expected index bits (LSB first, 64 wide) of output char k; octs = symbol names of the octets present"""
    bits = []
    for j in range(6):
        o, b = ref["sx"][(k, j)]
        bits.append((octs[o], b) if o < len(octs) else 0)
    return bits + [0] * 58


def check_emit(ctx, ref, fn, shape, cells, octs, line, enc_table, quiet=False):
    """one emitted quantum made of the octets named octs: chars, zero fill, padding (quiet: no instances, for the extra runs)"""
    noct = len(octs)
    case = [c for c in ref["final_quantum"]["cases"] if c["octets"] == noct][0]
    site = ["%s:%d" % (fn[0], line)]
    if len(cells) != 4:
        ctx.violation("ENC-BITS", fn[1], shape + ":width", "emits %d characters per quantum, RFC 4648 has 4" % len(cells), sites=site)
        return
    for k in range(4):
        c = cells[k]
        what = repr(chr(c[1])) if c[0] == "lit" else ("a data character `%s`" % c[3] if c[0] == "tab" else "the raw value %r" % (c[1],))
        if k < case["chars"]:
            exp = expected_char(ref, k, octs)
            got = c[2] if c[0] == "tab" else None
            if not quiet:
                ctx.instance("ENC-BITS", {"fn": fn[1], "shape": shape, "char": k, "index_bits": bf.render(got[:8]) if got else str(c[:2]),
                                          "rfc": bf.render(exp[:8]), "expr": c[3] if c[0] == "tab" else None})
            if c[0] != "tab":
                ctx.violation("ENC-BITS", fn[1], "%s:char%d" % (shape, k),
                              "character %d of a %d-octet quantum is %s, RFC 4648 needs a data character" % (k, noct, what), sites=site)
            elif c[1] != enc_table:
                ctx.violation("ENC-BITS", fn[1], "%s:char%d" % (shape, k), "character %d is looked up in %s, not in the alphabet table %s" % (k, c[1], enc_table), sites=["%s:%d" % (fn[0], c[4])])
            elif got != exp:
                ctx.violation("ENC-BITS", fn[1], "%s:char%d" % (shape, k),
                              "character %d of a %d-octet quantum is indexed by `%s` = bits [%s]; RFC 4648 §4 needs [%s]" % (
                                  k, noct, c[3], bf.render(got[:8]) + (" (high bits set)" if got[8:] != exp[8:] else ""), bf.render(exp[:8])),
                              sites=["%s:%d" % (fn[0], c[4])])
        else:
            if not quiet:
                ctx.instance("ENC-PAD", {"fn": fn[1], "shape": shape, "char": k, "cell": str(c[:2])})
            if not (c[0] == "lit" and c[1] == ref["padv"]):
                ctx.violation("ENC-PAD", fn[1], "%s:char%d" % (shape, k),
                              "character %d of a %d-octet final quantum must be '=' (RFC 4648: %d pad characters), found %s" % (k, noct, case["pads"], what), sites=site)


# (carry index before the call, number of bytes written): the first three are the inductive step (one byte in every carry state:
# exhaustive, because control flow cannot depend on the symbolic data); the others check that longer inputs are the same steps
# repeated whatever the chunking / fast paths of the loop (lengths around the usual block sizes 3, 4, 8, 16, 32, 64)
WRITE_RUNS = [(0, 1), (1, 1), (2, 1), (0, 0), (2, 0), (0, 3), (0, 4), (1, 2), (1, 6), (2, 2), (2, 5), (0, 7), (1, 8), (0, 9),
              (2, 15), (0, 16), (1, 17), (2, 31), (0, 33), (1, 64), (0, 65)]


def check_encoder(ctx, ref):
    ctx.rule("ENC-BITS", "each data character of write / finish(1,2,3 octets) is ALPHABET[index] with index bits == RFC 4648 regrouping, zero filled", floor=9)
    ctx.rule("ENC-PAD", "pad positions are '=' (1 octet: 2, 2 octets: 1, 3: 0); nothing is emitted for 0 octets / before the carry is full", floor=5)
    ctx.rule("CARRY", "write(n bytes) in carry state s: the bytes are appended to the carry in order, every completed group of 3 is emitted exactly once to the "
                      "inner writer, the new carry index is (s + n) mod 3 and Ok(n) is returned (symbolic bytes; s = 0,1,2; n = 0..65); new(): index 0; Ok(buf.len())", floor=23)
    fl = encoder_fields(ctx)
    wr = ctx.src.fn("write", impl_self=r"Base64Encoder.*", impl_trait=r".*Write")
    fi = ctx.src.fn("finish", impl_self=r"Base64Encoder.*")
    if fl is None or wr is None or fi is None:
        ctx.anchor("ENC-BITS", "Base64Encoder", "struct Base64Encoder{inner, [u8;N] carry, usize index} / write / finish not found")
        return None, {}
    carry, size, inner, n, order = fl
    if n != ref["quantum"]["octets"]:
        ctx.violation("ENC-BITS", "encoder::Base64Encoder", "carry-size", "carry buffer holds %d octets, a quantum has 3" % n)
        return None, {}
    it = SymInterp(ctx.src)
    tables = set()

    def hook(tab, idx, node):
        tables.add(tab.name)
        return ("tab", tab.name, bf.zext(idx.bits, 64), expr_text(node["i"]), node["line"])
    it.table_hook = hook

    def fresh(size0, stream):
        """encoder object whose carry holds the first size0 stream symbols; the other slots hold stale bytes"""
        w = Writer(inner)
        vals = {inner: w, size: size0,
                carry: [BV(bf.sym(stream[i] if i < size0 else "stale%d" % i, 8)) for i in range(n)]}
        return ce.StructV("Base64Encoder", {f: vals[f] for f in order}), w

    def run(fn, selfv, args):
        it.emits = []
        it.steps = 0
        try:
            r = it.run_item(fn[1], "Base64Encoder", [selfv] + args, fn[0])
        except ce.Unsupported as ex:
            return None, str(ex)
        return (r, list(it.emits)), None

    # ---- new(): the carry starts empty
    nf = ctx.src.fn("new", impl_self=r"Base64Encoder.*")
    if nf is not None and len([i for i in nf[1]["sig"]["inputs"]]) == 1:
        res, err = run(nf, Writer(inner), [])
        v = res[0].fields.get(size) if res is not None and isinstance(res[0], ce.StructV) else None
        ctx.instance("CARRY", {"fn": "encoder::Base64Encoder::new", "initial_index": v if res is not None else err})
        if res is not None and v != 0:
            ctx.violation("CARRY", "encoder::Base64Encoder::new", "initial-index", "Base64Encoder::new starts with carry index %r, must be 0" % (v,), sites=["%s:%d" % (nf[0], nf[1]["line"])])
        new_ok = res is not None and v == 0
    else:
        new_ok = False
    ctx.extra["c14_new_ok"] = new_ok
    pads_by_noct = {}
    pending = []      # (fn, path, shape, cells, octs, line, quiet): judged once the alphabet table is known
    told = set()

    def once(rule, where, shape, msg, sites):
        """one report per key: the longer write runs repeat the findings of the single steps"""
        if (rule, where, shape) not in told:
            told.add((rule, where, shape))
            ctx.violation(rule, where, shape, msg, sites=sites)
    # ---- finish: one run per carry state
    path = "encoder::Base64Encoder::finish"
    for noct in range(n + 1):
        shape = "finish-%d" % noct
        octs = ["oct%d" % i for i in range(noct)]
        selfv, w = fresh(noct, octs)
        res, err = run(fi, selfv, [])
        if res is None and noct == n:
            ctx.note("ENC-BITS: finish with a full carry (index %d; reachable only after write returned Err) is not evaluated: %s" % (n, err))
            break
        if res is None:
            ctx.anchor("ENC-BITS", path, "%s (carry index %d): construct outside what the symbolic evaluation understands: %s" % (path, noct, err))
            break
        r, emits = res
        if noct == 0:
            ctx.instance("ENC-PAD", {"fn": path, "shape": shape, "emits": len(emits)})
            if emits:
                ctx.violation("ENC-PAD", path, shape + ":emit", "a quantum is emitted although no complete/partial group is pending", sites=["%s:%d" % (fi[0], emits[0][1])])
            continue
        if len(emits) != 1:
            ctx.violation("ENC-BITS", path, shape + ":emit-count", "%d quanta emitted for %d pending octets (must be exactly one)" % (len(emits), noct), sites=["%s:%d" % (fi[0], fi[1]["line"])])
            continue
        cells, line, sink = emits[0]
        if sink is not w:
            ctx.violation("ENC-BITS", path, shape + ":sink", "quantum written to %s, not to the inner writer" % (sink,), sites=["%s:%d" % (fi[0], line)])
        pending.append((fi, path, shape, cells, octs, line, False))
        pads_by_noct.setdefault(noct, set()).add(sum(1 for c in cells if c[0] == "lit" and c[1] == ref["padv"]))
    # ---- write: symbolic bytes, concrete carry state and input length
    path = "encoder::Base64Encoder::write"
    ws = ctx.prog.method(r"(^|::)Base64Encoder\b", "write", r"Write")
    mpath = ws[0].path if len(ws) == 1 else path
    for size0, nin in WRITE_RUNS:
        stream = ["oct%d" % i for i in range(size0 + nin)]
        selfv, w = fresh(size0, stream)
        buf = [BV(bf.sym(s, 8)) for s in stream[size0:]]
        res, err = run(wr, selfv, [buf])
        if res is None:
            ctx.anchor("ENC-BITS", path, "%s (carry index %d, %d bytes): construct outside what the symbolic evaluation understands: %s" % (path, size0, nin, err))
            break
        r, emits = res
        step = nin == 1
        shape = ("write-full" if size0 == n - 1 else "write-partial") if step else "write-stream"
        groups = [stream[i:i + n] for i in range(0, len(stream) - len(stream) % n, n)]
        rest = stream[len(groups) * n:]
        site = ["%s:%d" % (wr[0], wr[1]["line"])]
        if step and not groups:
            ctx.instance("ENC-PAD", {"fn": path, "shape": shape, "emits": len(emits)})
        if len(emits) != len(groups):
            if not groups:
                once("ENC-PAD", path, shape + ":emit", "a quantum is emitted although no complete/partial group is pending", ["%s:%d" % (wr[0], emits[0][1])])
            else:
                once("ENC-BITS", path, shape + ":emit-count", "%d quanta emitted for %d completed groups of %d octets (carry index %d, %d bytes written)" % (len(emits), len(groups), n, size0, nin), site)
        else:
            for g, (cells, line, sink) in zip(groups, emits):
                if sink is not w:
                    once("ENC-BITS", path, shape + ":sink", "quantum written to %s, not to the inner writer" % (sink,), ["%s:%d" % (wr[0], line)])
                pending.append((wr, path, shape, cells, g, line, not step))
        # new state and result
        st_size = selfv.fields.get(size)
        st_carry = selfv.fields.get(carry)
        got_rest = [c.bits if isinstance(c, BV) else c for c in (st_carry[:len(rest)] if isinstance(st_carry, list) else [])]
        ok_size = st_size == len(rest)
        ok_carry = got_rest == [bf.sym(s, 8) for s in rest]
        ok_ret = r == ("Ok", nin)
        ctx.instance("CARRY", {"fn": mpath, "carry_index": size0, "bytes": nin, "emitted": len(emits), "new_index": st_size, "carry_ok": ok_carry, "result": str(r)})
        if not ok_size:
            once("CARRY", mpath, "index", "with carry index %d, after %d byte(s) the carry index is %r, must be %d (= (%d + %d) mod %d): bytes are dropped, emitted twice or stored out of bounds" % (
                size0, nin, st_size, len(rest), size0, nin, n), site)
        elif not ok_carry:
            once("CARRY", mpath, "store", "with carry index %d, after %d byte(s) the pending bytes are not the last %d bytes written, in order (carry holds %s)" % (
                size0, nin, len(rest), [bf.render(b) if isinstance(b, list) else b for b in got_rest]), site)
        if not ok_ret:
            once("CARRY", mpath, "ok-value", "write of %d byte(s) returns %s, not Ok(%d) = Ok(buf.len()): the caller would re-send or skip bytes" % (nin, r, nin), site)
    if len(tables) != 1:
        ctx.anchor("ENC-BITS", "alphabet-table", "encoder indexes %s; expected exactly one alphabet table" % sorted(tables))
        return None, pads_by_noct
    enc_table = sorted(tables)[0]
    for fn, path, shape, cells, octs, line, quiet in pending:
        if quiet and ctx.rules["ENC-BITS"]["violations"] + ctx.rules["ENC-PAD"]["violations"]:
            continue        # the single steps are already reported
        check_emit(ctx, ref, (fn[0], path), shape, cells, octs, line, enc_table, quiet)
    return enc_table, pads_by_noct


# =============================================================================================
# (b) decoder: 4 -> 3 regrouping and size-from-padding (same evaluator)
# =============================================================================================
def param_name(fn):
    ins = [i for i in fn["sig"]["inputs"] if i["name"] != "self"]
    if len(ins) == 1 and ins[0]["ty"].replace(" ", "") == "[u8;4]":
        return ins[0]["name"]
    return None


def check_decode_bits(ctx, ref, fnname, covered):
    """covered: the stream evaluation (DEC-USE) established the bit provenance of every delivered byte through read(); then a missing /
    differently shaped 4->3 function is not an anchor"""
    desc = "each of the 3 bytes returned by the 4->3 function has the RFC 4648 bit provenance over DECODE[chunk[k]] (24 bits)"
    f = ctx.src.fn(fnname, impl_self=r"Base64Decoder.*") if fnname else None
    path = "decoder::Base64Decoder::" + (fnname or "<4to3>")
    if f is None or param_name(f[1]) is None:
        ctx.rule("DEC-BITS", desc, floor=0 if covered else 3)
        if covered:
            ctx.note("DEC-BITS: no separate fn([u8;4]) -> [u8;3] in Base64Decoder; the bit provenance of every decoded byte is established through read() (DEC-USE)")
        else:
            ctx.anchor("DEC-BITS", "4to3-function", "no Base64Decoder fn([u8;4]) -> [u8;3]")
        return None
    ctx.rule("DEC-BITS", desc, floor=3)
    it = SymInterp(ctx.src)
    tables = set()

    def hook(tab, idx, node):
        ks = [k for k in range(4) if idx.bits[:8] == bf.sym("c%d" % k, 8) and not any(idx.bits[8:])]
        if len(ks) != 1:
            raise ce.Unsupported("table index `%s` is not exactly one chunk byte" % expr_text(node["i"]))
        tables.add(tab.name)
        return BV(bf.sym("sx%d" % ks[0], 8, valbits=6))     # the sextet of a valid character (DECODE-INVERSE: DECODE[ENCODE[i]] = i < 64)
    it.table_hook = hook
    try:
        result = it.run_item(f[1], "Base64Decoder", [[BV(bf.sym("c%d" % k, 8)) for k in range(4)]], f[0])
    except ce.Unsupported as ex:
        ctx.anchor("DEC-BITS", path, "%s: outside what the symbolic evaluation understands: %s" % (path, ex))
        return None
    site = ["%s:%d" % (f[0], f[1]["line"])]
    result = _seq(result) if not isinstance(result, IterV) else None
    if result is None or len(result) != 3 or not all(isinstance(x, BV) and len(x.bits) == 8 for x in result):
        ctx.anchor("DEC-BITS", path + "/result", "the function does not return 3 bytes computed from the chunk")
        return None
    for m in range(3):
        exp = [("sx%d" % ref["oc"][(m, b)][0], ref["oc"][(m, b)][1]) for b in range(8)]
        got = result[m].bits
        ctx.instance("DEC-BITS", {"fn": path, "byte": m, "bits": bf.render(got), "rfc": bf.render(exp)})
        if got != exp:
            ctx.violation("DEC-BITS", path, "byte%d" % m,
                          "decoded byte %d has bits [%s] (sxK = 6-bit value of character K); RFC 4648 §4 needs [%s]" % (m, bf.render(got), bf.render(exp)), sites=site)
    if len(tables) != 1:
        ctx.anchor("DEC-BITS", "decode-table", "decoder indexes %s; expected exactly one table" % sorted(tables))
        return None
    return sorted(tables)[0]


def check_padding(ctx, ref, pads_by_noct, fnname, covered):
    ctx.rule("PAD-AGREE", "n leftover octets <-> 3-n '=' in finish <-> size-from-padding returns n (n = 1,2,3)", floor=3)
    f = ctx.src.fn(fnname, impl_self=r"Base64Decoder.*") if fnname else None
    path = "decoder::Base64Decoder::" + (fnname or "<size>")
    it = SymInterp(ctx.src)
    padv = ref["padv"]

    def compare(op, a, b):
        if isinstance(b, NonPad):
            a, b = b, a
        if isinstance(a, NonPad) and _is_int(b) and b == padv and op in ("==", "!="):
            return op == "!="
        raise ce.Unsupported("comparison `%s` of a chunk byte with something else than '='" % op)
    it.compare_hook = compare
    usable = f is not None and param_name(f[1]) is not None
    if not usable:
        if covered:
            ctx.note("PAD-AGREE: no separate fn([u8;4]) -> usize in Base64Decoder; the number of bytes a padded quantum delivers is established through read() (DEC-USE)")
        else:
            ctx.anchor("PAD-AGREE", "size-function", "no Base64Decoder fn([u8;4]) -> usize")
    for case in ref["final_quantum"]["cases"]:
        n, p = case["octets"], case["pads"]
        got = None
        if usable:
            chunk = [padv if k >= 4 - p else NonPad(k) for k in range(4)]
            try:
                got = it.run_item(f[1], "Base64Decoder", [chunk], f[0])
            except ce.Unsupported as ex:
                if covered:
                    ctx.note("PAD-AGREE: %s is not evaluable (%s); the number of bytes a padded quantum delivers is established through read() (DEC-USE)" % (path, ex))
                else:
                    ctx.anchor("PAD-AGREE", path, "%s: outside what the symbolic evaluation understands: %s" % (path, ex))
                usable = False
        enc = sorted(pads_by_noct.get(n, []))
        ctx.instance("PAD-AGREE", {"octets": n, "rfc_pads": p, "finish_pads": enc, "decoded_size": got if _is_int(got) else str(got)})
        if usable and (got != n or not _is_int(got)):
            ctx.violation("PAD-AGREE", path, "pads%d" % p,
                          "a final quantum with %d '=' carries %d octets (RFC 4648 §4), %s returns %s" % (p, n, fnname, got), sites=["%s:%d" % (f[0], f[1]["line"])])
        if enc and enc != [p]:
            ctx.violation("PAD-AGREE", "encoder::Base64Encoder::finish", "pads%d" % p,
                          "finish emits %s '=' for %d leftover octets, RFC 4648 needs %d" % (enc, n, p))


# =============================================================================================
# (c-shape, d, e) decoder: symbolic evaluation of read() over a scripted inner reader
# =============================================================================================
class Reader:
    """scripted inner reader: hands out the stream in pieces of the scripted sizes (never more than requested, as the Read
    contract demands), then Ok(0) for ever"""

    def __init__(self, stream, script):
        self.stream, self.script = list(stream), list(script)
        self.pos = self.k = 0

    def read(self, dst):
        want = self.script[self.k % len(self.script)]
        self.k += 1
        n = min(want, len(dst), len(self.stream) - self.pos)
        for i in range(n):
            dst[i] = self.stream[self.pos + i]
        self.pos += n
        return ("Ok", n)

    def __repr__(self):
        return "<scripted reader>"


class Opaque:
    def __init__(self, what):
        self.what = what

    def __repr__(self):
        return "<%s>" % self.what


def make_stream(nq, tail="", extra=0):
    """nq quanta of valid characters (symbols c0, c1, ..), the last one ending in `tail` ('=' characters), then `extra` more valid
    characters (a partial quantum).  Returns (stream values, names) with name None for '='"""
    names = ["c%d" % j for j in range(4 * nq)]
    for j in range(len(tail)):
        names[4 * nq - 1 - j] = None
    names += ["c%d" % (4 * nq + j) for j in range(extra)]
    return names


def expected_stream(ref, names):
    """bit provenance of the bytes an RFC 4648 decoder delivers for the complete quanta of the stream (sxN = sextet of character N)"""
    out = []
    for q in range(len(names) // 4):
        qn = names[4 * q:4 * q + 4]
        npad = sum(1 for x in qn if x is None)
        for m in range(3 - npad):
            out.append([("sx" + qn[ref["oc"][(m, b)][0]][1:], ref["oc"][(m, b)][1]) for b in range(8)])
    return out


# run families: (rule, [(stream spec, reader script, destination size)])
def stream_runs():
    big = 400
    comps = [[1], [2], [3], [1, 3], [3, 1], [2, 2], [1, 2, 1], [2, 1, 1], [1, 1, 2], [5, 1], [3, 4]]
    return [
        # baseline: whole quanta per inner read, one large destination -> decode + store (fill)
        ("DEC-USE", [((nq, tail, 0), [4], big) for nq, tail in ((1, ""), (1, "=="), (1, "="), (2, ""), (3, "="), (21, ""), (22, ""), (22, "=="), (43, "="), (64, ""))]
         + [((0, "", 0), [4], big)]),
        # every destination size: min(available, room), both offsets advance, nothing lost between calls
        # (a negative size -n: calls with an empty destination interleaved - they must return Ok(0) and lose nothing - with calls of size n)
        ("READ-MIN", [((22, "=", 0), [4], n) for n in (1, 2, 3, 4, 5, 7, 31, 62, 63, 64, 65, 66, -5)] + [((43, "", 0), [4], n) for n in (1, 3, 64, 100)]),
        # short reads of the inner reader: every way of cutting a quantum
        ("SHORT-READ", [((3, "=", 0), c, big) for c in comps] + [((22, "", 0), c, 5) for c in ([1], [3], [2, 1])]),
        # a trailing partial quantum must end in Err, a clean end in Ok(0)
        ("LEN-ERROR", [((nq, "", r), c, n) for nq in (0, 1, 22) for r in (1, 2, 3) for c, n in (([4], big), ([1], big), ([3], 2))]),
    ]


def check_stream(ctx, ref):
    """-> {rule: 'pass' | 'fail' | 'unknown', 'tables': names of the decode tables met}"""
    fams = stream_runs()
    desc = {
        "DEC-USE": "fill: every complete quantum is decoded and stored in order (1/2/3 bytes by its padding), whole stream delivered by read() into a large destination",
        "READ-MIN": "read: for every destination size the decoded bytes are delivered completely and in order (copies min(available, room), both offsets advance by it)",
        "SHORT-READ": "a short count of the inner Read::read is not an error: every cutting of the quanta into inner reads decodes the same bytes",
        "LEN-ERROR": "a trailing partial quantum (1..3 characters) ends in Err from read(), whatever the chunking; a clean end of input is Ok(0), never Err",
    }
    for rule, runs in fams:
        ctx.rule(rule, desc[rule] + " [symbolic evaluation over a scripted inner reader; MIR shape rules as diagnostics]", floor=len(runs))
    verdict = {rule: "unknown" for rule, _ in fams}
    verdict["tables"] = set()        # decode tables indexed by an input character
    newf = ctx.src.fn("new", impl_self=r"Base64Decoder.*")
    rdf = ctx.src.fn("read", impl_self=r"Base64Decoder.*", impl_trait=r".*Read")
    rds = ctx.prog.method(r"(^|::)Base64Decoder\b", "read", r"Read")
    where = rds[0].path if len(rds) == 1 else "decoder::Base64Decoder::read"
    if newf is None or rdf is None:
        for rule, _ in fams:
            ctx.anchor(rule, "Base64Decoder::new/read", "Base64Decoder::new / <Base64Decoder as Read>::read not found in the source")
        return verdict
    it = SymInterp(ctx.src)
    padv = ref["padv"]

    def stream_sym(v):
        """name of the stream character a byte-wide symbolic value is (None: something else)"""
        b = v.bits
        if isinstance(b[0], tuple) and b[0][0].startswith("c") and b[:8] == bf.sym(b[0][0], 8) and not any(b[8:]):
            return b[0][0]
        return None

    def hook(tab, idx, node):
        s = stream_sym(idx)
        if s is None:
            raise ce.Unsupported("table index `%s` is not exactly one input character" % expr_text(node["i"]))
        verdict["tables"].add(tab.name)
        return BV(bf.sym("sx" + s[1:], 8, valbits=6))     # the sextet of a valid character (DECODE-INVERSE)

    def compare(op, a, b):
        if isinstance(b, BV):
            a, b = b, a
        if isinstance(a, BV) and stream_sym(a) is not None and _is_int(b) and b == padv and op in ("==", "!="):
            return op == "!="           # a valid alphabet character is not '='
        raise ce.Unsupported("comparison `%s` depends on a data byte" % op)
    it.table_hook, it.compare_hook = hook, compare

    def drive(names, script, out_len):
        stream = [padv if x is None else BV(bf.sym(x, 8)) for x in names]
        reader = Reader(stream, script)
        it.steps = 0
        dec = it.run_item(newf[1], "Base64Decoder", [reader], newf[0])
        if not isinstance(dec, ce.StructV):
            raise ce.Unsupported("Base64Decoder::new does not evaluate to a struct")
        got, end = [], None
        empty_calls = out_len < 0           # an empty destination before the first and after every other call
        out_len = abs(out_len)
        for k in range(len(names) + 8):
            if empty_calls and k % 2 == 0:
                r = it.run_item(rdf[1], "Base64Decoder", [dec, []], rdf[0])
                if r != ("Ok", 0):
                    raise ce.Unsupported("read into an empty destination returns %r, not Ok(0)" % (r,))
            out = [Opaque("stale destination byte")] * out_len
            r = it.run_item(rdf[1], "Base64Decoder", [dec, out], rdf[0])
            if not (isinstance(r, tuple) and len(r) == 2 and r[0] in ("Ok", "Err")):
                raise ce.Unsupported("read returns %r" % (r,))
            if r[0] == "Err":
                end = "err"
                break
            if not _is_int(r[1]) or not (0 <= r[1] <= out_len):
                raise ce.Unsupported("read returns Ok(%r) for a destination of %d bytes" % (r[1], out_len))
            if r[1] == 0:
                end = "eof"
                break
            got += out[:r[1]]
        return [x.bits if isinstance(x, BV) else x for x in got], end

    base_ok = True
    for rule, runs in fams:
        state = "pass"
        for (nq, tail, extra), script, out_len in runs:
            names = make_stream(nq, tail, extra)
            exp = expected_stream(ref, names)
            what = "%d quanta%s%s, inner reads of %s bytes, destination of %s bytes" % (nq, " ending in '%s'" % tail if tail else "", " + %d characters" % extra if extra else "", script,
                                                                                          out_len if out_len >= 0 else "0 and %d alternating" % -out_len)
            try:
                got, end = drive(names, script, out_len)
            except ce.Unsupported as ex:
                ctx.anchor(rule, "read/evaluation", "%s (%s): outside what the symbolic evaluation understands: %s" % (where, what, ex))
                state = "unknown"
                break
            data_ok = got == exp if not extra else got == exp[:len(got)]
            end_ok = end == ("err" if extra else "eof")
            ctx.instance(rule, {"fn": where, "input": what, "bytes": len(got), "expected": len(exp), "end": end, "ok": data_ok and end_ok})
            if not data_ok:
                state = "fail"
                if rule == "DEC-USE" or base_ok:        # otherwise already reported with the baseline
                    first = next((i for i in range(min(len(got), len(exp))) if got[i] != exp[i]), min(len(got), len(exp)))
                    gb = bf.render(got[first]) if first < len(got) and isinstance(got[first], list) else (repr(got[first]) if first < len(got) else "nothing")
                    eb = bf.render(exp[first]) if first < len(exp) else "nothing"
                    shape = {"DEC-USE": "stream", "READ-MIN": "small-destination", "SHORT-READ": "chunked-reads", "LEN-ERROR": "before-partial"}[rule]
                    ctx.violation(rule, where, shape, "%s: %d bytes delivered, %d expected; byte %d is [%s], RFC 4648 decoding gives [%s] (sxN = sextet of input character N)" % (
                        what, len(got), len(exp), first, gb, eb), sites=[rdf[0]])
            if not end_ok:
                verdict["LEN-ERROR"] = "fail"
                if rule == "LEN-ERROR":
                    state = "fail"
                if extra:
                    ctx.violation("LEN-ERROR", where, "partial-accepted", "%s: the stream ends inside a quantum but read() reports %s instead of an error: truncated text is accepted silently" % (
                        what, "a clean end (Ok(0))" if end == "eof" else "no end"), sites=[rdf[0]])
                else:
                    ctx.violation("LEN-ERROR", where, "clean-end-is-error" if end == "err" else "no-end", "%s: a well-formed stream ends in %s instead of Ok(0)" % (what, end), sites=[rdf[0]])
        if rule == "DEC-USE" and state != "pass":
            base_ok = False
        if verdict[rule] != "fail":
            verdict[rule] = state
    return verdict


class Diag:
    """Receives the findings of the MIR shape rules.  They are reported for a clause only when the symbolic stream evaluation did not
    establish it (then they say where the code deviates); otherwise a shape that is not recognised is an informational note."""

    def __init__(self, ctx):
        self.ctx = ctx
        self.found = []

    def __getattr__(self, k):
        return getattr(self.ctx, k)

    def rule(self, name, desc, floor=0):
        if name not in self.ctx.rules:
            self.ctx.rule(name, desc, floor=0)

    def violation(self, rule, where, shape, msg, sites=(), detail=None):
        self.found.append((rule, where, shape, msg, list(sites)))

    def anchor(self, rule, what, msg=None):
        self.found.append((rule, "ANCHOR", what, msg or ("anchor not found or not understood: " + what), []))

    def flush(self, verdict):
        for rule, where, shape, msg, sites in self.found:
            if verdict.get(rule) == "pass":
                self.ctx.note("%s: MIR shape rule undecided on this code (%s/%s: %s); the clause is established by the symbolic stream evaluation" % (rule, where, shape, msg[:160]))
            else:
                self.ctx.violation(rule, where, shape, msg, sites=sites)


# =============================================================================================
# MIR helpers: small symbolic terms, count values derived from the inner read
# =============================================================================================
def _base_local(o):
    """local of an operand, looking through a `.0` projection of a checked-arithmetic tuple"""
    if o["k"] not in ("copy", "move"):
        return None
    p = o["place"]
    if not p["p"]:
        return p["l"]
    if len(p["p"]) == 1 and p["p"][0]["k"] == "field":
        return p["l"]
    return None


def term(body, o, depth=0):
    """canonical term of an operand: ('c', n) ('var', local) ('arg', n) ('place', str) ('local', l)
    ('add'|'sub', a, b) ('len', place) ('min', a, b) ('call', name, bb)"""
    if o["k"] == "const":
        n = op_const_int(o)
        return ("c", n) if n is not None else ("const", o["c"].get("text"))
    p = o["place"]
    l = p["l"]
    if p["p"] and not (len(p["p"]) == 1 and p["p"][0]["k"] == "field" and body.local_ty(l).startswith("(")):
        return ("place", resolve_place(body, p))
    if 0 < l <= body.arg_count:
        return ("arg", l)
    ds = body.defs_of(l)
    if len(ds) != 1 or depth > 20:
        return ("var", l)
    bb, si, rv = ds[0]
    if si == "term":
        nm = callee_name(rv) or "<indirect>"
        if re.search(r"slice::<impl \[T\]>::len$", nm):
            return ("len", arg_place(body, rv, 0))
        if re.search(r"(^|::)cmp::(Ord::)?min$", nm) and len(rv["args"]) == 2:
            a, b = term(body, rv["args"][0], depth + 1), term(body, rv["args"][1], depth + 1)
            return ("min",) + tuple(sorted([a, b], key=repr))
        return ("call", nm, bb)
    if rv["k"] == "use":
        return term(body, rv["a"], depth + 1)
    if rv["k"] == "bin" and rv["op"] in ("Add", "AddWithOverflow", "Sub", "SubWithOverflow"):
        a, b = term(body, rv["a"], depth + 1), term(body, rv["b"], depth + 1)
        if rv["op"].startswith("Add"):
            return ("add",) + tuple(sorted([a, b], key=repr))
        return ("sub", a, b)
    return ("local", l)


def add_of(a, b):
    return ("add",) + tuple(sorted([a, b], key=repr))


def agg_def(body, o):
    """aggregate rvalue defining a bare-local operand (single def)"""
    l = op_local(o)
    if l is None:
        return None
    ds = body.defs_of(l)
    if len(ds) == 1 and ds[0][1] != "term" and ds[0][2]["k"] == "agg":
        return ds[0][2]
    return None


def call_def(body, o, depth=0):
    """the call terminator whose result the operand (a reference chain) denotes"""
    l = op_local(o)
    while l is not None and depth < 10:
        ds = body.defs_of(l)
        if len(ds) != 1:
            return None
        bb, si, rv = ds[0]
        if si == "term":
            return rv
        if rv["k"] == "use":
            l = op_local(rv["a"])
        elif rv["k"] == "ref":
            p = rv["place"]
            if len(p["p"]) == 1 and p["p"][0]["k"] == "deref":
                l = p["l"]
            else:
                return None
        else:
            return None
        depth += 1
    return None


CMP = {"Eq": lambda a, b: a == b, "Ne": lambda a, b: a != b, "Lt": lambda a, b: a < b, "Le": lambda a, b: a <= b,
       "Gt": lambda a, b: a > b, "Ge": lambda a, b: a >= b}


class Counts:
    """values of one body that are the byte count of an inner `Read::read` call c: `direct` (the result
    itself through moves / `?`) or `acc` (sums of such counts and constants: an accumulator)"""

    def __init__(self, body, c_bb, quantum):
        self.body, self.c_bb, self.q = body, c_bb, quantum
        self.direct = set()
        for l in range(body.arg_count + 1, len(body.locals)):
            og = origins(body, {"k": "copy", "place": {"l": l, "p": []}})
            if og and all(o[0] == "call" and o[1] == c_bb for o in og):
                self.direct.add(l)
        cand = {}
        for l in range(body.arg_count + 1, len(body.locals)):
            if l in self.direct:
                continue
            ds = body.defs_of(l)
            if not ds:
                continue
            ops = set()
            ok = True
            for bb, si, rv in ds:
                if si == "term":
                    ok = False
                    break
                if rv["k"] == "use":
                    srcs = [rv["a"]]
                elif rv["k"] == "bin" and rv["op"] in ("Add", "AddWithOverflow"):
                    srcs = [rv["a"], rv["b"]]
                else:
                    ok = False
                    break
                for s in srcs:
                    if s["k"] == "const":
                        if op_const_int(s) is None:
                            ok = False
                    else:
                        bl = _base_local(s)
                        if bl is None:
                            ok = False
                        else:
                            ops.add(bl)
            if ok:
                cand[l] = ops
        changed = True
        while changed:
            changed = False
            for l in list(cand):
                if any(o not in cand and o not in self.direct for o in cand[l]):
                    del cand[l]
                    changed = True
        dep = set()
        changed = True
        while changed:
            changed = False
            for l, ops in cand.items():
                if l not in dep and any(o in self.direct or o in dep for o in ops):
                    dep.add(l)
                    changed = True
        self.acc = dep
        self.cmps = self._cmps()

    def cls(self, o):
        if o["k"] == "const":
            n = op_const_int(o)
            return ("const", n) if n is not None else None
        l = op_local(o)
        if l is None:
            return None
        if l in self.direct:
            return ("direct",)
        if l in self.acc:
            return ("acc",)
        og = origins(self.body, o)
        if og and all(x[0] == "call" and re.search(r"slice::<impl \[T\]>::len$|::len$", x[2]) for x in og):
            return ("len",)
        return None

    def _cmps(self):
        out = []
        b = self.body
        for bb, si, s in b.assigns():
            rv = s["rv"]
            if rv["k"] != "bin" or rv["op"] not in CMP:
                continue
            ca, cb = self.cls(rv["a"]), self.cls(rv["b"])
            flip = False
            if ca and ca[0] in ("const", "len") and cb and cb[0] in ("direct", "acc"):
                ca, cb, flip = cb, ca, True
            if not (ca and ca[0] in ("direct", "acc") and cb and cb[0] in ("const", "len")):
                continue
            bound = cb[1] if cb[0] == "const" else self.q
            t = b.blocks[bb]["term"]
            sw = t if (t["k"] == "switch" and op_local(t["d"]) == s["place"]["l"] and not s["place"]["p"]) else None
            out.append({"bb": bb, "kind": ca[0], "op": rv["op"], "flip": flip, "bound": bound, "bound_kind": cb[0], "switch": sw, "line": s["line"]})
        # switches directly on a count (match n { 0 => .., 4 => .., _ => .. })
        for bb, t in b.terms():
            if t["k"] == "switch" and t.get("dty") != "bool":
                c = self.cls(t["d"])
                if c and c[0] in ("direct", "acc"):
                    # a match that only singles out 0 is an EOF test (bound 0); otherwise the largest listed
                    # non-zero value plays the role of the requested length
                    nz = [int(v) for v in t["vals"] if int(v) != 0]
                    out.append({"bb": bb, "kind": c[0], "op": "switch", "flip": False, "bound": max(nz) if nz else 0, "bound_kind": "match", "switch": t, "line": t.get("line", 0)})
        return out

    def target(self, cmp, n):
        """successor taken when the count is n (None: the comparison result is not branched on here)"""
        t = cmp["switch"]
        if t is None:
            return None
        if cmp["op"] == "switch":
            v = str(n)
        else:
            a, b = (cmp["bound"], n) if cmp["flip"] else (n, cmp["bound"])
            v = "1" if CMP[cmp["op"]](a, b) else "0"
        if v in t["vals"]:
            return t["targets"][t["vals"].index(v)]
        return t["otherwise"]

    def short_targets(self, cmp):
        hi = cmp["bound"] if cmp["bound"] else self.q
        return {self.target(cmp, n) for n in range(1, max(hi, 2))}


def retry_loop(body, cfg, cnt, errs):
    """innermost natural loop around the read call; ok iff every exit edge is: read returned 0 (EOF),
    the accumulated count reached the requested length (full), or the read's own error (`?`)."""
    loops = [(len(b), h, b) for h, b in cfg.loops().items() if cnt.c_bb in b]
    if not loops:
        return None
    _, h, blocks = min(loops)
    kinds = []
    ok = True
    for x in sorted(blocks):
        for s in cfg.succ[x]:
            if s in blocks or body.blocks[s]["term"]["k"] == "unreachable":
                continue
            kind = "other"
            for c in cnt.cmps:
                if c["bb"] != x or c["switch"] is None:
                    continue
                if c["op"] == "switch":
                    if cnt.target(c, 0) == s and all(cnt.target(c, n) != s for n in (1, 2, 3)):
                        kind = "eof"
                elif c["bound"] == 0:
                    if cnt.target(c, 0) == s and all(cnt.target(c, n) != s for n in (1, 2, 3)):
                        kind = "eof"
                elif c["bound"] == cnt.q and cnt.target(c, c["bound"]) == s and all(cnt.target(c, n) in blocks for n in range(1, c["bound"])):
                    kind = "full"       # only the requested length (one quantum) counts as full
            if kind == "other" and s in errs:
                t = body.blocks[x]["term"]
                if t["k"] == "switch":
                    dl = op_local(t["d"])
                    for bb, si, rv in body.defs_of(dl) if dl is not None else []:
                        if si != "term" and rv["k"] == "discr" and rv["place"]["l"] in cnt.direct:
                            kind = "error"
            kinds.append((x, s, kind))
            if kind == "other":
                ok = False
    return {"ok": ok, "header": h, "blocks": blocks, "exits": kinds}


# =============================================================================================
# (d) short-read rule, (e) length error
# =============================================================================================
def check_reads(ctx, ref, dec4, dsize):
    prog = ctx.prog
    q = ref["quantum"]["sextets"]
    ctx.rule("SHORT-READ", "count of the inner Read::read is not compared with the requested length on the way to an error, unless read sits in a retry-until-full-or-EOF loop", floor=2)
    ctx.rule("LEN-ERROR", "explicit length error exists, is guarded by count != 0 and count < 4, a partial quantum always reaches it, and read() propagates it", floor=5)
    bodies = [b for b in prog.bodies if b.impl_self and re.search(r"(^|::)Base64Decoder\b", b.impl_self)]
    found = 0
    for body in bodies:
        reads = [(bb, t) for bb, t in body.calls() if call_matches(t, r"^std::io::Read::read$") or call_matches(t, r" as std::io::Read>::read$")]
        if not reads:
            continue
        cfg = body.cfg()
        errs = err_return_blocks(body)
        oks = ok_return_blocks(body)
        explicit = set()
        for i, si, s in body.assigns():
            if s["place"]["l"] == 0 and not s["place"]["p"] and s["rv"]["k"] == "agg" and s["rv"].get("variant") == "Err":
                explicit.add(i)
        decode_bbs = {bb for bb, t in body.calls() if call_matches(t, r"Base64Decoder::<R>::(%s|%s)$" % (re.escape(dec4 or "?"), re.escape(dsize or "?")))}
        for c_bb, t in reads:
            found += 1
            site = "%s:%d" % (body.file, t["line"])
            cnt = Counts(body, c_bb, q)
            rl = retry_loop(body, cfg, cnt, errs)
            ctx.instance("SHORT-READ", {"fn": body.path, "read_call": site, "buffer": arg_place(body, t, 1),
                                        "retry_loop": None if rl is None else {"ok": rl["ok"], "exits": [list(e) for e in rl["exits"]]},
                                        "count_locals": sorted(cnt.direct), "accumulators": sorted(cnt.acc)})
            for c in cnt.cmps:
                if c["bound"] == 0:
                    continue
                if c["switch"] is None:
                    ctx.anchor("SHORT-READ", body.path + "/comparison", "a comparison of the read count is not branched on directly (not understood)")
                    continue
                bad = set()
                for tgt in cnt.short_targets(c):
                    if tgt is not None and cfg.reachable_from(tgt, removed={c_bb}) & errs:
                        bad.add(tgt)
                ctx.instance("SHORT-READ", {"fn": body.path, "cmp": "%s %s %s" % (c["kind"], c["op"], c["bound"] if c["bound_kind"] != "len" else "len"),
                                            "line": c["line"], "short_edge_reaches_error": bool(bad)})
                if not bad:
                    continue
                csite = "%s:%d" % (body.file, c["line"])
                if c["kind"] == "direct":
                    ctx.violation("SHORT-READ", body.path, "short-read-is-error",
                                  "the byte count returned by one inner read() is compared with %s and a smaller non-zero count leads to an error return; "
                                  "a reader may legally return fewer bytes than requested (e.g. one byte per read: \"TWFu\" fails to decode). "
                                  "The call is not in a loop that retries until the buffer is full or read returns 0%s" % (
                                      c["bound"] if c["bound_kind"] == "const" else "the buffer length",
                                      "" if rl is None else " (loop exits: %s)" % sorted({k for _, _, k in rl["exits"]})),
                                  sites=[site, csite])
                elif rl is None or not rl["ok"] or c["bb"] in rl["blocks"]:
                    ctx.violation("SHORT-READ", body.path, "partial-count-without-retry-loop",
                                  "an accumulated read count is tested against %s on the way to an error, but the read call is not inside a loop whose only exits are "
                                  "EOF (count 0), buffer full, or the read's own error" % c["bound"], sites=[site, csite])
            # ---- (e)
            ctx.instance("LEN-ERROR", {"fn": body.path, "explicit_error_blocks": sorted(explicit)})
            if not explicit:
                ctx.violation("LEN-ERROR", body.path, "missing", "no explicit error is constructed: text whose length is not a multiple of four would be truncated silently", sites=[site])
                continue
            g0 = g4 = None
            for c in cnt.cmps:
                if c["switch"] is None:
                    continue
                sts = {cnt.target(c, n) for n in range(1, q)}
                if len(sts) != 1:
                    continue
                tgt = next(iter(sts))
                if tgt is None or not all(cfg.edge_dominates(c["bb"], tgt, e) for e in explicit):
                    continue
                if cnt.target(c, 0) != tgt and (c["bound"] == 0 or c["op"] == "switch"):
                    g0 = (c, tgt)
                if cnt.target(c, q) != tgt and (c["bound"] == q or c["op"] == "switch"):
                    g4 = (c, tgt)
            esites = ["%s:%d" % (body.file, max([x.get("line", 0) for x in body.blocks[e]["stmts"]] + [0])) for e in sorted(explicit)]
            ctx.instance("LEN-ERROR", {"fn": body.path, "guard_nonzero": None if g0 is None else "bb%d line %d" % (g0[0]["bb"], g0[0]["line"])})
            if g0 is None:
                ctx.violation("LEN-ERROR", body.path, "not-guarded-by-nonzero", "the length error is not dominated by the outcome `count != 0` of a test of the byte count: a clean EOF could be reported as an error", sites=esites)
            ctx.instance("LEN-ERROR", {"fn": body.path, "guard_partial": None if g4 is None else "bb%d line %d" % (g4[0]["bb"], g4[0]["line"])})
            if g4 is None:
                ctx.violation("LEN-ERROR", body.path, "not-guarded-by-partial", "the length error is not dominated by the outcome `count in 1..3` of a test of the byte count against %d: a trailing partial quantum is not what triggers it" % q, sites=esites)
            else:
                c, tgt = g4
                exits = set(oks) | {c_bb} | decode_bbs
                ok, wit = cfg.must_pass(explicit, exits=exits, start=tgt)
                ctx.instance("LEN-ERROR", {"fn": body.path, "partial_always_errors": ok})
                if not ok:
                    ctx.violation("LEN-ERROR", body.path, "partial-accepted", "with 1..3 bytes obtained a path avoids the error (blocks %s): a trailing partial quantum can be accepted silently" % wit, sites=esites)
    if not found:
        ctx.anchor("SHORT-READ", "inner-read", "no call of the inner reader's Read::read found in Base64Decoder")
        return
    # propagation through Read::read of the decoder
    rds = prog.method(r"(^|::)Base64Decoder\b", "read", r"Read")
    fill_paths = {b.path for b in bodies if any(call_matches(t, r"^std::io::Read::read$") for _, t in b.calls())}
    if len(rds) != 1:
        ctx.anchor("LEN-ERROR", "Base64Decoder::read")
        return
    rd = rds[0]
    prop = False
    ncalls = 0
    for bb, t in rd.calls():
        if callee_name(t) in fill_paths:
            ncalls += 1
    for bb, t in rd.calls():
        if call_matches(t, r"FromResidual.*::from_residual$") and t["dest"]["l"] == 0:
            og = origins(rd, t["args"][0])
            if og and all(o[0] == "call" and o[2] in fill_paths for o in og):
                prop = True
    # path form: once the filling function has returned Err, read() cannot return Ok without asking it again
    rcfg = rd.cfg()
    fill_blocks = [bb for bb, t in rd.calls() if callee_name(t) in fill_paths]
    oks_rd = set(ok_return_blocks(rd))
    swallowed = []
    n_tested = 0
    for x, blk in enumerate(rd.blocks):
        t = blk["term"]
        if t["k"] != "switch":
            continue
        e = fexpr(rd, t["d"])
        m1 = re.fullmatch(r"discr\((.*)\)", e)
        if not m1:
            continue
        inner = m1.group(1)
        via_branch = re.fullmatch(r"Try::branch\((.*)\)", inner)
        src_e = via_branch.group(1) if via_branch else inner
        if not any(src_e == fexpr(rd, {"k": "copy", "place": rd.blocks[fb]["term"]["dest"]}) for fb in fill_blocks):
            continue
        n_tested += 1
        succs = list(zip(t["vals"], t["targets"])) + [(None, t["otherwise"])]
        err_targets = [tg for v, tg in succs if v == "1"] or ([t["otherwise"]] if "0" in t["vals"] and len(t["vals"]) == 1 else [])
        for tg in err_targets:
            reach = rcfg.reachable_from(tg, removed=fill_blocks)
            bad = sorted(reach & oks_rd)
            ctx.instance("LEN-ERROR", {"fn": rd.path, "err_edge": "bb%d->bb%d" % (x, tg), "reaches_ok_return": bad})
            if bad:
                swallowed.append((x, tg, bad))
    if swallowed:
        ctx.violation("LEN-ERROR", rd.path, "error-path-returns-ok", "after the buffer-filling function returned Err, read() can still return Ok (edges %s): "
                      "the length error is consumed and the stream ends as if complete" % ["bb%d->bb%d" % (a, b_) for a, b_, _ in swallowed], sites=[rd.loc])
    ctx.instance("LEN-ERROR", {"fn": rd.path, "fill_calls": ncalls, "error_propagated": prop})
    if ncalls == 0 and rd.path not in fill_paths:
        ctx.anchor("LEN-ERROR", "read/fill-call", "Base64Decoder::read does not call the buffer-filling function")
    elif n_tested == 0 and rd.path not in fill_paths:
        ctx.violation("LEN-ERROR", rd.path, "not-propagated", "the result of the buffer-filling function is not inspected by read() (no Ok/Err test of it): a length error would be swallowed", sites=[rd.loc])


# =============================================================================================
# (c) streaming-state shape on MIR: encoder carry index, decoder copy = min(available, room)
# =============================================================================================
def check_carry(ctx, ref, fields):
    """MIR side of CARRY (the state machine itself is decided by the symbolic runs of check_encoder): every Base64Encoder literal starts
    with carry index 0, and the value returned by write is buf.len() for every length (the runs cover lengths up to 65 only)."""
    prog = ctx.prog
    ws = prog.method(r"(^|::)Base64Encoder\b", "write", r"Write")
    if len(ws) != 1 or fields is None:
        ctx.anchor("CARRY", "Base64Encoder::write")
        return
    carry, size, inner, n = fields[:4]
    b = prog.inlined(ws[0].path) or ws[0]
    # constructor literals
    lits = []
    for bd in prog.bodies:
        for i, si, s in bd.assigns():
            rv = s["rv"]
            if rv["k"] == "agg" and rv["ak"] == "adt" and re.search(r"(^|::)Base64Encoder$", rv["adt"]):
                lits.append((bd, s))
    for bd, s in lits:
        rv = s["rv"]
        o = rv["fields"][rv["fnames"].index(size)] if size in rv.get("fnames", []) else None
        v = None
        if o is not None:
            v = op_const_int(o)
            if v is None:
                tv = term(bd, o)
                v = tv[1] if tv[0] == "c" else None
        ctx.instance("CARRY", {"literal_in": bd.path, "initial_index": v})
        if v is None and bd.name == "new" and ctx.extra.get("c14_new_ok"):
            continue            # not a constant operand, but new() evaluates to index 0 (check_encoder)
        if v != 0:
            ctx.violation("CARRY", bd.path, "initial-index", "Base64Encoder constructed with carry index %s, must be 0" % v, sites=["%s:%d" % (bd.file, s["line"])])
    if not lits:
        ctx.anchor("CARRY", "Base64Encoder-literal")
    # all of buf is consumed
    oks = ok_return_blocks(b)
    rets = [(i, s) for i, si, s in b.assigns() if i in oks and s["place"]["l"] == 0 and s["rv"]["k"] == "agg"]
    for i, s in rets:
        tv = term(b, s["rv"]["fields"][0])
        ctx.instance("CARRY", {"fn": b.path, "ok_value": tv})
        if tv == ("len", "(*_2)"):
            continue
        if tv[0] == "var":
            ctx.note("CARRY: %s returns %s (a computed count): equal to buf.len() for the evaluated lengths 0..65, undecided beyond" % (b.path, tv))
            continue
        ctx.violation("CARRY", b.path, "ok-value", "write returns %s, not buf.len(): the caller would re-send or skip bytes" % (tv,), sites=["%s:%d" % (b.file, s["line"])])
    if not rets:
        ctx.anchor("CARRY", "write/ok-value", "no Ok(..) value found in Base64Encoder::write")


def range_def(body, call, argi):
    a = agg_def(body, call["args"][argi])
    if a is None or a.get("ak") != "adt":
        return None
    nm = a["adt"].split("::")[-1]
    return nm, [term(body, f) for f in a["fields"]]


def zero_len_edges(body, slice_place):
    """CFG edges (bb, target) on which `<slice_place>.len() == 0` is known: outcomes of comparisons of the length with 0 / 1,
    of `is_empty()`, and the `0` arm of a match on the length"""
    L = ("len", slice_place)
    # (op, length on the left?, constant) -> the switch value ("1" true / "0" false) on which len == 0 holds
    zero_when = {("Eq", True, 0): "1", ("Eq", False, 0): "1", ("Ne", True, 0): "0", ("Ne", False, 0): "0",
                 ("Gt", True, 0): "0", ("Lt", False, 0): "0", ("Le", True, 0): "1", ("Ge", False, 0): "1",
                 ("Lt", True, 1): "1", ("Gt", False, 1): "1", ("Ge", True, 1): "0", ("Le", False, 1): "0"}
    out = set()

    def edge(bb, t, v):
        if v in t["vals"]:
            out.add((bb, t["targets"][t["vals"].index(v)]))
        elif len(t["vals"]) == 1 and v in ("0", "1"):
            out.add((bb, t["otherwise"]))
    for bb, t in body.terms():
        if t["k"] != "switch":
            continue
        dl = op_local(t["d"])
        if dl is None:
            continue
        if term(body, t["d"]) == L:
            edge(bb, t, "0") if "0" in t["vals"] else None
            continue
        ds = body.defs_of(dl)
        if len(ds) != 1:
            continue
        _, si, rv = ds[0]
        if si == "term":
            if call_matches(rv, r"slice::<impl \[T\]>::is_empty$") and arg_place(body, rv, 0) == slice_place:
                edge(bb, t, "1")
        elif rv["k"] == "bin" and rv["op"] in CMP:
            ta, tb = term(body, rv["a"]), term(body, rv["b"])
            for left, x, y in ((True, ta, tb), (False, tb, ta)):
                if x == L and y[0] == "c" and (rv["op"], left, y[1]) in zero_when:
                    edge(bb, t, zero_when[(rv["op"], left, y[1])])
        elif rv["k"] == "un" and rv["op"] == "Not":
            pass
    return out


def check_read_min(ctx):
    prog = ctx.prog
    ctx.rule("READ-MIN", "read: copies size = min(buffer().len(), out.len() - out_offset) from buffer()[..size] to out[off..off+size], both offsets advance by size; buffer() = buffer[offset..size]", floor=6)
    rds = prog.method(r"(^|::)Base64Decoder\b", "read", r"Read")
    bufs = prog.method(r"(^|::)Base64Decoder\b", "buffer")
    if len(rds) != 1 or len(bufs) != 1:
        ctx.anchor("READ-MIN", "Base64Decoder::read/buffer")
        return
    b, bufb = rds[0], bufs[0]
    copies = [(bb, t) for bb, t in b.calls() if call_matches(t, r"copy_from_slice$")]
    if len(copies) != 1:
        ctx.anchor("READ-MIN", "read/copy_from_slice", "expected exactly one copy_from_slice in read, found %d" % len(copies))
        return
    bb, cp = copies[0]
    site = ["%s:%d" % (b.file, cp["line"])]
    dcall, scall = call_def(b, cp["args"][0]), call_def(b, cp["args"][1])
    if not (dcall and scall and call_matches(dcall, r"IndexMut<I>.*::index_mut$") and call_matches(scall, r"Index<I>.*::index$")):
        ctx.anchor("READ-MIN", "read/copy-operands", "copy operands are not range-indexed slices")
        return
    srng, drng = range_def(b, scall, 1), range_def(b, dcall, 1)
    if not srng or not drng or srng[0] != "RangeTo" or drng[0] != "Range":
        ctx.anchor("READ-MIN", "read/ranges", "source must be `[..size]`, destination `[off..off + size]` (found %s / %s)" % (srng and srng[0], drng and drng[0]))
        return
    size_t = srng[1][0]
    # source slice is the value of self.buffer()
    sl = call_def(b, scall["args"][0])
    src_ok = sl is not None and callee_name(sl) == bufb.path and arg_place(b, sl, 0) == "(*_1)"
    avail = ("len", "(*_%d)" % sl["dest"]["l"]) if src_ok else None
    ctx.instance("READ-MIN", {"fn": b.path, "source": callee_name(sl) if sl else None})
    if not src_ok:
        ctx.violation("READ-MIN", b.path, "source", "the copied bytes are not taken from self.buffer()", sites=site)
        return
    ctx.instance("READ-MIN", {"fn": b.path, "size": size_t})
    off = drng[1][0]
    room = ("sub", ("len", "(*_2)"), off)
    want = ("min",) + tuple(sorted([avail, room], key=repr))
    if size_t != want:
        ctx.violation("READ-MIN", b.path, "size",
                      "the copy length is %s, not min(available = buffer().len(), room = out.len() - out_offset): copy_from_slice panics or bytes are lost when the caller's buffer is smaller/larger than the decoded data" % (size_t,), sites=site)
    ctx.instance("READ-MIN", {"fn": b.path, "dest_range": drng[1]})
    if off[0] != "var" or drng[1][1] != add_of(off, size_t) or arg_place(b, dcall, 0) != "(*_2)":
        ctx.violation("READ-MIN", b.path, "dest-range", "destination is not out[out_offset .. out_offset + size]: %s" % (drng[1],), sites=site)
    # offsets advance by size
    if off[0] == "var":
        defs = [term(b, rv["a"]) if (si != "term" and rv["k"] == "use") else ("?",) for (_, si, rv) in b.defs_of(off[1])]
        ctx.instance("READ-MIN", {"fn": b.path, "out_offset_defs": defs})
        if sorted(defs, key=repr) != sorted([("c", 0), add_of(off, size_t)], key=repr):
            ctx.violation("READ-MIN", b.path, "out-offset", "out_offset is not (0; += size): %s" % (defs,), sites=site)
        # every Ok value is the running count; or 0 / out.len() on an exit taken before anything is copied, on an edge
        # where out.len() == 0 is known (an exact fast path for an empty destination: the loop would not have run)
        cfg = b.cfg()
        zedges = zero_len_edges(b, "(*_2)")
        after_copy = cfg.reachable_from(bb)
        rets, bad = [], []
        for i, si, s in b.assigns():
            if i in ok_return_blocks(b) and s["place"]["l"] == 0 and s["rv"]["k"] == "agg":
                tv = term(b, s["rv"]["fields"][0])
                rets.append(tv)
                if tv == off:
                    continue
                if tv in (("c", 0), ("len", "(*_2)")) and i not in after_copy and any(cfg.edge_dominates(x, t, i) for x, t in zedges):
                    continue
                bad.append(tv)
        ctx.instance("READ-MIN", {"fn": b.path, "ok_values": rets})
        if bad or off not in rets:
            ctx.violation("READ-MIN", b.path, "ok-value", "read returns %s, not the number of bytes copied" % (rets,), sites=[b.loc])
    # buffer(): &self.buffer[self.buffer_offset..self.buffer_size]
    ic = [t for _, t in bufb.calls() if call_matches(t, r"Index<I>.*::index$")]
    rg = range_def(bufb, ic[0], 1) if len(ic) == 1 else None
    ctx.instance("READ-MIN", {"fn": bufb.path, "range": rg})
    fld = None
    if not (rg and rg[0] == "Range" and rg[1][0][0] == "place" and rg[1][1][0] == "place" and rg[1][0] != rg[1][1]
            and call_def(bufb, {"k": "copy", "place": {"l": 0, "p": []}}) is ic[0]):
        ctx.violation("READ-MIN", bufb.path, "window", "buffer() is not &self.<buf>[self.<offset>..self.<size>]", sites=[bufb.loc])
    else:
        fld = (rg[1][0][1], rg[1][1][1], arg_place(bufb, ic[0], 0))
        w = writes_to_field(b, "^" + re.escape(fld[0]) + "$")
        ts = [term(b, s["rv"]["a"]) if s.get("rv", {}).get("k") == "use" else ("?",) for (_, _, _, s) in w]
        ctx.instance("READ-MIN", {"fn": b.path, "consumed_offset_writes": ts})
        if ts != [add_of(("place", fld[0]), size_t)]:
            ctx.violation("READ-MIN", b.path, "buffer-offset", "%s is not advanced by exactly the copied size: %s" % (fld[0], ts), sites=site)
    return fld


def check_dec_use(ctx, dec4, dsize, fld):
    prog = ctx.prog
    ctx.rule("DEC-USE", "fill: both decode functions get the bytes read; out[..n] is copied to buffer[size..size+n]; size += n (n = size-from-padding)", floor=4)
    fills = [b for b in prog.bodies if b.impl_self and re.search(r"(^|::)Base64Decoder\b", b.impl_self)
             and any(call_matches(t, r"Base64Decoder::<R>::%s$" % re.escape(dec4 or "?")) for _, t in b.calls())]
    if len(fills) != 1 or fld is None:
        ctx.anchor("DEC-USE", "fill-function", "expected one Base64Decoder function calling %s" % dec4)
        return
    b = fills[0]
    d4 = [(bb, t) for bb, t in b.calls() if call_matches(t, r"Base64Decoder::<R>::%s$" % re.escape(dec4))]
    ds = [(bb, t) for bb, t in b.calls() if call_matches(t, r"Base64Decoder::<R>::%s$" % re.escape(dsize or "?"))]
    rd = [(bb, t) for bb, t in b.calls() if call_matches(t, r"^std::io::Read::read$")]
    cps = [(bb, t) for bb, t in b.calls() if call_matches(t, r"copy_from_slice$")]
    if len(d4) != 1 or len(ds) != 1 or not rd or len(cps) != 1:
        ctx.anchor("DEC-USE", b.path + "/calls", "expected one call each of %s, %s, copy_from_slice and an inner read" % (dec4, dsize))
        return
    thr = [r"IndexMut<I>.*::index_mut$", r"Index<I>.*::index$"]
    o4, os_ = origins(b, d4[0][1]["args"][0]), origins(b, ds[0][1]["args"][0])
    ors = [origins(b, t["args"][1], through=thr) for _, t in rd]
    ctx.instance("DEC-USE", {"fn": b.path, "decode_arg": sorted(map(str, o4)), "size_arg": sorted(map(str, os_)), "read_buffers": [sorted(map(str, o)) for o in ors]})
    if not o4 or o4 != os_ or any(o != o4 for o in ors) or not all(o[0] == "rv" for o in o4):
        ctx.violation("DEC-USE", b.path, "decode-args", "the 4->3 function and the size function are not applied to the very array the inner read filled", sites=["%s:%d" % (b.file, d4[0][1]["line"])])
    nterm = ("call", callee_name(ds[0][1]), ds[0][0])
    cp = cps[0][1]
    site = ["%s:%d" % (b.file, cp["line"])]
    dcall, scall = call_def(b, cp["args"][0]), call_def(b, cp["args"][1])
    srng = range_def(b, scall, 1) if scall and call_matches(scall, r"Index<I>.*::index$") else None
    drng = range_def(b, dcall, 1) if dcall and call_matches(dcall, r"IndexMut<I>.*::index_mut$") else None
    ctx.instance("DEC-USE", {"fn": b.path, "src_range": srng})
    if not (srng and srng[0] == "RangeTo" and srng[1] == [nterm] and arg_place(b, scall, 0) == "_%d" % d4[0][1]["dest"]["l"]):
        ctx.violation("DEC-USE", b.path, "source", "the bytes stored are not <4->3 result>[..<size-from-padding>]: %s" % (srng,), sites=site)
    S = ("place", fld[1])
    ctx.instance("DEC-USE", {"fn": b.path, "dst_range": drng})
    if not (drng and drng[0] == "Range" and drng[1] == [S, add_of(S, nterm)] and arg_place(b, dcall, 0) == fld[2]):
        ctx.violation("DEC-USE", b.path, "dest", "the bytes are not stored at buffer[size .. size + n]: %s" % (drng,), sites=site)
    w = [(i, s) for (i, si, rp, s) in writes_to_field(b, "^" + re.escape(fld[1]) + "$")]
    ts = [term(b, s["rv"]["a"]) if s.get("rv", {}).get("k") == "use" else ("?",) for i, s in w]
    adv = [t for t in ts if t != ("c", 0)]
    ctx.instance("DEC-USE", {"fn": b.path, "size_writes": ts})
    if adv != [add_of(S, nterm)]:
        ctx.violation("DEC-USE", b.path, "size-update", "the buffered size is not advanced by exactly the number of decoded bytes: %s" % (ts,), sites=site)


# =============================================================================================
def find_decoder_fns(ctx):
    d4 = ds = None
    for (f, s, tr, it, t) in ctx.src.fns:
        if t or not s or not re.match(r"Base64Decoder\b", s) or param_name(it) is None:
            continue
        out = (it["sig"].get("output") or "").replace(" ", "")
        if out == "[u8;3]":
            d4 = it["name"] if d4 is None else False
        elif out == "usize":
            ds = it["name"] if ds is None else False
    return d4 or None, ds or None


CLAIM = {
    "text": "Static necessary conditions of the streaming base64 codec, decided from the current source facts: the encoder alphabet equals "
            "RFC 4648 Table 1 and the decode table inverts it ('=' -> 0) for all 64 rows; by symbolic evaluation of the source (concrete control "
            "state, symbolic data bytes with exact bit provenance) every character emitted by Base64Encoder::write and by finish in every carry "
            "state has exactly the RFC 4648 regrouping (24 bits per quantum, zero fill, '=' padding whose count agrees with the decoder's "
            "size-from-padding function), write in every carry state appends the bytes in order, emits every completed group exactly once, "
            "leaves index (s+n) mod 3 and returns Ok(n) (all byte values; n up to 65), the decoder's 4->3 function has the inverse provenance, and "
            "read() over a scripted inner reader delivers for every enumerated stream (up to 64 quanta, with and without padding), every cutting "
            "of the quanta into inner reads and every enumerated destination size exactly the RFC 4648 bytes, in order, ends a trailing partial "
            "quantum in Err and a clean end in Ok(0); two inductive struct invariants (encoder carry "
            "index in 0..=2; decoder 0 <= buffer_offset <= buffer_size <= 64) are proven by abstract interpretation and under them every "
            "overflow / bounds / range / copy_from_slice-length obligation of the codec is discharged (no panic for any input and any chunking, "
            "assuming inner readers obey the Read contract n <= buf.len()). The enumerations of lengths/sizes/chunkings are finite; equality of "
            "decoded and encoded bytes beyond them, invalid characters and behaviour after an Err are not decided.",
    "technique": "exhaustive const-table comparison with an RFC 4648 reference; symbolic evaluation of the syn tree (sa/consteval subclass) with "
                 "per-bit provenance (bitflow) over enumerated control states; MIR CFG rules (dominators, natural loops, value origins, edge "
                 "dominance) as diagnostics; abstract interpretation for the numeric obligations",
    "design_ref": "DESIGN.md §5 C14",
}


def run(ctx):
    ctx.explanation = (
        "Decides, from the current source facts: (a) the encoder alphabet is RFC 4648 Table 1 (64 rows), DECODE[ENCODE[i]] = i for all i, "
        "DECODE['='] = 0 (exhaustive over the const initialisers); (b) by symbolic evaluation of write / finish in every carry state: the index of "
        "every emitted character has exactly the RFC 4648 bit provenance (zero filled), pads are '=' and their number agrees with the "
        "decoder's size-from-padding function; the decoder's 4->3 function has the inverse provenance (24 bits); (c-shape) write appends "
        "bytes to the carry in order, emits each completed group once, index = (s+n) mod 3, returns buf.len(); read() delivers the decoded "
        "bytes completely and in order for every enumerated destination size (min(available, room) copies, offsets advance); (d) every cutting "
        "of the input into short inner reads decodes the same bytes; (e) a trailing partial quantum ends in Err from read(), a clean end in "
        "Ok(0). MIR shape rules add diagnostics for clauses that fail. NOT decided here: numeric panic-freedom/bounds (clauses c/f: see "
        "obligations()), behaviour of the inner reader/writer, invalid characters (mapped to 0 by the table; outside the property), "
        "behaviour after an Err, input lengths / destination sizes beyond the enumerated ones.")
    ctx.assume("the syn tree evaluated by sa/consteval (+ the std models of SymInterp: slices, iterators, Option/Result, min/max) and the MIR of the "
               "dev profile are the semantics of the code; unwind paths are out of scope")
    ctx.assume("valid input characters are alphabet characters (their table value is a sextet < 64, they differ from '='); the inner reader obeys the "
               "Read contract (0 < n <= buf.len() until the end, then 0)")
    ctx.trust("sa/refs/rfc4648.json", "alphabet and 3<->4 regrouping written from RFC 4648 §4")
    ctx.trust("sa/bitflow.py", "exact per-bit provenance for shifts/masks/ors/casts; fails closed on other operators")
    ctx.trust("sa/consteval.py", "source-level evaluator: control flow, calls, patterns of the evaluated subset; Unsupported on anything else")
    ref = load_ref(ctx)
    enc_name, pads = check_encoder(ctx, ref)
    check_carry(ctx, ref, encoder_fields(ctx))
    verdict = check_stream(ctx, ref)
    covered = verdict["DEC-USE"] == "pass"
    dec4, dsize = find_decoder_fns(ctx)
    dec_name = check_decode_bits(ctx, ref, dec4, covered)
    check_padding(ctx, ref, pads, dsize, covered)
    if dec_name is None and covered and len(verdict["tables"]) == 1:
        dec_name = sorted(verdict["tables"])[0]
    check_tables(ctx, ref, enc_name, dec_name)
    ctx.exhaustive = {"ALPHABET": "all 64 rows", "DECODE-INVERSE": "all 64 alphabet characters + pad", "ENC-BITS/DEC-BITS": "all 24 bits of every shape",
                      "CARRY": "every carry state x every byte value (one-byte steps)"}
    diag = Diag(ctx)
    fld = None
    for rule, fn in (("READ-MIN", lambda: check_read_min(diag)), ("DEC-USE", lambda: check_dec_use(diag, dec4, dsize, fld)), ("SHORT-READ", lambda: check_reads(diag, ref, dec4, dsize))):
        try:
            r = fn()
            if rule == "READ-MIN":
                fld = r
        except Exception as ex:      # a shape the MIR rule was not written for
            diag.anchor(rule, "mir-shape", "the MIR shape rule met a construct it does not understand: %s: %s" % (type(ex).__name__, ex))
    diag.flush(verdict)
    obligations(ctx)
