"""Call graph over crate-local bodies: resolved calls, class-hierarchy analysis for
unresolved trait calls, and mentioned fn items / closures."""
from collections import defaultdict


class CallGraph:
    def __init__(self, prog):
        self.prog = prog
        self.edges = defaultdict(set)      # body path -> set(body path)
        self.ext = defaultdict(set)        # body path -> set(external callee name)
        self.unresolved = defaultdict(set)
        trait_impls = defaultdict(list)    # (trait, method) -> [body]
        for b in prog.bodies:
            if b.impl_trait and b.kind == "AssocFn":
                trait_impls[(b.impl_trait, b.name)].append(b)
        self.trait_impls = trait_impls
        local_paths = set(prog.by_path)
        for b in prog.bodies:
            for bi, blk in enumerate(b.blocks):
                for s in blk["stmts"]:
                    if s["k"] != "assign":
                        continue
                    self._scan_rv(b, s["rv"], local_paths)
                t = blk["term"]
                if t["k"] == "call":
                    for a in t["args"]:
                        self._scan_op(b, a, local_paths)
                    f = t["fn"]
                    if f.get("path") is None:
                        self.unresolved[b.path].add("<indirect>")
                        continue
                    self._add_fn(b, f, local_paths)
                elif t["k"] == "switch":
                    pass

    def _add_fn(self, b, f, local_paths):
        r = f.get("resolved")
        if r is not None:
            if f.get("resolved_local") and r in local_paths:
                self.edges[b.path].add(r)
            elif f.get("resolved_local"):
                # local item without MIR body dumped (e.g. derive/closure shim) – record as external
                self.ext[b.path].add(r)
            else:
                self.ext[b.path].add(r)
            return
        # unresolved: CHA
        tr = f.get("trait")
        name = f["path"].split("::")[-1]
        if tr:
            impls = self.trait_impls.get((tr, name), [])
            for ib in impls:
                self.edges[b.path].add(ib.path)
            # trait default method body (local trait)
            if f.get("local") and f["path"] in local_paths:
                self.edges[b.path].add(f["path"])
            if not impls:
                self.ext[b.path].add(f["path"])
            self.unresolved[b.path].add(f["path"])
        else:
            if f.get("local") and f["path"] in local_paths:
                self.edges[b.path].add(f["path"])
            else:
                self.ext[b.path].add(f["path"])

    def _scan_op(self, b, o, local_paths):
        if o["k"] == "const" and "fn" in o["c"]:
            self._add_fn(b, o["c"]["fn"], local_paths)

    def _scan_rv(self, b, rv, local_paths):
        k = rv["k"]
        if k == "agg":
            if rv["ak"] == "closure" and rv["def"] in local_paths:
                self.edges[b.path].add(rv["def"])
            for f in rv["fields"]:
                self._scan_op(b, f, local_paths)
        elif k in ("use", "cast", "un", "repeat"):
            self._scan_op(b, rv["a"], local_paths)
        elif k == "bin":
            self._scan_op(b, rv["a"], local_paths)
            self._scan_op(b, rv["b"], local_paths)

    def reach(self, entries):
        seen = set()
        st = [e for e in entries]
        while st:
            x = st.pop()
            if x in seen:
                continue
            seen.add(x)
            for y in self.edges.get(x, ()):
                if y not in seen:
                    st.append(y)
        return seen

    def callers(self, path):
        return sorted(a for a, bs in self.edges.items() if path in bs)

    def path_to(self, entries, target):
        prev = {}
        q = list(entries)
        for e in q:
            prev[e] = None
        while q:
            x = q.pop(0)
            if x == target:
                out = []
                while x is not None:
                    out.append(x)
                    x = prev[x]
                return out[::-1]
            for y in sorted(self.edges.get(x, ())):
                if y not in prev:
                    prev[y] = x
                    q.append(y)
        return None
