"""C03 — decoded events do not depend on read boundaries (fold theorem hypotheses) and the
structural clauses of the longest-match rule (LIFO re-scheduling, tag order, overlap set)."""
import itertools
import re
from ..mir import call_matches, callee_name, op_local, op_const_int
from ..flow import expr, place_expr, resolve_place, origins, arg_place
from .. import grammar, regex

CLAIM = {
    "text": "Read-boundary independence decided through the hypotheses of a fold theorem, each checked on MIR for both byte decoders: single "
            "fill_buf, in-order iteration of its slice, exactly one step per byte fed with that byte, a counter incremented once per byte (or set to the enumerate() index + 1) before "
            "the step, consume(count) on every exit, re-scheduled bytes drained first through the same step, no clock/env/random/IO input in the "
            "step's reach. Structural clauses of longest-match: LIFO re-scheduling (pop / drain(size..).rev() / push+pop pairing), minimum-tag "
            "selection with Item < Matcher, and the set of overlapping grammars (regular-language intersection) equal to the documented one. "
            "Which candidate is kept and the push-back arithmetic are not decided.",
    "technique": "MIR CFG rules (dominators, must-pass, once-per-iteration), call-graph effect scan, symbolic def-chasing templates, DFA intersection on extracted grammars",
    "design_ref": "DESIGN.md §5 C03, §11",
}

FORBIDDEN_INPUTS = r"^(std::time::|std::env::|std::process::|std::thread::|std::fs::|std::net::|rand|getrandom|libc::|rustix::|std::io::stdin|std::sync::atomic|std::cell::)"
ALLOWED_STATICS = {"decoder::UTF8DFA", "decoder::TTY_EVENT_AUTOMATA", "decoder::TTY_COMMAND_AUTOMATA"}

STEP_FNS = r"^decoder::MatcherDecoder::<T>::decode_byte$"
DECODERS = [
    # (body path, step callee regex or None for inline step, has pending queue)
    ("<decoder::MatcherDecoder<T> as decoder::Decoder>::decode", r"^decoder::MatcherDecoder::<T>::decode_byte$", True),
    ("<decoder::Utf8Decoder as decoder::Decoder>::decode", r"^automata::DFA::<T>::transition$", False),
]


def some_edge(body, bb, t):
    nxt = t["t"]
    blk = body.blocks[nxt]
    tt = blk["term"]
    if tt["k"] == "switch":
        for v, tg in zip(tt["vals"], tt["targets"]):
            if v == "1":
                return nxt, tg, (tt["targets"][tt["vals"].index("0")] if "0" in tt["vals"] else tt["otherwise"])
        if tt["vals"] == ["0"]:
            return nxt, tt["otherwise"], tt["targets"][0]
    return None


# ------------------------------------------------------------------------------------------------
# helpers: bodies with extracted helpers expanded, canonical-term parsing, in-order iteration idioms
# ------------------------------------------------------------------------------------------------
def inlined_keep(prog, path, keep_rx):
    """`prog.inlined(path)` (sa/inline.py: small private single-caller helpers expanded in place) except that callees whose path matches
    keep_rx stay calls: the rules below talk about those functions by name (the step function, take_candidate)."""
    from .. import inline
    from ..mir import Body
    import copy
    cache = prog.__dict__.setdefault("_c03_inl_cache", {})
    key = (path, keep_rx)
    if key in cache:
        return cache[key]
    base = prog.body(path)
    if base is None:
        return None
    root = base.closure_root or base.path
    j = None
    work = list(range(len(base.blocks)))
    level = {i: 0 for i in work}
    blocks, locals_, vars_ = base.blocks, base.locals, base.j["vars"]
    expanded = set()
    while work:
        bb = work.pop(0)
        blk = blocks[bb]
        t = blk["term"]
        if t["k"] != "call" or level.get(bb, 0) >= inline.MAX_DEPTH or blk["cleanup"]:
            continue
        f = t["fn"]
        cpath = f.get("resolved") if f.get("resolved_local") else (f.get("path") if f.get("local") else None)
        callee = prog.body(cpath) if cpath else None
        if callee is None or (keep_rx and re.search(keep_rx, callee.path)) or len(t["args"]) != callee.arg_count or not _inlinable(prog, callee, root, expanded):
            continue
        expanded.add(callee.path)
        if j is None:
            j = copy.deepcopy(base.j)
            blocks, locals_, vars_ = j["blocks"], j["locals"], j["vars"]
            blk = blocks[bb]
            t = blk["term"]
        lo, bo = len(locals_), len(blocks)
        locals_.extend(copy.deepcopy(callee.locals))
        for v in callee.j["vars"]:
            vars_.append({"name": v["name"], "place": inline._shift(v["place"], lo, 0)})
        for k, a in enumerate(t["args"]):
            blk["stmts"].append({"k": "assign", "place": {"l": lo + 1 + k, "p": []}, "rv": {"k": "use", "a": a}, "line": t.get("line", 0), "exp": False, "expk": "", "inl_arg": callee.path})
        dest, target, line = t["dest"], t["t"], t.get("line", 0)
        blk["term"] = {"k": "goto", "t": bo, "inl_call": callee.path, "line": line}
        for i, cb in enumerate(callee.blocks):
            nb = inline._shift(cb, lo, bo)
            nb["inl_from"] = cb.get("inl_from") or callee.path
            if nb["term"]["k"] == "return":
                nb["stmts"].append({"k": "assign", "place": dest, "rv": {"k": "use", "a": {"k": "move", "place": {"l": lo, "p": []}}}, "line": line, "exp": False, "expk": "", "inl_ret": callee.path})
                nb["term"] = {"k": "goto", "t": target} if target >= 0 else {"k": "unreachable"}
            blocks.append(nb)
            level[bo + i] = level.get(bb, 0) + 1
            work.append(bo + i)
    res = base if j is None else Body(j, prog)
    cache[key] = res
    return res


def _inlinable(prog, callee, into_root, expanded):
    """sa.inline.inlinable, but a helper of a helper counts as single-caller too: its call sites may lie in functions already expanded into
    the root (inline.inlinable compares the callers with the root only, so `a -> helper1 -> helper2` stops at helper1)"""
    from .. import inline
    if callee.kind not in ("Fn", "AssocFn") or callee.impl_trait or len(callee.blocks) > inline.MAX_BLOCKS or not callee.file.startswith("src/") or callee.path == into_root:
        return False
    for bb, t in callee.calls():
        f = t["fn"]
        if (f.get("resolved") or f.get("path")) == callee.path:
            return False
    roots = set()
    for c in inline.callers_of(prog, callee.path):
        cb = prog.body(c)
        roots.add((cb.closure_root or cb.path) if cb is not None else c)
    return bool(roots) and roots <= ({into_root} | expanded)


def split_term(term):
    """canonical term `Head(a, b)suffix` (sa.flow.expr text) -> (head, [a, b], suffix); None when it is not an application"""
    i = term.find("(")
    if i <= 0 or not re.fullmatch(r"[\w:<>\[\]& ]+", term[:i]):
        return None
    depth, args, cur, quote = 0, [], "", False
    for j in range(i, len(term)):
        ch = term[j]
        if ch == '"':
            quote = not quote
        if quote:
            cur += ch
            continue
        if ch in "([{":
            depth += 1
            if depth == 1:
                continue
        elif ch in ")]}":
            depth -= 1
            if depth == 0:
                if cur.strip():
                    args.append(cur.strip())
                return term[:i], args, term[j + 1:]
        elif ch == "," and depth == 1:
            args.append(cur.strip())
            cur = ""
            continue
        cur += ch
    return None


# unary adaptors that yield every element of their receiver, front to back
IN_ORDER_ADAPTORS = {"into_iter", "iter", "copied", "cloned", "by_ref", "fuse", "peekable"}     # last path segment of the callee
# consumers that call their closure once per element pulled from the front, in order, until they stop (closure parameter index of the element)
INTERNAL_ITERATION = {"find_map": 2, "for_each": 2, "try_for_each": 2, "any": 2, "all": 2, "find": 2, "position": 2, "fold": 3, "try_fold": 3}
FILL_BUF_SLICE = r"^BufRead::fill_buf\(arg2\)@(Continue|Ok)\.0$"


def strip_in_order(term):
    """(base term, enumerated?) after removing adaptors that keep all elements in order; `enumerate` is remembered (element is then `.1`)"""
    enum = False
    while True:
        sp = split_term(term)
        if sp is None or sp[2]:
            return term, enum
        head, args, _ = sp
        if head.split("::")[-1] in IN_ORDER_ADAPTORS and len(args) == 1:
            term = args[0]
        elif head.split("::")[-1] == "enumerate" and len(args) == 1 and not enum:
            enum = True
            term = args[0]
        elif head.split("::")[-1] == "index" and len(args) == 2 and args[1] in ("RangeFull", "RangeFull()"):      # Index::index / <[T] as Index>::index
            term = args[0]
        else:
            return term, enum


def over_fill_buf(term):
    """is the iterator term an in-order traversal of the whole slice returned by input.fill_buf()?  -> (bool, enumerated)"""
    base, enum = strip_in_order(term)
    return re.match(FILL_BUF_SLICE, base) is not None, enum


def _cmp_body_edge(cond, var_rx, len_ok):
    """cond = canonical text of a loop guard comparing the index variable with the slice length: -> "1"/"0", the switch value on which the
    index is still below the length (the loop body), None when the condition is not such a comparison.  Accepted: i < n, n > i, i != n, n != i
    and the negations i >= n, n <= i, i == n, n == i (also under Not(..))."""
    neg = False
    while True:
        sp = split_term(cond)
        if sp and not sp[2] and sp[0] == "Not" and len(sp[1]) == 1:
            cond, neg = sp[1][0], not neg
            continue
        break
    sp = split_term(cond)
    if sp is None or sp[2] or len(sp[1]) != 2:
        return None
    op, (a, c) = sp[0], sp[1]
    is_i = lambda t: re.fullmatch(var_rx, t) is not None
    res = None
    if is_i(a) and len_ok(c):
        res = {"Lt": "1", "Ne": "1", "Ge": "0", "Eq": "0"}.get(op)
    elif is_i(c) and len_ok(a):
        res = {"Gt": "1", "Ne": "1", "Le": "0", "Eq": "0"}.get(op)
    if res is None:
        return None
    return res if not neg else ("1" if res == "0" else "0")


def _is_len_of_fill_buf(t):
    m_ = re.fullmatch(r"(?:slice::len|\[T\]::len|PtrMetadata)\((.*)\)", t)
    return m_ is not None and re.match(FILL_BUF_SLICE, strip_in_order(m_.group(1))[0]) is not None


def indexed_traversals(b, cfg, loops):
    """Explicit indexed traversals of fill_buf()'s slice S:  `i = 0; while i < S.len() { .. S[i] .. i += 1 .. }` (the length may be hoisted into
    a local, the comparison written either way round).  Decided on facts, not on the loop syntax: the index variable is written only by one
    `= 0` before the loop and one `+= 1` inside it (no nested loop, never borrowed mutably); every trip around the loop passes the increment;
    the loop is left through the guard only when i == len; every read S[i] takes i on the body edge of the guard before the increment of that
    trip.  Then trip k reads exactly S[k], k = 0, 1, ..: front to back, each byte at most once, all of them if the guard ends the loop.
    -> list of feeds (dicts like the ones for `next()` loops) with ok=False when a hypothesis fails."""
    groups = {}
    for bb, si, s in b.assigns():
        rv = s["rv"]
        pl = rv["a"].get("place") if rv["k"] == "use" and rv["a"].get("k") in ("copy", "move") else rv.get("place") if rv["k"] in ("ref", "rawptr") else None
        if not pl or not pl["p"] or pl["p"][-1]["k"] != "index" or any(e["k"] == "index" for e in pl["p"][:-1]):
            continue
        base = expr(b, {"k": "copy", "place": {"l": pl["l"], "p": pl["p"][:-1]}})
        if re.match(FILL_BUF_SLICE, strip_in_order(base)[0]) is None:
            continue
        # the index temporary -> the variable it was copied from and where that copy was taken
        l, pos, var = pl["p"][-1]["l"], None, None
        for _ in range(8):
            ds = b.defs_of(l)
            if len(ds) != 1 or ds[0][1] == "term" or ds[0][2]["k"] != "use" or ds[0][2]["a"].get("k") not in ("copy", "move") or ds[0][2]["a"]["place"]["p"]:
                break
            m = ds[0][2]["a"]["place"]["l"]
            if len(b.defs_of(m)) > 1:
                var, pos = m, (ds[0][0], ds[0][1])
                break
            l = m
        if var is None:
            # `for i in 0..S.len() { .. S[i] .. }`: the index is the element of an in-order traversal of the range 0..len(S)
            e = expr(b, {"k": "copy", "place": {"l": pl["p"][-1]["l"], "p": []}})
            m = re.fullmatch(r"((?:\w+::)*next\((.*)\))@Some\.0", e)
            rng = re.fullmatch(r"Range\{start: 0, end: (.*)\}", strip_in_order(m.group(2))[0]) if m else None
            if rng is not None and _is_len_of_fill_buf(rng.group(1)):
                var = ("range", m.group(2))
        groups.setdefault(var, {"base": base, "reads": [], "temps": set()})
        g = groups[var]
        g["reads"].append(pos)
        g["temps"].add(pl["p"][-1]["l"])
        if g["base"] != base:
            g["base"] = None
    feeds = []
    for var, g in groups.items():
        feed = {"form": "indexed", "ok": False, "enum": False, "iter": "%s[%s]" % (g["base"], "var:%s" % b.varnames.get(var, "_%s" % var) if isinstance(var, int) else "?"),
                "bb": None, "t": None, "temps": g["temps"], "base": g["base"], "var": var}
        feeds.append(feed)
        if var is None or g["base"] is None:
            continue
        if isinstance(var, tuple):
            nxt = [(bb, t) for bb, t in b.calls() if t["args"] and (callee_name(t) or "").split("::")[-1] == "next" and expr(b, t["args"][0]) == var[1]]
            if len(nxt) == 1:
                feed.update({"form": "loop", "ok": True, "bb": nxt[0][0], "t": nxt[0][1], "iter": var[1], "index_of": g["base"]})
            continue
        nm = b.varnames.get(var, "_%d" % var)
        inits, incs, ok = [], [], True
        for bb, si, s in b.assigns():
            rv = s["rv"]
            if rv["k"] in ("ref", "rawptr") and rv["place"]["l"] == var and rv.get("mut", rv["k"] == "rawptr"):
                ok = False
            if s["place"]["l"] == var:
                if s["place"]["p"]:
                    ok = False
                elif rv["k"] == "use" and op_const_int(rv["a"]) == 0:
                    inits.append((bb, si))
                elif rv["k"] == "use" and (is_increment_of(expr(b, rv["a"]), "var:%s" % nm) or is_increment_of(expr(b, rv["a"]), "_%d" % var)):
                    incs.append((bb, si))
                else:
                    ok = False
        if any(t["k"] == "call" and t["dest"]["l"] == var for bb, t in b.calls()):
            ok = False
        if not ok or len(inits) != 1 or len(incs) != 1:
            continue
        (ibb, isi), (cbb, csi) = inits[0], incs[0]
        head = innermost_loop(loops, cbb)
        if head is None or ibb in loops[head] or not cfg.dominates(ibb, head):
            continue
        region = loops[head]
        var_rx = r"var:%s|_%d" % (re.escape(nm), var)
        len_ok = _is_len_of_fill_buf
        guard = None
        for sb, t in b.terms():
            if t["k"] != "switch" or sb not in region:
                continue
            v = _cmp_body_edge(expr(b, t["d"]), var_rx, len_ok)
            if v is None:
                continue
            body_t, exit_t = bool_edges(t, negated=(v == "0"))
            if body_t is None or exit_t is None or body_t not in region or exit_t in region:
                continue
            if cfg.edge_dominates(sb, body_t, cbb) and all(cfg.edge_dominates(sb, body_t, rbb) for rbb, _ in g["reads"]):
                guard = (sb, body_t, exit_t) if guard is None else False
        if not guard:
            continue
        sb, body_t, exit_t = guard
        # the guard is evaluated before the increment of the same trip; every trip back to the loop head passes the increment
        if sb in cfg.reachable_from(cbb, removed=[head]) or not cfg.must_pass([cbb], start=body_t, exits=[head])[0]:
            continue
        # reads take the index before the increment of their trip
        after_inc = cfg.reachable_from(cbb, removed=[head])
        if not all((rbb == cbb and rsi < csi) or (rbb != cbb and rbb not in after_inc) for rbb, rsi in g["reads"]) or not all(rbb in region for rbb, _ in g["reads"]):
            continue
        feed.update({"ok": True, "bb": sb, "guard": guard, "head": head, "inc": cbb, "read_bbs": [rbb for rbb, _ in g["reads"]]})
    return feeds


def is_increment_of(e, x, index_rx=None):
    """`x + 1` (either operand order); with index_rx (the 0-based position of the current byte in an `enumerate()`d whole-slice traversal) also
    `index + 1`: after the k-th byte both make the counter equal to k + 1"""
    if e in ("Add(%s, 1)" % x, "Add(1, %s)" % x):
        return True
    return index_rx is not None and re.fullmatch(r"Add\((?:%s), 1\)|Add\(1, (?:%s)\)" % (index_rx, index_rx), e) is not None


def step_sites(body, step_rx, blocks=None):
    return [(bb, t) for bb, t in body.calls() if call_matches(t, step_rx) and (blocks is None or bb in blocks)]


def closure_literal(body, operand):
    """(closure def path, aggregate rvalue) when the operand is a closure created in this body"""
    l = op_local(operand)
    seen = set()
    while l is not None and l not in seen:
        seen.add(l)
        ds = body.defs_of(l)
        if len(ds) != 1 or ds[0][1] == "term":
            return None, None
        rv = ds[0][2]
        if rv["k"] == "agg" and rv.get("ak") == "closure":
            return rv["def"], rv
        if rv["k"] == "use":
            l = op_local(rv["a"])
        else:
            return None, None
    return None, None


def chase_copies(body, operand, depth=0):
    """the user variable (bare local) whose value the operand holds, following moves/copies and tuple packing (`(n, out)` returned by an
    expanded helper and taken apart by the caller); None when it is not one variable"""
    if depth > 12 or operand.get("k") not in ("copy", "move"):
        return None
    l, proj = operand["place"]["l"], [e for e in operand["place"]["p"] if e["k"] != "deref"]
    ds = [d for d in body.defs_of(l)]
    if not proj:
        if len(ds) == 1 and ds[0][1] != "term" and ds[0][2]["k"] == "use" and ds[0][2]["a"].get("k") in ("copy", "move"):
            return chase_copies(body, ds[0][2]["a"], depth + 1)
        return l
    if len(proj) == 1 and proj[0]["k"] == "field" and ds and all(si != "term" for _, si, _ in ds):
        outs = set()
        for _, si, rv in ds:
            if rv["k"] == "agg" and rv["ak"] == "tuple" and proj[0]["i"] < len(rv["fields"]):
                outs.add(chase_copies(body, rv["fields"][proj[0]["i"]], depth + 1))
            elif rv["k"] == "use" and rv["a"].get("k") in ("copy", "move"):
                a = rv["a"]
                outs.add(chase_copies(body, {"k": "copy", "place": {"l": a["place"]["l"], "p": a["place"]["p"] + proj}}, depth + 1))
            else:
                outs.add(None)
        return outs.pop() if len(outs) == 1 else None
    return None


def innermost_loop(loops, bb):
    head = None
    for h, body_ in loops.items():
        if bb in body_ and (head is None or len(body_) < len(loops[head])):
            head = h
    return head


def unwrapped(term):
    """payload of an Option term: `X@Some.0`, `Option::expect(X, msg)`, `Option::unwrap(X)` -> X"""
    while True:
        if term.endswith("@Some.0"):
            term = term[:-len("@Some.0")]
            continue
        sp = split_term(term)
        if sp and not sp[2] and sp[0] in ("Option::expect", "Option::unwrap", "Option::unwrap_unchecked") and sp[1]:
            term = sp[1][0]
            continue
        return term


def minimum_of_set(term):
    """S when the term denotes the smallest element of the ordered set S (None otherwise): S.iter().next(), S.first(), S.iter().min(),
    (&S).into_iter().next(), S.range(..).next()"""
    sp = split_term(term)
    if sp is None or sp[2]:
        return None
    head, args, _ = sp

    def ascending(t):
        while True:
            q = split_term(t)
            if q is None or q[2]:
                return t            # a place: `(&set).into_iter()` iterates the set itself in ascending order
            if q[0].split("::")[-1] in ("into_iter", "by_ref", "copied", "cloned", "peekable", "fuse") and len(q[1]) == 1:
                t = q[1][0]
            elif q[0] == "BTreeSet::iter" and len(q[1]) == 1:
                return q[1][0]
            elif q[0] == "BTreeSet::range" and len(q[1]) == 2 and q[1][1] in ("RangeFull", "RangeFull()"):
                return q[1][0]
            else:
                return None
    if head.split("::")[-1] in ("next", "min") and len(args) == 1:
        return ascending(args[0])
    if head == "BTreeSet::first" and len(args) == 1:
        return args[0]
    return None


def bool_edges(term, negated=False):
    """(true target, false target) of a switch on a bool (or on Not(bool) when negated)"""
    one = term["targets"][term["vals"].index("1")] if "1" in term["vals"] else (term["otherwise"] if term["vals"] == ["0"] else None)
    zero = term["targets"][term["vals"].index("0")] if "0" in term["vals"] else (term["otherwise"] if term["vals"] == ["1"] else None)
    return (zero, one) if negated else (one, zero)


def direct_emit_blocks(db, dcfg, desc, reps):
    """Blocks of decode_byte at which the event of the current accepting state is emitted *at once* instead of being recorded: the exact
    fast path of `candidate = (event, buffer.len()); return take_candidate()`.  Recording and taking a candidate that spans the whole buffer
    leaves the candidate None (the stale one dropped), re-schedules nothing, clears the buffer, puts the automaton back to start() and
    returns Some(event).  A block D qualifies when
      * D empties the candidate (`item_candidate = None` / `.take()`), only for a *terminal* state of the same state description (on the
        true edge of `<desc>.is_terminal`: a non-terminal accepting state could still be extended, emitting it would not be longest-match);
      * every path from D to the return clears the buffer and assigns `automata_state = <automata>.start()`;
      * nothing is re-scheduled and the candidate is not set again after D;
      * every return value written after D is Some(<the event that the recording site stores>), and one is written on every path."""
    ev_locals, ev_terms = set(), set()
    for bb, e, ln in reps:
        m = re.fullmatch(r"tuple\((.*), (?:SmallVec|Vec)::len\(arg1\.buffer\)\)", e)
        if m:
            ev_terms.add(m.group(1))
    for i, si, s in db.assigns():
        rv = s["rv"]
        if rv["k"] == "agg" and rv["ak"] == "tuple" and len(rv["fields"]) == 2 and re.fullmatch(r"(?:SmallVec|Vec)::len\(arg1\.buffer\)", expr(db, rv["fields"][1])):
            l = chase_copies(db, rv["fields"][0])
            if l is not None:
                ev_locals.add(l)
    if not ev_terms:
        return []

    def is_event(op):
        return expr(db, op) in ev_terms and (not ev_locals or chase_copies(db, op) in ev_locals)
    live = [bb for bb, blk in enumerate(db.blocks) if not blk["cleanup"]]
    clears = set()
    for i, si, s in db.assigns():
        rv = s["rv"]
        if i in live and s["place"]["p"] and resolve_place(db, s["place"]) == "(*_1).item_candidate":
            if (rv["k"] == "agg" and rv.get("variant") == "None") or (rv["k"] == "use" and expr(db, rv["a"]) in ("Option::None()", "Option::None")):
                clears.add(i)
    sets_candidate, resched, buf_clear, state_reset, ret_ok, ret_bad = set(), set(), set(), set(), set(), set()
    for bb, t in db.calls():
        if bb not in live or not t["args"]:
            continue
        nm = (callee_name(t) or "").split("::")[-1]
        p0 = arg_place(db, t, 0)
        if p0 == "(*_1).item_candidate":
            if nm == "take" and call_matches(t, r"Option::<T>::take$"):
                clears.add(bb)
            elif nm in ("replace", "insert", "get_or_insert", "get_or_insert_with"):
                sets_candidate.add(bb)
        elif p0 == "(*_1).rescheduled" and nm in ("push", "extend", "insert", "insert_many", "extend_from_slice", "append"):
            resched.add(bb)
        elif p0 == "(*_1).buffer" and (nm == "clear" or (nm == "truncate" and len(t["args"]) > 1 and op_const_int(t["args"][1]) == 0)):
            buf_clear.add(bb)
        elif call_matches(t, r"^std::mem::take$") and p0 == "(*_1).buffer":
            buf_clear.add(bb)
        elif call_matches(t, r"MatcherDecoder::<T>::take_candidate$"):
            resched.add(bb)           # would re-schedule / reset on its own: not this shape
    for i, si, s in db.assigns():
        if i not in live:
            continue
        rv, pl = s["rv"], s["place"]
        if pl["p"] and resolve_place(db, pl) == "(*_1).automata_state":
            e = expr(db, rv["a"]) if rv["k"] == "use" else ""
            (state_reset if re.fullmatch(r"DFA::start\(.*arg1\.automata.*\)", e) else ret_bad).add(i)
        elif pl["p"] and resolve_place(db, pl) == "(*_1).item_candidate" and i not in clears:
            sets_candidate.add(i)
        elif pl["l"] == 0 and not pl["p"] and not s.get("inl_ret"):
            good = rv["k"] == "agg" and rv.get("variant") == "Some" and len(rv["fields"]) == 1 and is_event(rv["fields"][0])
            (ret_ok if good else ret_bad).add(i)
    terminal_edges = []
    for bb in live:
        t = db.blocks[bb]["term"]
        if t["k"] == "switch":
            m = re.fullmatch(r"(Not\()?(.*)\.is_terminal\)?", expr(db, t["d"]))
            if m and m.group(2) == desc:
                yes, no = bool_edges(t, bool(m.group(1)))
                if yes is not None:
                    terminal_edges.append((bb, yes))
    out = []
    for d in sorted(clears):
        if not any(dcfg.edge_dominates(a, b, d) for a, b in terminal_edges):
            continue
        after = dcfg.reachable_from(d) - {d}
        if after & (sets_candidate | resched | ret_bad | clears):
            continue
        if all(dcfg.must_pass(need, start=d, exits=dcfg.returns)[0] and need for need in (buf_clear, state_reset, ret_ok)):
            out.append(d)
    return out


def run(ctx):
    prog, src = ctx.prog, ctx.src
    ctx.explanation = (
        "Read-boundary independence is decided through the hypotheses of a fold theorem (DESIGN §11): each decoder obtains bytes only from one "
        "fill_buf() call, hands every byte of that buffer to one deterministic step exactly once and in order, counts them (one increment per "
        "iteration, before the step) and calls consume(count) on every exit, drains re-scheduled bytes before reading, keeps all surviving state in "
        "`self`, and the step reaches no clock/env/random/IO input (effect scan of its call-graph reach). Structural clauses of the longest-match "
        "rule: re-scheduled bytes are consumed LIFO with pop() and every bulk re-schedule goes through drain(size..).rev(); the current byte is "
        "re-scheduled only together with removing it from the buffer; MatcherTag orders Item before Matcher and the decoder takes the minimum tag; "
        "the set of overlapping grammars equals the documented one (modified F3 vs cursor report), resolved towards the key table. NOT decided: that "
        "the kept candidate is the longest one, and the push-back arithmetic (value-level).")

    # ---------------- FOLD --------------------------------------------------------------------------------
    # The byte traversal may be written as an explicit loop (`for b in buf.iter()` / `while let Some(b) = it.next()`) or as internal iteration
    # (`buf.iter().find_map(|b| ..)`, try_for_each, any, ..): in both forms there is a *region* executed once per byte, in order - the loop body
    # entered on the Some edge of next(), or the closure body - and the hypotheses are the same facts about that region.  Private helpers
    # extracted from decode() are expanded first (MIR inlining), so it does not matter in which function the statements live.
    ctx.rule("FOLD", "fold-theorem hypotheses of the byte decoders (fill_buf once, one step per byte in order, counter, consume on every exit, pending first)", floor=10)
    for path, step_rx, pending in DECODERS:
        b = inlined_keep(prog, path, step_rx)
        if b is None:
            ctx.anchor("FOLD", path)
            continue
        cfg = b.cfg()
        loops = cfg.loops()
        fb = [(bb, t) for bb, t in b.calls() if call_matches(t, r"^std::io::BufRead::fill_buf$")]
        ok = len(fb) == 1 and expr(b, fb[0][1]["args"][0]) == "arg2"
        ctx.instance("FOLD", {"fn": path, "hyp": "single fill_buf(input)", "ok": ok})
        if not ok:
            ctx.violation("FOLD", path, "fill_buf", "bytes must come from exactly one fill_buf() on the input argument (found %d)" % len(fb), sites=[b.loc])
            continue
        fbb, ft = fb[0]
        # ---- the traversal of that buffer: region executed once per byte
        feeds = []
        for bb, t in b.calls():
            if not t["args"]:
                continue
            nm = (callee_name(t) or "").split("::")[-1]
            e0 = expr(b, t["args"][0])
            if "BufRead::fill_buf(arg2)" not in e0:
                continue
            if nm == "next" and call_matches(t, r"Iterator>?::next$"):
                okf, enum = over_fill_buf(e0)
                feeds.append({"form": "loop", "bb": bb, "t": t, "iter": e0, "ok": okf, "enum": enum})
            elif nm in INTERNAL_ITERATION and call_matches(t, r"Iterator>?::%s$" % nm):
                okf, enum = over_fill_buf(e0)
                cdef, cagg = closure_literal(b, t["args"][-1])
                feeds.append({"form": "internal", "bb": bb, "t": t, "iter": e0, "ok": okf and cdef is not None, "enum": enum, "closure": cdef, "agg": cagg,
                              "elem": INTERNAL_ITERATION[nm]})
        ixf = indexed_traversals(b, cfg, loops)
        # a next() over the positions 0..len(S) is not a traversal of S by itself: it counts as one through the reads S[position]
        claimed = {f["bb"] for f in ixf if f.get("index_of") and f["ok"]}
        feeds = [f for f in feeds if not (f["form"] == "loop" and f["bb"] in claimed)] + ixf
        okn = len(feeds) == 1 and feeds[0]["ok"]
        ctx.instance("FOLD", {"fn": path, "hyp": "fill_buf()'s slice is traversed front to back, once", "ok": okn, "form": feeds[0]["form"] if feeds else None,
                              "iter": feeds[0]["iter"][:120] if feeds else None})
        if not okn:
            ctx.violation("FOLD", path, "iteration", "the bytes returned by fill_buf() are not traversed exactly once, in order (explicit loop over .iter() or an in-order "
                          "iterator consumer such as find_map/try_for_each); found %s" % [f["iter"][:100] for f in feeds], sites=[b.loc])
            continue
        feed = feeds[0]
        if feed["form"] == "loop":
            nbb, nt = feed["bb"], feed["t"]
            se = some_edge(b, nbb, nt)
            head = innermost_loop(loops, nbb)
            if se is None or head is None:
                ctx.anchor("FOLD", path + "/loop")
                continue
            sw, some_t, none_t = se
            rb, rcfg, entry, exits, region = b, cfg, some_t, [head] + cfg.returns, loops[head]
            elem = r"(?:\w+::)*next\(%s\)@Some\.0%s" % (re.escape(feed["iter"]), r"\.1" if feed["enum"] else "")
            index_rx = r"(?:\w+::)*next\(%s\)@Some\.0\.0" % re.escape(feed["iter"]) if feed["enum"] else None
            if feed.get("index_of"):
                # the traversal yields positions 0, 1, .. of the slice: the byte is S[position]
                index_rx = r"(?:\w+::)*next\(%s\)@Some\.0" % re.escape(feed["iter"])
                elem = r"%s\[_(?:%s)\]" % (re.escape(feed["index_of"]), "|".join(str(x) for x in sorted(feed["temps"])))
            feed_bbs = None       # filled below with the step blocks
        elif feed["form"] == "indexed":
            # `while i < len { byte = S[i]; i += 1; .. }`: the per-byte region is the loop body entered on the guard's "i < len" edge
            nbb = feed["bb"]
            sw, some_t, none_t = feed["guard"]
            head = feed["head"]
            rb, rcfg, entry, exits, region = b, cfg, some_t, [head] + cfg.returns, loops[head]
            elem = r"%s\[_(?:%s)\]" % (re.escape(feed["base"]), "|".join(str(x) for x in sorted(feed["temps"])))
            index_rx = None
            feed_bbs = None
        else:
            rb = inlined_keep(prog, feed["closure"], step_rx)
            if rb is None or rb.arg_count < feed["elem"]:
                ctx.anchor("FOLD", path + "/closure")
                continue
            rcfg = rb.cfg()
            entry, exits, region = 0, rcfg.returns, set(range(len(rb.blocks)))
            elem = r"arg%d%s" % (feed["elem"], r"\.1" if feed["enum"] else "")
            index_rx = r"arg%d\.0" % feed["elem"] if feed["enum"] else None
            sw = some_t = None
            feed_bbs = [feed["bb"]]
        # ---- step calls
        steps = step_sites(rb, step_rx, region)
        byte_ok = bool(steps) and all(any(re.fullmatch(elem, expr(rb, a)) for a in t["args"]) for bb, t in steps)
        one_step = len(steps) == 1 and rcfg.must_pass([steps[0][0]], start=entry, exits=exits)[0]
        if one_step:
            # not inside a loop nested in the region: one step per byte, not several
            h2 = innermost_loop(rcfg.loops(), steps[0][0])
            one_step = (h2 == head) if feed["form"] in ("loop", "indexed") else (h2 is None)
            if feed["form"] == "indexed":
                # the byte handed over is the one read in this trip
                byte_ok = byte_ok and all(cfg.dominates(rbb, steps[0][0]) for rbb in feed["read_bbs"])
        ctx.instance("FOLD", {"fn": path, "hyp": "exactly one step per byte, fed with the traversal's byte", "ok": byte_ok and one_step, "steps": len(steps)})
        # no further step call hides in another closure of the function (e.g. `.or_else(|| self.step(b))`)
        root = prog.body(path)
        others = [c for c in prog.bodies if c.kind == "Closure" and c.closure_root == (root.closure_root or root.path) and (feed["form"] != "internal" or c.path != feed["closure"])]
        stray = sum(len(step_sites(c, step_rx)) for c in others)
        if stray:
            one_step = False
        if not (byte_ok and one_step):
            ctx.violation("FOLD", path, "step", "each byte of the buffer must be handed to the step function exactly once (found %d step calls in the per-byte region, byte argument ok=%s)" % (len(steps), byte_ok), sites=[b.loc])
        if feed_bbs is None:
            feed_bbs = [bb for bb, t in steps]
        # ---- counter
        cons = [(bb, t) for bb, t in b.calls() if call_matches(t, r"^std::io::BufRead::consume$")]
        # A consume site may state the number of bytes handed over so far *directly* instead of reading a counter variable:
        #   * `index + 1` of the enumerate()d whole-slice traversal, at a site that belongs to the iteration of byte #index (dominated by the
        #     Some edge of that next()): the earlier iterations each passed the step once (hypothesis above), this one passed it before the
        #     consume (every path to an exit passes the step; no step is reachable after a consume - checked below) => index + 1 bytes;
        #   * the length of fill_buf()'s slice, at a site reached only through the None edge of the traversal (or after an internal iteration
        #     that cannot stop early): every byte was handed over => len bytes.
        # Such sites need no counter; the remaining sites must all read one counter variable, for which the hypotheses below are decided.
        def states_count_directly(cbb, ct):
            if len(ct["args"]) < 2:
                return False
            ce = expr(b, ct["args"][1])
            m_len = re.fullmatch(r"(?:slice|Vec|\[T\])::len\((.*)\)", ce)
            whole = m_len is not None and re.match(FILL_BUF_SLICE, strip_in_order(m_len.group(1))[0]) is not None
            if feed["form"] in ("loop", "indexed"):
                if index_rx is not None and is_increment_of(ce, "\0", index_rx):
                    return cfg.edge_dominates(sw, some_t, cbb)
                return whole and cfg.edge_dominates(sw, none_t, cbb)
            nm_ = (callee_name(feed["t"]) or "").split("::")[-1]
            return whole and nm_ in ("for_each", "fold") and cbb != feed["bb"] and cfg.dominates(feed["bb"], cbb)
        direct = [(bb, t) for bb, t in cons if states_count_directly(bb, t)]
        var_cons = [(bb, t) for bb, t in cons if (bb, t) not in direct]
        cl = None
        for bb, t in var_cons:
            src_l = chase_copies(b, t["args"][1]) if len(t["args"]) > 1 else None
            cl = src_l if cl is None or cl == src_l else -1
        okc = bool(var_cons) and cl not in (None, -1)
        counter_free = bool(cons) and not var_cons
        incs = []
        inits = []
        if okc:
            nm = b.varnames.get(cl, "_%d" % cl)
            for i, si, s in b.assigns():
                rv = s["rv"]
                if rv["k"] == "ref" and rv["place"]["l"] == cl and rv.get("mut"):
                    # a mutable borrow of the counter: only the capture by the per-byte closure is understood
                    cap = feed["form"] == "internal" and any(op_local(f) == s["place"]["l"] for f in feed["agg"]["fields"]) and not s["place"]["p"]
                    if not cap:
                        okc = False
                if s["place"]["l"] == cl and not s["place"]["p"]:
                    if rv["k"] == "use" and op_const_int(rv["a"]) == 0:
                        inits.append(i)
                    else:
                        e = expr(b, rv["a"]) if rv["k"] == "use" else rv["k"]
                        if feed["form"] in ("loop", "indexed") and (is_increment_of(e, "var:%s" % nm, index_rx) or is_increment_of(e, "_%d" % cl)):
                            incs.append(i)
                        else:
                            okc = False
            if feed["form"] == "internal":
                # the closure captures `&mut counter`; inside, the only write through that capture is `+= 1`
                caps = [k for k, f in enumerate(feed["agg"]["fields"]) if op_local(f) is not None and any(
                    rv["k"] == "ref" and rv.get("mut") and rv["place"]["l"] == cl and not rv["place"]["p"] for _, si_, rv in b.defs_of(op_local(f)) if si_ != "term")]
                okc = okc and len(caps) == 1
                if okc:
                    cx = "arg1.%d" % caps[0]
                    for i, si, s in rb.assigns():
                        if place_expr(rb, s["place"]) == cx and s["place"]["p"]:
                            rv = s["rv"]
                            e = expr(rb, rv["a"]) if rv["k"] == "use" else rv["k"]
                            if is_increment_of(e, cx, index_rx):
                                incs.append(i)
                            else:
                                okc = False
                    # the reference itself is not handed to anything else
                    for bb, t in rb.calls():
                        if any(expr(rb, a) == cx and ty.startswith("&mut") for a, ty in zip(t["args"], t.get("arg_tys") or [])):
                            okc = False
            okc = okc and len(incs) == 1 and len(inits) == 1 and cfg.dominates(inits[0], feed["bb"])
            if okc and steps:
                # the increment happens once per byte (on the Some edge / in the closure, not in a nested loop) and precedes the step on every path
                okc = rcfg.must_pass(incs, start=entry, exits=[steps[0][0]])[0]
                if feed["form"] in ("loop", "indexed"):
                    okc = okc and cfg.edge_dominates(sw, some_t, incs[0]) and innermost_loop(loops, incs[0]) == head
                else:
                    okc = okc and innermost_loop(rcfg.loops(), incs[0]) is None
        if counter_free:
            okc = True
        ctx.instance("FOLD", {"fn": path, "hyp": "counter = 0 before the traversal, += 1 once per byte before the step", "ok": okc,
                              "sites_stating_the_count_directly": len(direct), "sites_reading_the_counter": len(var_cons)})
        if not okc:
            ctx.violation("FOLD", path, "counter", "the consumed-byte counter is not incremented exactly once per byte handed to the step", sites=[b.loc])
        # ---- consume on every exit after a successful fill_buf
        fb_ok_edge = None
        nb_ = ft["t"]
        tb = b.blocks[nb_]["term"] if nb_ >= 0 else {"k": "none"}
        if tb["k"] == "call" and call_matches(tb, r"Try>?::branch$"):          # `?`
            nb_ = tb["t"]
            tb = b.blocks[nb_]["term"] if nb_ >= 0 else {"k": "none"}
        if tb["k"] == "switch" and "0" in tb["vals"] and re.fullmatch(r"discr\(BufRead::fill_buf\(arg2\)\)", expr(b, tb["d"])):
            fb_ok_edge = tb["targets"][tb["vals"].index("0")]        # Continue / Ok
        okx = False
        if fb_ok_edge is not None and cons:
            okx, wit = cfg.must_pass([bb for bb, t in cons], start=fb_ok_edge)
            okx = okx and all(expr(b, t["args"][0]) == "arg2" for bb, t in cons)
        ctx.instance("FOLD", {"fn": path, "hyp": "consume(count) on every exit after fill_buf succeeded", "ok": okx, "consume_sites": len(cons)})
        if not okx:
            ctx.violation("FOLD", path, "consume", "an exit path after fill_buf() does not call input.consume(count): bytes would be decoded twice or lost across reads", sites=[b.loc])
        # no consume before the traversal finished handing over bytes: consume must not be followed by another step
        for bb, t in cons:
            after = cfg.reachable_from(bb)
            if any(sb in after and sb != bb for sb in feed_bbs):
                ctx.violation("FOLD", path, "consume-then-step", "a step call is reachable after consume(): the count no longer matches the bytes handed over", sites=["%s:%d" % (b.file, t["line"])])
        if pending:
            pops = [(bb, t) for bb, t in b.calls() if call_matches(t, r"smallvec::SmallVec::<A>::pop$") and expr(b, t["args"][0]) == "arg1.rescheduled"]
            okp = False
            if len(pops) == 1:
                # input is read only once the queue is known to be empty: on the None edge of pop(), or on the true edge of is_empty()
                pe = some_edge(b, pops[0][0], pops[0][1])
                if pe:
                    psw, psome, pnone = pe
                    okp = cfg.edge_dominates(psw, pnone, fbb)
                if not okp:
                    for sb, st_ in b.terms():
                        if st_["k"] == "switch" and st_["vals"] == ["0"] and expr(b, st_["d"]) in ("SmallVec::is_empty(arg1.rescheduled)", "Eq(SmallVec::len(arg1.rescheduled), 0)"):
                            okp = okp or cfg.edge_dominates(sb, st_["otherwise"], fbb)
                # and the popped byte goes to the same step
                popped = r"(SmallVec::pop\(arg1\.rescheduled\)@Some\.0|Option::(unwrap|expect|unwrap_unchecked)\(SmallVec::pop\(arg1\.rescheduled\)(, .*)?\))"
                pst = [(bb, t) for bb, t in step_sites(b, step_rx) if len(t["args"]) > 1 and re.fullmatch(popped, expr(b, t["args"][1]))]
                okp = okp and len(pst) == 1
            ctx.instance("FOLD", {"fn": path, "hyp": "re-scheduled bytes are drained (through the same step) before reading input", "ok": okp})
            if not okp:
                ctx.violation("FOLD", path, "pending-first", "input is read before the re-scheduled bytes are exhausted (or they bypass the step function)", sites=[b.loc])

    # effect scan of the step functions
    ctx.rule("STEP-PURE", "the step functions reach no clock/env/random/IO input and no mutable static", floor=2)
    cg = prog.callgraph()
    for entry in ("decoder::MatcherDecoder::<T>::decode_byte", "<decoder::Utf8Decoder as decoder::Decoder>::decode"):
        if prog.body(entry) is None:
            ctx.anchor("STEP-PURE", entry)
            continue
        dyn, init = cg.reach_split([entry])
        bad = []
        statics = set()
        for p in dyn:
            for callee in cg.ext.get(p, ()):
                if re.search(FORBIDDEN_INPUTS, callee):
                    bad.append((p, callee))
            statics |= cg.static_edges.get(p, set())
        extra_st = sorted(s for s in statics if s not in ALLOWED_STATICS)
        ctx.instance("STEP-PURE", {"entry": entry, "bodies": len(dyn), "forbidden_calls": bad[:5], "statics": sorted(statics)})
        for p, callee in bad:
            ctx.violation("STEP-PURE", p, callee.split("::")[-1], "the decoder step reaches %s: its output would depend on more than the byte stream" % callee, sites=[])
        for s in extra_st:
            ctx.violation("STEP-PURE", entry, "static-" + s.split("::")[-1], "the decoder step reads static %s (only the compiled automata are allowed)" % s, sites=[])

    # ---------------- LIFO ------------------------------------------------------------------------------------
    ctx.rule("LIFO", "rescheduled: consumed by pop(); filled by extend(buffer.drain(size..).rev()) or push(byte)+buffer.pop()", floor=3)
    # bodies of the decoder with their extracted helpers expanded; a helper that was expanded into its caller is not looked at on its own
    scope_bodies = [b for b in prog.bodies if b.path.startswith("decoder::MatcherDecoder") or b.path.startswith("<decoder::MatcherDecoder")]
    views, absorbed = {}, set()
    for b in scope_bodies:
        ib = inlined_keep(prog, b.path, STEP_FNS) or b
        views[b.path] = ib
        for blk in ib.blocks:
            if blk["term"].get("inl_call"):
                absorbed.add(blk["term"]["inl_call"])
    for pth in list(absorbed):
        hb = prog.body(pth)
        if hb is not None and pth not in views:
            views[pth] = hb
    live = [views[b.path] for b in scope_bodies if b.path not in absorbed]

    def upvars(cb, depth=0):
        """captured places of a closure, as terms over the arguments of the function that (transitively) creates it"""
        up = {}
        for v in live + [views[p_] for p_ in views if p_ in absorbed]:
            for i, si, s in v.assigns():
                rv = s["rv"]
                if rv["k"] == "agg" and rv["ak"] == "closure" and rv["def"] == cb.path:
                    pu = upvars(v, depth + 1) if v.kind == "Closure" and depth < 4 else {}
                    for k, f in enumerate(rv["fields"]):
                        e = expr(v, f)
                        for a_, b_ in pu.items():
                            e = re.sub(r"\b%s\b" % re.escape(a_), b_.replace("\\", "\\\\"), e)
                        up["arg1.%d" % k] = e
                    return up
        return up

    def subst(e, up):
        for k, v in sorted(up.items(), key=lambda kv: -len(kv[0])):
            e = re.sub(r"\b%s\b(?!\d)" % re.escape(k), v.replace("\\", "\\\\"), e)
        return e
    users = {}
    for b in live:
        up = upvars(b) if b.kind == "Closure" else {}
        for bb, t in b.calls():
            if not t["args"]:
                continue
            e0 = subst(expr(b, t["args"][0]), up)
            if e0 == "arg1.rescheduled":
                users.setdefault(callee_name(t).split("::")[-1], []).append((b, bb, t, up))
    ctx.instance("LIFO", {"operations_on_rescheduled": {k: len(v) for k, v in users.items()}})
    # besides the three LIFO operations: construction, capacity management and read-only access do not change the queued bytes or their order
    allowed_ops = {"pop", "push", "extend", "default", "new", "with_capacity", "len", "is_empty", "reserve", "reserve_exact", "try_reserve", "shrink_to_fit", "capacity",
                   "iter", "as_slice", "last", "first", "get", "contains", "deref", "as_ref", "clone", "fmt", "spilled"}
    for op, sites in users.items():
        if op not in allowed_ops:
            for b, bb, t, up in sites:
                ctx.violation("LIFO", b.path, op, "rescheduled is manipulated with %s (only pop / push / extend(..rev()) keep it a LIFO of bytes to re-read)" % op, sites=["%s:%d" % (b.file, t["line"])])
    if "pop" not in users:
        ctx.anchor("LIFO", "rescheduled.pop")

    def strip_elementwise(term):
        """remove adaptors that keep every element and its position (copied / cloned / into_iter / by_ref)"""
        while True:
            sp = split_term(term)
            if sp is None or sp[2] or len(sp[1]) != 1 or sp[0].split("::")[-1] not in ("copied", "cloned", "into_iter", "by_ref"):
                return term
            term = sp[1][0]

    def reversed_tail(term):
        """`term` yields the bytes buffer[size..] last to first: (kind, start) with kind 'drain' (bytes leave the buffer) or 'view' (they stay); else None"""
        sp = split_term(strip_elementwise(term))
        if sp is None or sp[2] or sp[0] != "Iterator::rev" or len(sp[1]) != 1:
            return None
        inner = strip_elementwise(sp[1][0])
        m = re.fullmatch(r"(?:SmallVec|Vec)::drain\(arg1\.buffer, RangeFrom\{start: (.*)\}\)", inner)
        if m:
            return "drain", m.group(1)
        m = re.fullmatch(r"slice::iter\(Index::index\(arg1\.buffer, RangeFrom\{start: (.*)\}\)\)", inner)
        if m:
            return "view", m.group(1)
        return None

    def buffer_calls(b, up, names):
        return [pb for pb, pt in b.calls() if pt["args"] and re.search(r"(SmallVec|Vec)::<[^>]*>::(%s)$" % names, callee_name(pt) or "") and subst(expr(b, pt["args"][0]), up) == "arg1.buffer"]
    for b, bb, t, up in users.get("extend", []):
        e1 = subst(expr(b, t["args"][1]), up)
        rt = reversed_tail(e1)
        ok = rt is not None
        if ok and rt[0] == "view":
            # the bytes were only read: they must leave the buffer afterwards
            cl_ = buffer_calls(b, up, "clear|truncate")
            ok = bool(cl_) and b.cfg().must_pass(cl_, start=bb)[0]
        ctx.instance("LIFO", {"fn": b.path, "extend_source": e1[:140], "reversed_drain_of_buffer_tail": ok})
        if not ok:
            ctx.violation("LIFO", b.path, "extend-not-reversed", "bytes after the candidate are re-scheduled without `.rev()` over buffer.drain(size..): pop() would replay them in the wrong order", sites=["%s:%d" % (b.file, t["line"])])
    moved_one = r"(?:SmallVec|Vec)::pop\(arg1\.buffer\)@Some\.0|Option::(?:unwrap|expect|unwrap_unchecked)\((?:SmallVec|Vec)::pop\(arg1\.buffer\)(?:, .*)?\)"
    n_bulk = len(users.get("extend", []))
    for b, bb, t, up in users.get("push", []):
        cfg = b.cfg()
        e1 = subst(expr(b, t["args"][1]), up) if len(t["args"]) > 1 else ""
        m = re.fullmatch(r"(?:Iter|Iterator|DoubleEndedIterator)::next\((.*)\)@Some\.0", e1)
        if re.fullmatch(moved_one, e1):
            # the last byte of the buffer is moved over: repeated, this re-schedules the tail last to first
            ok = True
            n_bulk += 1
        elif m and (reversed_tail(m.group(1)) or (None,))[0] == "drain":
            ok = True
            n_bulk += 1
        else:
            pops = buffer_calls(b, up, "pop")
            ok = bool(pops) and cfg.must_pass(pops, start=bb)[0]
        ctx.instance("LIFO", {"fn": b.path, "push_current_byte_then_buffer_pop": ok, "pushed": e1[:100]})
        if not ok:
            ctx.violation("LIFO", b.path, "push-without-pop", "the current byte is re-scheduled but stays in the buffer (it would be reported twice)", sites=["%s:%d" % (b.file, t["line"])])
    if n_bulk == 0:
        ctx.anchor("LIFO", "rescheduled.extend")

    # ---------------- TAG ORDER ---------------------------------------------------------------------------------
    ctx.rule("TAGORDER", "MatcherTag: Item < Matcher by derive(Ord); decode_byte takes tags.iter().next(); overlap set equals the documented one", floor=3)
    ev = prog.enum_variants("decoder::MatcherTag")
    names = [n for n, d in ev] if ev else None
    has_ord = any(i["self"].startswith("decoder::MatcherTag") and i["trait"] == "std::cmp::Ord" for i in prog.impls)
    ord_body = prog.one(r"^<decoder::MatcherTag<T> as std::cmp::Ord>::cmp$")
    derived = ord_body is not None and all((t.get("expk") or "").startswith("derive:Ord") for bb, t in ord_body.calls())
    ok = names == ["Item", "Matcher"] and has_ord and derived
    ctx.instance("TAGORDER", {"variants": names, "derive_ord": has_ord and derived, "ok": ok})
    if not ok:
        ctx.violation("TAGORDER", "decoder::MatcherTag", "order", "MatcherTag must derive Ord with Item declared before Matcher (table keys win over parsed matchers, lower matcher index wins)", sites=[])
    DB = "decoder::MatcherDecoder::<T>::decode_byte"
    db = inlined_keep(prog, DB, r"::take_candidate$")
    if db is None:
        ctx.anchor("TAGORDER", "decode_byte")
    else:
        # the tag that selects how the event is built: whatever is matched on as a MatcherTag (found by type, wherever the match was moved to)
        sel = set()
        for i, si, s in db.assigns():
            rv = s["rv"]
            if rv["k"] == "discr" and re.search(r"\bdecoder::MatcherTag<", db.local_ty(rv["place"]["l"])):
                sel.add(place_expr(db, rv["place"]))
        if not sel:
            sel = {expr(db, t["args"][0]) for bb, t in db.calls() if call_matches(t, r"Option::<T>::(expect|unwrap)$") and ".tags" in expr(db, t["args"][0])}
        mins = [minimum_of_set(unwrapped(e)) for e in sorted(sel)]
        ok = bool(mins) and all(m_ is not None and re.search(r"\.tags$", m_) for m_ in mins)
        ctx.instance("TAGORDER", {"selected_tag": sorted(sel)[:2], "is_minimum_of_btreeset": ok})
        if not ok:
            ctx.violation("TAGORDER", DB, "min-tag", "the tag used to build the event is not the first (minimum) element of the state's tag set: %s" % sorted(sel)[:2], sites=[db.loc])
    # ---------------- LONGEST MATCH -----------------------------------------------------------------------------
    ctx.rule("LONGEST", "decode_byte: every accepting state overwrites the candidate with (event, buffer.len()) — decodable or not — before returning; "
                        "a dead transition takes the candidate; take_candidate pushes back buffer[size..]", floor=3)
    if db is not None:
        dcfg = db.cfg()
        acc, m_desc = [], {}
        for bb, blk in enumerate(db.blocks):
            if blk["term"]["k"] != "switch" or blk["cleanup"]:
                continue
            m = re.fullmatch(r"(Not\()?(.*)\.is_accepting\)?", expr(db, blk["term"]["d"]))
            if m:
                acc.append((bb, blk["term"], bool(m.group(1))))
                m_desc[bb] = m.group(2)
        # the candidate is stored with Option::replace / insert, or assigned `Some((event, len))`
        reps = [(bb, expr(db, t["args"][1]), t["line"]) for bb, t in db.calls() if call_matches(t, r"Option::<T>::(replace|insert)$") and arg_place(db, t, 0) == "(*_1).item_candidate"]
        for i, si, s in db.assigns():
            rv = s["rv"]
            if resolve_place(db, s["place"]) == "(*_1).item_candidate" and s["place"]["p"]:
                e = expr(db, rv["fields"][0]) if rv["k"] == "agg" and rv.get("variant") == "Some" and rv["fields"] else expr(db, rv["a"]) if rv["k"] == "use" else ""
                m = re.fullmatch(r"Option::Some\((.*)\)", e)
                if m:
                    e = m.group(1)
                if e and e not in ("Option::None()", "Option::None"):
                    reps.append((i, e, s["line"]))
        if len(acc) != 1 or not reps:
            ctx.violation("LONGEST", DB, "candidate-not-recorded", "decode_byte does not record an accepting state as the new candidate", sites=[db.loc])
        else:
            abb, at, neg = acc[0]
            one = at["targets"][at["vals"].index("1")] if "1" in at["vals"] else (at["otherwise"] if at["vals"] == ["0"] else None)
            zero = at["targets"][at["vals"].index("0")] if "0" in at["vals"] else (at["otherwise"] if at["vals"] == ["1"] else None)
            yes = zero if neg else one
            # besides recording it, an accepting state may emit its event at once (exactly what record + take_candidate does when the candidate
            # spans the whole buffer): see direct_emit_blocks
            emits = direct_emit_blocks(db, dcfg, m_desc[abb], reps)
            ok, wit = dcfg.must_pass([bb for bb, e, ln in reps] + emits, start=yes, exits=dcfg.returns) if yes is not None else (False, None)
            ctx.instance("LONGEST", {"accepting_test_block": abb, "replace_blocks": [bb for bb, e, ln in reps], "direct_emit_blocks": emits, "unconditional_on_accept": ok})
            if not ok:
                ctx.violation("LONGEST", DB, "conditional-candidate", "an accepting state can be passed without replacing the candidate (path %s): a shorter, stale "
                              "candidate would be emitted instead of the longest match" % wit, sites=["%s:%d" % (db.file, reps[0][2])])
            for bb, e, ln in reps:
                okv = bool(re.search(r", (SmallVec|Vec)::len\(arg1\.buffer\)\)$", e))
                ctx.instance("LONGEST", {"candidate_value": e[:160], "length_is_buffer_len": okv})
                if not okv:
                    ctx.violation("LONGEST", DB, "candidate-length", "the candidate does not record the current buffer length: %s" % e[:160], sites=["%s:%d" % (db.file, ln)])
        # dead transition: take_candidate is consulted before giving up
        dead = [(bb, t) for bb, t in db.calls() if call_matches(t, r"MatcherDecoder::<T>::take_candidate$")]
        tr = [(bb, blk["term"]) for bb, blk in enumerate(db.blocks) if blk["term"]["k"] == "switch" and re.match(r"^discr\(DFA::transition\(", expr(db, blk["term"]["d"]))]
        okd = False
        if len(tr) == 1:
            tb, tt = tr[0]
            none_t = tt["targets"][tt["vals"].index("0")] if "0" in tt["vals"] else (tt["otherwise"] if tt["vals"] == ["1"] else None)
            okd = none_t is not None and any(dcfg.must_pass([bb], start=none_t, exits=dcfg.returns)[0] for bb, t in dead)
        ctx.instance("LONGEST", {"dead_transition_takes_candidate": okd})
        if not okd:
            ctx.violation("LONGEST", DB, "dead-transition", "when no transition exists the pending candidate is not taken on every path", sites=[db.loc])
    try:
        gs = grammar.extract(src)
        evn = grammar.event_matcher_names(src)
        overlaps = []
        for a, c in itertools.combinations(evn, 2):
            w = regex.intersect_witness(gs[a].asbuilt_dfa, gs[c].asbuilt_dfa)
            if w is not None:
                overlaps.append((a, c, w))
        documented = {("BasicEventsMatcher", "CursorPositionMatcher")}
        got = {(a, c) for a, c, w in overlaps}
        ctx.instance("TAGORDER", {"overlapping_grammar_pairs": [(a, c, repr(w)) for a, c, w in overlaps], "documented": sorted(documented)})
        for a, c, w in overlaps:
            if (a, c) not in documented:
                ctx.violation("TAGORDER", "%s+%s" % (a, c), "undocumented-overlap", "grammars %s and %s both accept %r: the event produced depends only on registration order" % (a, c, w), sites=[])
            elif a != "BasicEventsMatcher":
                ctx.violation("TAGORDER", "%s+%s" % (a, c), "resolution", "documented overlap is not resolved towards the key table", sites=[])
        ccn = grammar.command_matcher_names(src)
        for a, c in itertools.combinations(ccn, 2):
            w = regex.intersect_witness(gs[a].asbuilt_dfa, gs[c].asbuilt_dfa)
            if w is not None:
                ctx.violation("TAGORDER", "%s+%s" % (a, c), "undocumented-overlap", "command grammars %s and %s both accept %r" % (a, c, w), sites=[])
    except Exception as e:
        ctx.anchor("TAGORDER", "grammar-extraction", str(e))
