"""C12 mutants: breaking edits of `SixelImageHandler::draw` (src/image.rs) that still compile under #![deny(warnings)] and must be
reported with the expected key fragment, and benign (behaviour-preserving) edits that must stay silent."""
I = "src/image.rs"
ST = 'sixel_image.write_all(b"\\x1b\\\\")?;'
REG = 'write!(sixel_image, "#{};2;{};{};{}", index, red, green, blue)?;'
RASTER = 'write!(sixel_image, "\\"1;1;{};{}", qimg.width(), qimg.height())?;'
HIT = ("        if let Some(sixel_image) = self.imgs.get(&img.hash()) {\n"
       "            out.write_all(sixel_image.as_slice())?;\n"
       "            return Ok(());\n"
       "        }\n")
REPEAT = ('                        write!(sixel_image, "!{}", repeats)?;\n'
          "                        sixel_image.write_all(&[*code])?;\n")
QUANT = ("        let (palette, qimg) = match dimg.quantize(256, true, self.bg) {\n"
         "            None => return Ok(()),\n"
         "            Some(qimg) => qimg,\n"
         "        };\n")

SAMPLES = ("                for (i, s) in sixel.iter_mut().enumerate() {\n"
           "                    if let Some(index) = qimg.get(Position::new(row + i, col)) {\n"
           "                        *s = *index;\n"
           "                    }\n"
           "                }\n")
SAMPLES_IDX = ("                for i in 0..6 {\n"
               "                    if let Some(index) = qimg.get(Position::new(row + i, col)) {\n"
               "                        sixel[i] = *index;\n"
               "                    }\n"
               "                }\n")
BITS = ("                    for (s_index, s_color) in sixel.iter().enumerate() {\n"
        "                        if s_color == color {\n"
        "                            sixel_code |= 1 << s_index;\n"
        "                        }\n"
        "                    }\n")
BITS_IDX = ("                    for s_index in 0..6 {\n"
            "                        if sixel[s_index] == *color {\n"
            "                            sixel_code |= 1 << s_index;\n"
            "                        }\n"
            "                    }\n")

SKIP = ("                    // find shift needed to get to the correct offset\n"
        "                    let shift = column - offset;\n"
        "                    if shift > 0 {\n"
        "                        // determine whether it is more efficient to send repeats\n"
        "                        // or just blank sixel `?` multiple times\n"
        "                        if shift > 3 {\n"
        "                            write!(sixel_image, \"!{}?\", shift)?;\n"
        "                        } else {\n"
        "                            for _ in 0..shift {\n"
        "                                sixel_image.write_all(b\"?\")?;\n"
        "                            }\n"
        "                        }\n"
        "                    }\n")
WRITE_RUN = ("                    // write sixel\n"
             "                    if repeats > 3 {\n"
             "                        write!(sixel_image, \"!{}\", repeats)?;\n"
             "                        sixel_image.write_all(&[*code])?;\n"
             "                    } else {\n"
             "                        for _ in 0..repeats {\n"
             "                            sixel_image.write_all(&[*code])?;\n"
             "                        }\n"
             "                    }\n")
PEEK_LOOP = ("                    while let Some((column_next, code_next)) = codes.peek() {\n"
             "                        if *column_next != column + repeats || code_next != code {\n"
             "                            break;\n"
             "                        }\n"
             "                        repeats += 1;\n"
             "                        codes.next();\n"
             "                    }\n")

PALETTE_LOOP = ("        for (index, color) in palette.colors().iter().enumerate() {\n"
                "            let [red, green, blue] = color.to_rgb();\n"
                "            let red = (red as f32 / 2.55).round() as u8;\n"
                "            let green = (green as f32 / 2.55).round() as u8;\n"
                "            let blue = (blue as f32 / 2.55).round() as u8;\n"
                "            // 2 - means RGB, 1 - means HLS\n"
                "            " + REG + "\n"
                "        }\n")

EVICT = ("        while self.size > IMAGE_CACHE_SIZE {\n"
         "            let Some((_, lru_image)) = self.imgs.pop_lru() else {\n"
         "                break;\n"
         "            };\n"
         "            self.size -= lru_image.len();\n"
         "        }\n")

MUTANTS = [
    # ---------------- FRAMING ----------------
    {"id": "C12-missing-st", "prop": "C12", "expect": "FRAMING/",
     "edits": [(I, "        // EOF sixel\n        " + ST + "\n", "        // EOF sixel\n")]},
    {"id": "C12-st-before-last-band", "prop": "C12", "expect": "FRAMING/",
     "edits": [(I, '            sixel_image.write_all(b"-")?;\n        }\n        // EOF sixel\n        ' + ST + "\n",
                '            sixel_image.write_all(b"-")?;\n            ' + ST + "\n        }\n        // EOF sixel\n")]},
    {"id": "C12-emitted-before-st", "prop": "C12", "expect": "FRAMING/",
     "edits": [(I, "        " + ST + "\n\n        out.write_all(sixel_image.as_slice())?;\n",
                "        out.write_all(sixel_image.as_slice())?;\n        " + ST + "\n")]},
    {"id": "C12-hit-falls-through", "prop": "C12", "expect": "FRAMING/",
     "edits": [(I, HIT, HIT.replace("            return Ok(());\n", ""))]},
    {"id": "C12-buffer-never-emitted", "prop": "C12", "expect": "FRAMING/",
     "edits": [(I, "        out.write_all(sixel_image.as_slice())?;\n\n        self.size", "        out.flush()?;\n\n        self.size")]},
    {"id": "C12-hex-register-number", "prop": "C12", "expect": "write-not-understood",
     "edits": [(I, REG, REG.replace("#{};2;", "#{:x};2;"))]},
    {"id": "C12-parse-failure-inside", "prop": "C12", "expect": "non-io-failure-exit",
     "edits": [(I, "        // palette\n", '        let _depth: u8 = "8".parse().map_err(|_| Error::ParseError("sixel", "depth".to_string()))?;\n        // palette\n')]},
    # ---------------- HEADER ----------------
    {"id": "C12-width-height-swapped", "prop": "C12", "expect": "HEADER/",
     "edits": [(I, RASTER, RASTER.replace("qimg.width(), qimg.height()", "qimg.height(), qimg.width()"))]},
    {"id": "C12-height-not-truncated", "prop": "C12", "expect": "height-not-multiple-of-6",
     "edits": [(I, "let height = (img.height() / 6) * 6;", "let height = img.height();")]},
    {"id": "C12-raster-after-palette-entry", "prop": "C12", "expect": "HEADER/",
     "edits": [(I, RASTER, RASTER.replace('"\\"1;1;{};{}"', '"#0;2;0;0;0\\"1;1;{};{}"'))]},
    {"id": "C12-aspect-2-1", "prop": "C12", "expect": "HEADER/",
     "edits": [(I, RASTER, RASTER.replace('"\\"1;1;{};{}"', '"\\"2;1;{};{}"'))]},
    {"id": "C12-header-width-of-source", "prop": "C12", "expect": "HEADER/",
     "edits": [(I, RASTER, RASTER.replace("qimg.width(), qimg.height()", "qimg.width(), img.height()"))]},
    # ---------------- PALETTE ----------------
    {"id": "C12-palette-512", "prop": "C12", "expect": "palette-size",
     "edits": [(I, "dimg.quantize(256, true, self.bg)", "dimg.quantize(512, true, self.bg)")]},
    {"id": "C12-register-off-by-one", "prop": "C12", "expect": "register-index",
     "edits": [(I, REG, REG.replace("index, red", "index + 1, red"))]},
    {"id": "C12-channels-bgr", "prop": "C12", "expect": "channel-order",
     "edits": [(I, REG, REG.replace("index, red, green, blue", "index, blue, green, red"))]},
    {"id": "C12-channel-unscaled", "prop": "C12", "expect": "r-scale",
     "edits": [(I, "            let red = (red as f32 / 2.55).round() as u8;\n", "            let red = (red as f32).round() as u8;\n")]},
    {"id": "C12-channel-half", "prop": "C12", "expect": "g-scale",
     "edits": [(I, "            let green = (green as f32 / 2.55).round() as u8;\n", "            let green = (green as f32 / 2.0).round() as u8;\n")]},
    {"id": "C12-register-hls", "prop": "C12", "expect": "PALETTE/",
     "edits": [(I, REG, REG.replace("#{};2;", "#{};1;"))]},
    {"id": "C12-every-other-register", "prop": "C12", "expect": "PALETTE/",
     "edits": [(I, "            " + REG + "\n", "            if index % 2 == 0 {\n                " + REG + "\n            }\n")]},
    # ---------------- BAND ----------------
    {"id": "C12-band-step-3", "prop": "C12", "expect": "band-loop",
     "edits": [(I, "(0..qimg.height()).step_by(6)", "(0..qimg.height()).step_by(3)")]},
    {"id": "C12-sample-next-column", "prop": "C12", "expect": "sample-source",
     "edits": [(I, "qimg.get(Position::new(row + i, col))", "qimg.get(Position::new(row + i, col + 1))")]},
    {"id": "C12-sample-rows-reversed", "prop": "C12", "expect": "sample-source",
     "edits": [(I, "qimg.get(Position::new(row + i, col))", "qimg.get(Position::new(row + 5 - i, col))")]},
    {"id": "C12-bit-order-reversed", "prop": "C12", "expect": "bit-provenance",
     "edits": [(I, "sixel_code |= 1 << s_index;", "sixel_code |= 1 << (5 - s_index);")]},
    {"id": "C12-bits-of-other-colours", "prop": "C12", "expect": "bit-provenance",
     "edits": [(I, "if s_color == color {", "if s_color != color {")]},
    {"id": "C12-offset-63-dropped", "prop": "C12", "expect": "code-offset",
     "edits": [(I, ".push((col, sixel_code + 63));", ".push((col, sixel_code));")]},
    {"id": "C12-offset-64", "prop": "C12", "expect": "code-offset",
     "edits": [(I, ".push((col, sixel_code + 63));", ".push((col, sixel_code + 64));")]},
    {"id": "C12-dollar-missing", "prop": "C12", "expect": "BAND/",
     "edits": [(I, '                sixel_image.write_all(b"$")?;\n', "")]},
    {"id": "C12-dash-missing", "prop": "C12", "expect": "BAND/",
     "edits": [(I, '            sixel_image.write_all(b"-")?;\n', "")]},
    {"id": "C12-dash-per-colour", "prop": "C12", "expect": "BAND/",
     "edits": [(I, '                sixel_image.write_all(b"$")?;\n', '                sixel_image.write_all(b"$-")?;\n')]},
    {"id": "C12-select-colour-plus-one", "prop": "C12", "expect": "colour-selection",
     "edits": [(I, 'write!(sixel_image, "#{}", color)?; // set color', 'write!(sixel_image, "#{}", color + 1)?; // set color')]},
    {"id": "C12-lines-not-cleared", "prop": "C12", "expect": "run-lists-not-cleared",
     "edits": [(I, "            sixel_lines.clear();\n", "")]},
    {"id": "C12-colours-not-unique", "prop": "C12", "expect": "colour-key",
     "edits": [(I, "for color in unique_colors.iter() {", "for color in sixel.iter() {")]},
    {"id": "C12-code-not-reset", "prop": "C12", "expect": "BAND/",
     "edits": [(I, "                for color in unique_colors.iter() {\n                    let mut sixel_code = 0;\n",
                "                let mut sixel_code = 0;\n                for color in unique_colors.iter() {\n")]},
    # ---------------- RLE ----------------
    {"id": "C12-repeat-two-bytes", "prop": "C12", "expect": "RLE/",
     "edits": [(I, REPEAT, REPEAT + "                        sixel_image.write_all(&[*code])?;\n")]},
    {"id": "C12-repeat-without-byte", "prop": "C12", "expect": "RLE/",
     "edits": [(I, REPEAT, '                        write!(sixel_image, "!{}", repeats)?;\n')]},
    {"id": "C12-skip-count-column", "prop": "C12", "expect": "skip-count",
     "edits": [(I, 'write!(sixel_image, "!{}?", shift)?;', 'write!(sixel_image, "!{}?", column)?;')]},
    {"id": "C12-repeat-count-shift", "prop": "C12", "expect": "repeat-count",
     "edits": [(I, 'write!(sixel_image, "!{}", repeats)?;', 'write!(sixel_image, "!{}", shift + repeats)?;')]},
    {"id": "C12-offset-column-plus-one", "prop": "C12", "expect": "offset-update",
     "edits": [(I, "offset = column + repeats;", "offset = column + 1;")]},
    {"id": "C12-repeats-ignores-code", "prop": "C12", "expect": "repeat-counter",
     "edits": [(I, "if *column_next != column + repeats || code_next != code {", "if *column_next != column + repeats || code_next == &0 {")]},
    {"id": "C12-blank-loop-to-column", "prop": "C12", "expect": "RLE/",
     "edits": [(I, "for _ in 0..shift {", "for _ in 0..*column {")]},
    # ---------------- CACHE ----------------
    {"id": "C12-cache-stores-empty", "prop": "C12", "expect": "stored-value",
     "edits": [(I, "self.imgs.put(img.hash(), sixel_image);", "self.imgs.put(img.hash(), Vec::new());")]},
    {"id": "C12-cache-other-key", "prop": "C12", "expect": "store-key",
     "edits": [(I, "self.imgs.put(img.hash(), sixel_image);", "self.imgs.put(img.hash() / 2, sixel_image);")]},
    {"id": "C12-cache-lookup-other-key", "prop": "C12", "expect": "CACHE/",
     "edits": [(I, "self.imgs.get(&img.hash())", "self.imgs.get(&(img.width() as u64))")]},
    {"id": "C12-cache-store-conditional", "prop": "C12", "expect": "not-stored",
     "edits": [(I, "        self.size += sixel_image.len();\n        self.imgs.put(img.hash(), sixel_image);\n",
                "        if sixel_image.len() < 4096 {\n            self.size += sixel_image.len();\n            self.imgs.put(img.hash(), sixel_image);\n        }\n")]},
    # ---------------- TOTAL ----------------
    {"id": "C12-code-starts-at-200", "prop": "C12", "expect": "TOTAL/",
     "edits": [(I, "let mut sixel_code = 0;", "let mut sixel_code = 200;")]},
    {"id": "C12-nine-samples", "prop": "C12", "expect": "TOTAL/",
     "edits": [(I, "let mut sixel = [0usize; 6];", "let mut sixel = [0usize; 9];")]},
    {"id": "C12-size-not-accounted", "prop": "C12", "expect": "CACHE-ACCOUNT/",
     "edits": [(I, "        self.size += sixel_image.len();\n", "        self.size += 1;\n")]},
    {"id": "C12-offset-beyond-column", "prop": "C12", "expect": "TOTAL/",
     "edits": [(I, "offset = column + repeats;", "offset = column + repeats + 1;")]},

    {"id": "C12-height-minus-width-rem", "prop": "C12", "expect": "TOTAL/",
     "edits": [(I, "let height = (img.height() / 6) * 6;", "let height = img.height() - img.width() % 6;")]},
    {"id": "C12-bounded-cache", "prop": "C12", "expect": "CACHE-ACCOUNT/",
     "edits": [(I, "        SixelImageHandler {\n            imgs: lru::LruCache::unbounded(),", "        SixelImageHandler {\n            imgs: lru::LruCache::new(std::num::NonZeroUsize::MIN),")]},
    {"id": "C12-indexed-samples-five", "prop": "C12", "expect": "sample-source",
     "edits": [(I, SAMPLES, SAMPLES_IDX.replace("0..6", "0..5"))]},

    {"id": "C12-emits-tail-of-buffer", "prop": "C12", "expect": "out-receives-other-bytes",
     "edits": [(I, "        out.write_all(sixel_image.as_slice())?;\n\n        self.size", "        out.write_all(&sixel_image.as_slice()[1..])?;\n\n        self.size")]},
    {"id": "C12-emission-conditional", "prop": "C12", "expect": "buffer-not-emitted",
     "edits": [(I, "        out.write_all(sixel_image.as_slice())?;\n\n        self.size", "        if sixel_image.len() < 65536 {\n            out.write_all(sixel_image.as_slice())?;\n        }\n\n        self.size")]},
    {"id": "C12-view-drops-first-column", "prop": "C12", "expect": "quantize-input",
     "edits": [(I, "img.view(..height, ..)", "img.view(..height, 1..)")]},
    {"id": "C12-columns-up-to-height", "prop": "C12", "expect": "column-loop",
     "edits": [(I, "for col in 0..img.width() {", "for col in 0..img.height() {")]},
    {"id": "C12-run-list-removed", "prop": "C12", "expect": "run-lists-mutated",
     "edits": [(I, "            sixel_lines.clear();\n", "            sixel_lines.clear();\n            sixel_lines.remove(&0);\n")]},
    {"id": "C12-runs-reversed", "prop": "C12", "expect": "run-loop",
     "edits": [(I, "let mut codes = sixel_line.iter().peekable();", "let mut codes = sixel_line.iter().rev().peekable();")]},
    {"id": "C12-code-loop-to-shift", "prop": "C12", "expect": "code-loop",
     "edits": [(I, "                        for _ in 0..repeats {\n", "                        for _ in 0..shift {\n")]},
    {"id": "C12-repeated-byte-plus-one", "prop": "C12", "expect": "repeated-code-source",
     "edits": [(I, REPEAT, REPEAT.replace("&[*code]", "&[*code + 1]"))]},
    {"id": "C12-hit-returns-silently", "prop": "C12", "expect": "CACHE/",
     "edits": [(I, HIT, "        if self.imgs.get(&img.hash()).is_some() {\n            return Ok(());\n        }\n")]},

    # ---------------- benign ----------------
    {"id": "C12-benign-rename-offset", "prop": "C12", "benign": True,
     "edits": [(I, "let mut offset = 0;", "let mut start = 0;"), (I, "let shift = column - offset;", "let shift = column - start;"),
               (I, "offset = column + repeats;", "start = column + repeats;")]},
    {"id": "C12-benign-rename-hit", "prop": "C12", "benign": True,
     "edits": [(I, HIT, HIT.replace("sixel_image", "cached"))]},
    {"id": "C12-benign-split-register-write", "prop": "C12", "benign": True,
     "edits": [(I, REG, 'write!(sixel_image, "#{}", index)?;\n            write!(sixel_image, ";2;{};{};{}", red, green, blue)?;')]},
    {"id": "C12-benign-split-introducer", "prop": "C12", "benign": True,
     "edits": [(I, 'sixel_image.write_all(b"\\x1bPq")?;', 'sixel_image.write_all(b"\\x1bP")?;\n        sixel_image.write_all(b"q")?;')]},
    {"id": "C12-benign-reorder-lets", "prop": "C12", "benign": True,
     "edits": [(I, "        let mut sixel_lines: HashMap<usize, Vec<(usize, u8)>> = HashMap::new();\n        let mut unique_colors: HashSet<usize> = HashSet::with_capacity(6);\n",
                "        let mut unique_colors: HashSet<usize> = HashSet::with_capacity(6);\n        let mut sixel_lines: HashMap<usize, Vec<(usize, u8)>> = HashMap::new();\n"),
               (I, "            let green = (green as f32 / 2.55).round() as u8;\n            let blue = (blue as f32 / 2.55).round() as u8;\n            // 2 - means",
                "            let blue = (blue as f32 / 2.55).round() as u8;\n            let green = (green as f32 / 2.55).round() as u8;\n            // 2 - means")]},
    {"id": "C12-benign-let-else-quantize", "prop": "C12", "benign": True,
     "edits": [(I, QUANT, "        let Some((palette, qimg)) = dimg.quantize(256, true, self.bg) else {\n            return Ok(());\n        };\n")]},
    {"id": "C12-benign-height-by-remainder", "prop": "C12", "benign": True,
     "edits": [(I, "let height = (img.height() / 6) * 6;", "let height = img.height() - img.height() % 6;")]},
    {"id": "C12-benign-hoisted-key", "prop": "C12", "benign": True,
     "edits": [(I, "        if let Some(sixel_image) = self.imgs.get(&img.hash()) {", "        let key = img.hash();\n        if let Some(sixel_image) = self.imgs.get(&key) {"),
               (I, "self.imgs.put(img.hash(), sixel_image);", "self.imgs.put(key, sixel_image);")]},
    {"id": "C12-benign-store-clone", "prop": "C12", "benign": True,
     "edits": [(I, "self.imgs.put(img.hash(), sixel_image);", "self.imgs.put(img.hash(), sixel_image.clone());")]},
    {"id": "C12-benign-columns-of-qimg", "prop": "C12", "benign": True,
     "edits": [(I, "for col in 0..img.width() {", "for col in 0..qimg.width() {")]},
    {"id": "C12-benign-write-fmt-st", "prop": "C12", "benign": True,
     "edits": [(I, "        // EOF sixel\n        " + ST, '        // EOF sixel\n        write!(sixel_image, "\\x1b\\\\")?;')]},
    {"id": "C12-benign-indexed-samples", "prop": "C12", "benign": True,
     "edits": [(I, SAMPLES, SAMPLES_IDX)]},
    {"id": "C12-benign-indexed-bits", "prop": "C12", "benign": True,
     "edits": [(I, BITS, BITS_IDX)]},
    {"id": "C12-benign-push-and-extend", "prop": "C12", "benign": True,
     "edits": [(I, '                sixel_image.write_all(b"$")?;\n', "                sixel_image.push(b'$');\n"),
               (I, '            sixel_image.write_all(b"-")?;\n', '            sixel_image.extend_from_slice(b"-");\n')]},

    # ---------------- benign: refactorings of seeded/benign/C12-* and of the same kind ----------------
    # helper extraction (C12-A): the run writer becomes a private fn taking the buffer by `&mut`
    {"id": "C12-benign-helper-write-run", "prop": "C12", "benign": True,
     "edits": [(I, "impl ImageHandler for SixelImageHandler {\n",
                "fn sixel_write_run(out: &mut Vec<u8>, code: u8, count: usize) -> Result<(), Error> {\n"
                "    if count > 3 {\n        write!(out, \"!{}\", count)?;\n        out.write_all(&[code])?;\n    } else {\n"
                "        for _ in 0..count {\n            out.write_all(&[code])?;\n        }\n    }\n    Ok(())\n}\n\n"
                "impl ImageHandler for SixelImageHandler {\n"),
               (I, SKIP, "                    sixel_write_run(&mut sixel_image, b'?', column - offset)?;\n"),
               (I, WRITE_RUN, "                    sixel_write_run(&mut sixel_image, *code, repeats)?;\n")]},
    # helper extraction: header and palette writers
    {"id": "C12-benign-helper-header-palette", "prop": "C12", "benign": True,
     "edits": [(I, "impl ImageHandler for SixelImageHandler {\n",
                "fn sixel_header(out: &mut Vec<u8>, width: usize, height: usize) -> Result<(), Error> {\n"
                "    out.write_all(b\"\\x1bPq\")?;\n    write!(out, \"\\\"1;1;{};{}\", width, height)?;\n    Ok(())\n}\n\n"
                "fn sixel_palette(out: &mut Vec<u8>, palette: &ColorPalette) -> Result<(), Error> {\n"
                "    for (index, color) in palette.colors().iter().enumerate() {\n"
                "        let [red, green, blue] = color.to_rgb();\n"
                "        let red = (red as f32 / 2.55).round() as u8;\n"
                "        let green = (green as f32 / 2.55).round() as u8;\n"
                "        let blue = (blue as f32 / 2.55).round() as u8;\n"
                "        write!(out, \"#{};2;{};{};{}\", index, red, green, blue)?;\n    }\n    Ok(())\n}\n\n"
                "impl ImageHandler for SixelImageHandler {\n"),
               (I, "        " + 'sixel_image.write_all(b"\\x1bPq")?;' + "\n        " + RASTER + "\n",
                "        sixel_header(&mut sixel_image, qimg.width(), qimg.height())?;\n"),
               (I, PALETTE_LOOP, "        sixel_palette(&mut sixel_image, &palette)?;\n")]},
    # helper extraction: the sixel character of one colour in one column
    {"id": "C12-benign-helper-sixel-code", "prop": "C12", "benign": True,
     "edits": [(I, "impl ImageHandler for SixelImageHandler {\n",
                "fn sixel_code_of(sixel: &[usize; 6], color: usize) -> u8 {\n    let mut sixel_code = 0;\n"
                "    for (s_index, s_color) in sixel.iter().enumerate() {\n        if *s_color == color {\n            sixel_code |= 1 << s_index;\n        }\n    }\n"
                "    sixel_code\n}\n\nimpl ImageHandler for SixelImageHandler {\n"),
               (I, "                    let mut sixel_code = 0;\n" + BITS, "                    let sixel_code = sixel_code_of(&sixel, *color);\n")]},
    # loop -> iterator chain (C12-B): bits by filter + fold, run length by next_if
    {"id": "C12-benign-bits-fold", "prop": "C12", "benign": True,
     "edits": [(I, "                    let mut sixel_code = 0;\n" + BITS,
                "                    let sixel_code = sixel\n                        .iter()\n                        .enumerate()\n"
                "                        .filter(|(_, s_color)| *s_color == color)\n"
                "                        .fold(0u8, |code, (s_index, _)| code | (1 << s_index));\n")]},
    {"id": "C12-benign-bits-fold-range", "prop": "C12", "benign": True,
     "edits": [(I, "                    let mut sixel_code = 0;\n" + BITS,
                "                    let sixel_code = (0..6).filter(|&i| sixel[i] == *color).fold(0u8, |code, i| code | (1 << i));\n")]},
    {"id": "C12-benign-repeats-next-if", "prop": "C12", "benign": True,
     "edits": [(I, PEEK_LOOP,
                "                    while codes\n                        .next_if(|(column_next, code_next)| {\n"
                "                            *column_next == column + repeats && code_next == code\n                        })\n"
                "                        .is_some()\n                    {\n                        repeats += 1;\n                    }\n")]},
    # flipped comparisons / negated guard
    {"id": "C12-benign-flipped-comparisons", "prop": "C12", "benign": True,
     "edits": [(I, "if s_color == color {", "if color == s_color {"),
               (I, "if *column_next != column + repeats || code_next != code {", "if code != code_next || column + repeats != *column_next {"),
               (I, "if shift > 3 {", "if 3 < shift {")]},
    {"id": "C12-benign-bits-continue", "prop": "C12", "benign": True,
     "edits": [(I, BITS, "                    for (s_index, s_color) in sixel.iter().enumerate() {\n"
                         "                        if s_color != color {\n                            continue;\n                        }\n"
                         "                        sixel_code |= 1 << s_index;\n                    }\n")]},
    # `for x in &collection` instead of `collection.iter()`
    {"id": "C12-benign-for-in-ref", "prop": "C12", "benign": True,
     "edits": [(I, "for (color, sixel_line) in sixel_lines.iter() {", "for (color, sixel_line) in &sixel_lines {"),
               (I, "for color in unique_colors.iter() {", "for color in &unique_colors {")]},
    # independent statements reordered: offset is not read again in the same iteration
    {"id": "C12-benign-offset-update-before-write", "prop": "C12", "benign": True,
     "edits": [(I, "                    // write sixel\n", "                    offset = column + repeats;\n                    // write sixel\n"),
               (I, "                    }\n                    offset = column + repeats;\n                }\n", "                    }\n                }\n")]},
    # loop -> iterator: the blank fill as extend(repeat().take())
    {"id": "C12-benign-blank-fill-extend", "prop": "C12", "benign": True,
     "edits": [(I, "                            for _ in 0..shift {\n                                sixel_image.write_all(b\"?\")?;\n                            }\n",
                "                            sixel_image.extend(std::iter::repeat(b'?').take(shift));\n")]},
    # named constant, hoisted dimensions, slice emission
    {"id": "C12-benign-named-const-hoisted-dims", "prop": "C12", "benign": True,
     "edits": [(I, "const IMAGE_CACHE_SIZE: usize = 134217728; // 128MB\n", "const IMAGE_CACHE_SIZE: usize = 134217728; // 128MB\nconst SIXEL_ROWS: usize = 6;\nconst SIXEL_BASE: u8 = b'?';\n"),
               (I, "(0..qimg.height()).step_by(6)", "(0..rows).step_by(SIXEL_ROWS)"),
               (I, "let mut sixel = [0usize; 6];", "let mut sixel = [0usize; SIXEL_ROWS];"),
               (I, ".push((col, sixel_code + 63));", ".push((col, sixel_code + SIXEL_BASE));"),
               (I, RASTER, "let (columns, rows) = (qimg.width(), qimg.height());\n        write!(sixel_image, \"\\\"1;1;{};{}\", columns, rows)?;"),
               (I, "for col in 0..img.width() {", "for col in 0..columns {")]},
    {"id": "C12-benign-emit-full-slice", "prop": "C12", "benign": True,
     "edits": [(I, "        out.write_all(sixel_image.as_slice())?;\n\n        self.size", "        out.write_all(&sixel_image[..])?;\n\n        self.size"),
               (I, "            out.write_all(sixel_image.as_slice())?;\n            return Ok(());", "            out.write_all(sixel_image)?;\n            return Ok(());")]},
    # breaking counterparts of the new shapes
    {"id": "C12-helper-run-two-bytes", "prop": "C12", "expect": "RLE/",
     "edits": [(I, "impl ImageHandler for SixelImageHandler {\n",
                "fn sixel_write_run(out: &mut Vec<u8>, code: u8, count: usize) -> Result<(), Error> {\n"
                "    if count > 3 {\n        write!(out, \"!{}\", count)?;\n        out.write_all(&[code, code])?;\n    } else {\n"
                "        for _ in 0..count {\n            out.write_all(&[code])?;\n        }\n    }\n    Ok(())\n}\n\n"
                "impl ImageHandler for SixelImageHandler {\n"),
               (I, SKIP, "                    sixel_write_run(&mut sixel_image, b'?', column - offset)?;\n"),
               (I, WRITE_RUN, "                    sixel_write_run(&mut sixel_image, *code, repeats)?;\n")]},
    {"id": "C12-helper-run-error-swallowed", "prop": "C12", "expect": "/",
     "edits": [(I, "impl ImageHandler for SixelImageHandler {\n",
                "fn sixel_write_run(out: &mut Vec<u8>, code: u8, count: usize) -> Result<(), Error> {\n"
                "    if count > 3 {\n        write!(out, \"!{}\", count)?;\n        out.write_all(&[code])?;\n    } else {\n"
                "        for _ in 0..count {\n            out.write_all(&[code])?;\n        }\n    }\n    Ok(())\n}\n\n"
                "impl ImageHandler for SixelImageHandler {\n"),
               (I, SKIP, "                    sixel_write_run(&mut sixel_image, b'?', column - offset)?;\n"),
               (I, WRITE_RUN, "                    sixel_write_run(&mut sixel_image, *code, repeats + 1)?;\n")]},
    {"id": "C12-fold-bits-of-other-colours", "prop": "C12", "expect": "bit-provenance",
     "edits": [(I, "                    let mut sixel_code = 0;\n" + BITS,
                "                    let sixel_code = sixel\n                        .iter()\n                        .enumerate()\n"
                "                        .filter(|(_, s_color)| *s_color != color)\n"
                "                        .fold(0u8, |code, (s_index, _)| code | (1 << s_index));\n")]},
    {"id": "C12-fold-bit-order-reversed", "prop": "C12", "expect": "bit-provenance",
     "edits": [(I, "                    let mut sixel_code = 0;\n" + BITS,
                "                    let sixel_code = sixel\n                        .iter()\n                        .enumerate()\n"
                "                        .filter(|(_, s_color)| *s_color == color)\n"
                "                        .fold(0u8, |code, (s_index, _)| code | (1 << (5 - s_index)));\n")]},
    {"id": "C12-fold-index-after-filter", "prop": "C12", "expect": "bit-provenance",
     "edits": [(I, "                    let mut sixel_code = 0;\n" + BITS,
                "                    let sixel_code = sixel\n                        .iter()\n                        .filter(|s_color| *s_color == color)\n"
                "                        .enumerate()\n                        .fold(0u8, |code, (s_index, _)| code | (1 << s_index));\n")]},
    {"id": "C12-fold-starts-at-64", "prop": "C12", "expect": "/",
     "edits": [(I, "                    let mut sixel_code = 0;\n" + BITS,
                "                    let sixel_code = sixel\n                        .iter()\n                        .enumerate()\n"
                "                        .filter(|(_, s_color)| *s_color == color)\n"
                "                        .fold(64u8, |code, (s_index, _)| code | (1 << s_index));\n")]},
    {"id": "C12-next-if-ignores-code", "prop": "C12", "expect": "repeat-counter",
     "edits": [(I, PEEK_LOOP,
                "                    while codes\n                        .next_if(|(column_next, _)| *column_next == column + repeats)\n"
                "                        .is_some()\n                    {\n                        repeats += 1;\n                    }\n")]},
    {"id": "C12-next-if-counts-misses", "prop": "C12", "expect": "repeat-counter",
     "edits": [(I, PEEK_LOOP,
                "                    while codes\n                        .next_if(|(column_next, code_next)| {\n"
                "                            *column_next == column + repeats && code_next == code\n                        })\n"
                "                        .is_none()\n                    {\n                        repeats += 1;\n                        if repeats > 2 {\n                            break;\n                        }\n                    }\n")]},
    {"id": "C12-blank-fill-extend-column", "prop": "C12", "expect": "RLE/",
     "edits": [(I, "                            for _ in 0..shift {\n                                sixel_image.write_all(b\"?\")?;\n                            }\n",
                "                            sixel_image.extend(std::iter::repeat(b'?').take(*column));\n")]},

    # helper extraction: eviction loop / the whole "remember" step as private methods of the handler
    {"id": "C12-benign-helper-evict", "prop": "C12", "benign": True,
     "edits": [(I, "impl ImageHandler for SixelImageHandler {\n",
                "impl SixelImageHandler {\n    fn evict(&mut self) {\n" + EVICT.replace("        ", "    ", 0) + "    }\n}\n\nimpl ImageHandler for SixelImageHandler {\n"),
               (I, "        self.imgs.put(img.hash(), sixel_image);\n" + EVICT, "        self.imgs.put(img.hash(), sixel_image);\n        self.evict();\n")]},
    {"id": "C12-benign-helper-remember", "prop": "C12", "benign": True,
     "edits": [(I, "impl ImageHandler for SixelImageHandler {\n",
                "impl SixelImageHandler {\n    fn remember(&mut self, key: u64, sixel_image: Vec<u8>) {\n        self.size += sixel_image.len();\n        self.imgs.put(key, sixel_image);\n"
                + EVICT + "    }\n}\n\nimpl ImageHandler for SixelImageHandler {\n"),
               (I, "        self.size += sixel_image.len();\n        self.imgs.put(img.hash(), sixel_image);\n" + EVICT, "        self.remember(img.hash(), sixel_image);\n")]},
    # iterator -> loop: the set of a column's colours filled by insert
    {"id": "C12-benign-colours-insert-loop", "prop": "C12", "benign": True,
     "edits": [(I, "                unique_colors.extend(sixel.iter().copied());\n", "                for s_color in sixel.iter() {\n                    unique_colors.insert(*s_color);\n                }\n")]},
    {"id": "C12-colours-insert-first-only", "prop": "C12", "expect": "colour-key",
     "edits": [(I, "                unique_colors.extend(sixel.iter().copied());\n", "                unique_colors.insert(sixel[0]);\n")]},
    # equivalent conversion
    {"id": "C12-benign-channel-f32-from", "prop": "C12", "benign": True,
     "edits": [(I, "            let red = (red as f32 / 2.55).round() as u8;\n", "            let red = (f32::from(red) / 2.55).round() as u8;\n"),
               (I, "            let [red, green, blue] = color.to_rgb();\n", "            let rgb = color.to_rgb();\n            let (red, green, blue) = (rgb[0], rgb[1], rgb[2]);\n")]},
    {"id": "C12-helper-remember-size-not-accounted", "prop": "C12", "expect": "CACHE-ACCOUNT/",
     "edits": [(I, "impl ImageHandler for SixelImageHandler {\n",
                "impl SixelImageHandler {\n    fn remember(&mut self, key: u64, sixel_image: Vec<u8>) {\n        self.size += 1;\n        self.imgs.put(key, sixel_image);\n"
                + EVICT + "    }\n}\n\nimpl ImageHandler for SixelImageHandler {\n"),
               (I, "        self.size += sixel_image.len();\n        self.imgs.put(img.hash(), sixel_image);\n" + EVICT, "        self.remember(img.hash(), sixel_image);\n")]},

    # pre-sized buffer, reordered arms, generic helper
    {"id": "C12-benign-reserve", "prop": "C12", "benign": True,
     "edits": [(I, "        let mut sixel_image = Vec::new();\n", "        let mut sixel_image = Vec::with_capacity(1024);\n        sixel_image.reserve(palette.size().min(256) * 18);\n")]},
    {"id": "C12-benign-reordered-arms", "prop": "C12", "benign": True,
     "edits": [(I, QUANT, "        let (palette, qimg) = match dimg.quantize(256, true, self.bg) {\n            Some(qimg) => qimg,\n            None => return Ok(()),\n        };\n")]},
    {"id": "C12-benign-helper-generic-writer", "prop": "C12", "benign": True,
     "edits": [(I, "impl ImageHandler for SixelImageHandler {\n",
                "fn sixel_write_run<W: Write>(out: &mut W, code: u8, count: usize) -> Result<(), Error> {\n"
                "    if count > 3 {\n        write!(out, \"!{}\", count)?;\n        out.write_all(&[code])?;\n    } else {\n"
                "        for _ in 0..count {\n            out.write_all(&[code])?;\n        }\n    }\n    Ok(())\n}\n\n"
                "impl ImageHandler for SixelImageHandler {\n"),
               (I, SKIP, "                    sixel_write_run(&mut sixel_image, b'?', column - offset)?;\n"),
               (I, WRITE_RUN, "                    sixel_write_run(&mut sixel_image, *code, repeats)?;\n")]},

    # struct literal instead of the constructor
    {"id": "C12-benign-position-literal", "prop": "C12", "benign": True,
     "edits": [(I, "qimg.get(Position::new(row + i, col))", "qimg.get(Position { row: row + i, col })")]},
    {"id": "C12-position-literal-swapped", "prop": "C12", "expect": "sample-source",
     "edits": [(I, "qimg.get(Position::new(row + i, col))", "qimg.get(Position { row: col, col: row + i })")]},
]


# ---- exact shortcut for single-colour columns, pre-sized buffer from the palette length (robustness round 3) ----
_FILL = "                        *s = *index;\n                    }\n                }\n"
_FAST = lambda guard, key, code, tail: (_FILL + "                if " + guard + " {\n                    sixel_lines\n                        .entry(" + key + ")\n"
                                        "                        .or_default()\n                        .push((col, " + code + "));\n" + tail + "                }\n")
_CONT = "                    continue;\n"
_ALL = "sixel.iter().all(|s_color| *s_color == sixel[0])"
_NEWBUF = "        let mut sixel_image = Vec::new();\n"
MUTANTS += [
    {"id": "C12-benign-uniform-column-shortcut", "prop": "C12", "benign": True,
     "edits": [(I, _FILL, _FAST(_ALL, "sixel[0]", "0b111111 + 63", _CONT)),
               (I, _NEWBUF, "        let mut sixel_image = Vec::with_capacity(32 + palette.colors().len() * 20);\n")]},
    {"id": "C12-benign-uniform-column-shortcut-not-any", "prop": "C12", "benign": True,
     "edits": [(I, _FILL, _FAST("!sixel.iter().any(|s_color| *s_color != sixel[5])", "sixel[5]", "126", _CONT))]},
    {"id": "C12-benign-uniform-column-shortcut-range-chain", "prop": "C12", "benign": True,
     "edits": [(I, _FILL, _FAST("(0..6).all(|i| sixel[i] == sixel[0])", "sixel[3]", "((1u8 << 6) - 1) + 63", _CONT))]},
    {"id": "C12-uniform-shortcut-falls-through", "prop": "C12", "expect": "run-list-push",
     "edits": [(I, _FILL, _FAST(_ALL, "sixel[0]", "0b111111 + 63", ""))]},
    {"id": "C12-uniform-shortcut-wrong-code", "prop": "C12", "expect": "run-list-push",
     "edits": [(I, _FILL, _FAST(_ALL, "sixel[0]", "0b11111 + 63", _CONT))]},
    {"id": "C12-uniform-shortcut-guard-any-equal", "prop": "C12", "expect": "run-list-push",
     "edits": [(I, _FILL, _FAST("sixel.iter().any(|s_color| *s_color == sixel[0])", "sixel[0]", "0b111111 + 63", _CONT))]},
    {"id": "C12-uniform-shortcut-guard-partial", "prop": "C12", "expect": "run-list-push",
     "edits": [(I, _FILL, _FAST("sixel.iter().take(3).all(|s_color| *s_color == sixel[0])", "sixel[0]", "0b111111 + 63", _CONT))]},
    {"id": "C12-uniform-shortcut-wrong-column", "prop": "C12", "expect": "run-list-push",
     "edits": [(I, _FILL, _FAST(_ALL, "sixel[0]", "0b111111 + 63", _CONT).replace("push((col,", "push((col + 1,"))]},
    {"id": "C12-capacity-from-palette-overflows", "prop": "C12", "expect": "TOTAL",
     "edits": [(I, _NEWBUF, "        let mut sixel_image = Vec::with_capacity(32 + palette.colors().len() * (usize::MAX / 16));\n")]},
]

MUTANTS += [
    {"id": "C12-benign-capacity-from-dimensions-and-palette-size", "prop": "C12", "benign": True,
     "edits": [(I, _NEWBUF, "        let mut sixel_image = Vec::with_capacity(qimg.width() * (qimg.height() / 6) + palette.size() * 16 + 32);\n")]},
    {"id": "C12-capacity-from-dimensions-cubed", "prop": "C12", "expect": "TOTAL",
     "edits": [(I, _NEWBUF, "        let mut sixel_image = Vec::with_capacity(qimg.width() * qimg.height() * qimg.width() * 8);\n")]},
]

# ---- refactoring shapes of seeded/benign/C12-P: the 0-255 -> 0-100 conversion applied through `to_rgb().map(f)` / a helper ------------------
_SIX_IMPL = "impl ImageHandler for SixelImageHandler {\n"
_CH3 = ("            let red = (red as f32 / 2.55).round() as u8;\n"
        "            let green = (green as f32 / 2.55).round() as u8;\n"
        "            let blue = (blue as f32 / 2.55).round() as u8;\n")
_TO_RGB3 = "            let [red, green, blue] = color.to_rgb();\n" + _CH3
_PCT = lambda body: "fn sixel_channel_percent(channel: u8) -> u8 {\n    " + body + "\n}\n\n"

MUTANTS += [
    {"id": "C12-benign-channel-scale-map-fn-item", "prop": "C12", "benign": True,
     "edits": [(I, _SIX_IMPL, _PCT("(channel as f32 / 2.55).round() as u8") + _SIX_IMPL),
               (I, _TO_RGB3, "            let [red, green, blue] = color.to_rgb().map(sixel_channel_percent);\n")]},
    {"id": "C12-benign-channel-scale-map-closure", "prop": "C12", "benign": True,
     "edits": [(I, _TO_RGB3, "            let [red, green, blue] = color.to_rgb().map(|c| (f32::from(c) / 2.55).round() as u8);\n")]},
    {"id": "C12-benign-channel-scale-helper-called-thrice", "prop": "C12", "benign": True,
     "edits": [(I, _SIX_IMPL, _PCT("let scaled = channel as f32 / 2.55;\n    scaled.round() as u8") + _SIX_IMPL),
               (I, _CH3, "            let red = sixel_channel_percent(red);\n            let green = sixel_channel_percent(green);\n            let blue = sixel_channel_percent(blue);\n")]},
    {"id": "C12-benign-channel-scale-map-indexed", "prop": "C12", "benign": True,
     "edits": [(I, _SIX_IMPL, _PCT("(channel as f32 / 2.55).round() as u8") + _SIX_IMPL),
               (I, _TO_RGB3, "            let pct = color.to_rgb().map(sixel_channel_percent);\n            let (red, green, blue) = (pct[0], pct[1], pct[2]);\n")]},
    {"id": "C12-channel-scale-map-fn-item-no-division", "prop": "C12", "expect": "PALETTE",
     "edits": [(I, _SIX_IMPL, _PCT("(channel as f32).round() as u8") + _SIX_IMPL),
               (I, _TO_RGB3, "            let [red, green, blue] = color.to_rgb().map(sixel_channel_percent);\n")]},
    {"id": "C12-channel-scale-map-closure-wrong-divisor", "prop": "C12", "expect": "PALETTE",
     "edits": [(I, _TO_RGB3, "            let [red, green, blue] = color.to_rgb().map(|c| (c as f32 / 2.0).round() as u8);\n")]},
    {"id": "C12-channel-scale-map-then-swapped", "prop": "C12", "expect": "channel-order",
     "edits": [(I, _SIX_IMPL, _PCT("(channel as f32 / 2.55).round() as u8") + _SIX_IMPL),
               (I, _TO_RGB3, "            let [green, red, blue] = color.to_rgb().map(sixel_channel_percent);\n")]},
    {"id": "C12-channel-scale-helper-two-paths", "prop": "C12", "expect": "PALETTE",
     "edits": [(I, _SIX_IMPL, _PCT("if channel > 200 {\n        return channel;\n    }\n    (channel as f32 / 2.55).round() as u8") + _SIX_IMPL),
               (I, _TO_RGB3, "            let [red, green, blue] = color.to_rgb().map(sixel_channel_percent);\n")]},
]
